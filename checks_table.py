"""Per-property job table of the driver (see ./check)."""

MUX = "internal/multiplex"
COMMON = "internal/common"
SERVER = "internal/server"
CLIENT = "internal/client"
UM = "internal/server/usermanager"

CHECKS = {}
HOOK_COMMITS = []
NOT_APPLICABLE = {}

CHECKS["C04"] = {
    "level": "exploration",
    "technique": "exhaustive length enumeration + rapid property test; differential against an independent reference codec (round trip, cross decode, byte-for-byte)",
    "level_text": "Every legal payload length under every method/placement/seq-class is encoded and checked against an independent implementation of the Cloak v2 layout, plus random frames; this decides round-trip, size limit and wire compatibility for the whole length domain and samples the 2^104 header/key space.",
    "level_note": "Trusts /verif/kit/refcodec.go as the layout definition and the Go crypto primitives; header/key values are sampled, not enumerated.",
    "exhaustive_claim": True,
    "rule": "Lengths: every payload length 1..max x 4 methods x {in-place, separate buffer} x {seq<5 (random padding), seq>=5} enumerated; "
            "Random: rapid-drawn (method,key,stream id,seq,closing,len,placement,limit), seq<5 encoded 64 times. Each case: repo round trip, "
            "repo->reference decode, reference->repo decode, byte-for-byte equality with the reference encoding, size<=limit. "
            "Every case is non-trivial (a full encode/decode differential); distinct = distinct (method,len,seq-class,placement) tuples resp. distinct scenarios.",
    "assumptions": ["the reference codec in /verif/kit/refcodec.go is a faithful transcription of the Cloak v2 frame layout",
                    "x/crypto and crypto/aes primitives are correct"],
    "jobs": [
        {"pkg": MUX, "run": "^TestVerif_C04_Lengths$"},
        {"pkg": MUX, "run": "^TestVerif_C04_Random$", "checks": {"quick": 3000, "thorough": 400000}, "shards": {"thorough": 16}},
    ],
}
