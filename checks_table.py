"""Per-property job table of the driver (see ./check)."""

MUX = "internal/multiplex"
COMMON = "internal/common"
SERVER = "internal/server"
CLIENT = "internal/client"
UM = "internal/server/usermanager"
CKCLIENT = "cmd/ck-client"

CHECKS = {}
HOOK_COMMITS = ["b1f260a", "4c58a0f"]
NOT_APPLICABLE = {}

CHECKS["C04"] = {
    "level": "exploration",
    "technique": "exhaustive length enumeration + rapid property test; differential against an independent reference codec (round trip, cross decode, byte-for-byte); every record live sessions put on the wire during rapid-generated histories is decoded by that codec",
    "level_text": "Every legal payload length under every method/placement/seq-class is encoded and checked against an independent implementation of the Cloak v2 layout, plus random frames; in both directions (this build's messages under the reference decoder; the reference encoding - with this build's padding and with padding lengths 0, 1, 7, 100 and 255-tag of its own on any sequence number - under this build's decoder); this decides round-trip, size limit and wire compatibility for the whole length domain and samples the 2^104 header/key space.",
    "level_note": "Trusts /verif/kit/refcodec.go as the layout definition and the Go crypto primitives; header/key values are sampled, not enumerated.",
    "exhaustive_claim": True,
    "rule": "Lengths: every payload length 1..max x 4 methods x {in-place, separate buffer} x {seq<5 (random padding), seq>=5} enumerated; "
            "Random: rapid-drawn (method,key,stream id,seq,closing,len,placement,limit), seq<5 encoded 64 times. Each case: repo round trip, "
            "repo->reference decode, reference->repo decode, byte-for-byte equality with the reference encoding, size<=limit. "
            "Every case is non-trivial (a full encode/decode differential); distinct = distinct (method,len,seq-class,placement) tuples resp. distinct scenarios. OnTheWire: the C03 scenario generator (<=60 ops, closes, reorderings) followed by a Session.Close of one side; every TLS record on every link in both directions is decoded by the reference codec; non-trivial = a session-closing notice and >3 records on the wire.",
    "assumptions": ["the reference codec in /verif/kit/refcodec.go is a faithful transcription of the Cloak v2 frame layout",
                    "x/crypto and crypto/aes primitives are correct"],
    "jobs": [
        {"pkg": MUX, "run": "^TestVerif_C04_Lengths$"},
        {"pkg": MUX, "run": "^TestVerif_C04_Random$", "checks": {"quick": 3000, "thorough": 400000}, "shards": {"thorough": 16}},
        {"pkg": MUX, "run": "^TestVerif_C04_OnTheWire$", "checks": {"quick": 300, "thorough": 30000}, "shards": {"thorough": 16}, "timeout": {"quick": 600}},
    ],
}

CHECKS["C02"] = {
    "level": "exploration",
    "exhaustive_claim": True,
    "technique": "exhaustive enumeration of arrival permutations x reader schedules for small n + rapid sampling for large n / extreme sequence numbers; reference-model oracle",
    "level_text": "All n! arrival orders for n<=6 frames (n<=8 in thorough) x closing frame absent/last x all 2^n reader-drain schedules are executed against the in-package stream buffer and compared with a sequence-order model after every arrival; larger n, big payloads and sequence numbers around 2^32/2^63/2^64 are sampled. Arrival through several connections at once is explored by a concurrent sub-check: a backlog of 1..3000 frames is parked, then the gap filler and the frames that follow (data or the closing frame) are released together from 2-4 goroutines on real cores; the reader must get the payloads in sequence order and end-of-stream only after all of them.",
    "level_note": "White-box use of streamBuffer.nextRecvSeq (to reach high sequence numbers) and of the pipe's buffered length (to drain without blocking). Frames are delivered exactly once, the closing frame has the highest number (what a sender produces).",
    "rule": "Exhaustive: every permutation of n<=6 (thorough 8) frames, closing frame absent or numbered last, every subset of arrivals after which the reader drains; the receive buffer is reused and overwritten between arrivals. "
            "Sampled: rapid-drawn n<=200, order kinds random/reverse/nearly-sorted/rotate, sizes 1..40000, base seq in {0,2^32-n/2,2^63-n/2,2^64-n,...}. Non-trivial = arrival order differs from sequence order; distinct = distinct permutations (exhaustive) / distinct scenarios (sampled). Sampled also draws the reader's buffer sizes (64 KiB, exactly half or all of what is readable, 1/100/4096/200000 bytes).",
    "assumptions": ["each frame is delivered exactly once", "the stream-closing frame carries the highest sequence number of its stream"],
    "jobs": [
        {"pkg": MUX, "run": "^TestVerif_C02_StalledReader$", "checks": {"quick": 10, "thorough": 300}, "shards": {"thorough": 8}, "timeout": {"quick": 600}},
        {"pkg": MUX, "run": "^TestVerif_C02_Exhaustive$"},
        {"pkg": MUX, "run": "^TestVerif_C02_Sampled$", "checks": {"quick": 5000, "thorough": 1000000}, "shards": {"thorough": 16}},
        {"pkg": MUX, "run": "^TestVerif_C02_Concurrent$", "realtime": True, "checks": {"quick": 300, "thorough": 30000}, "shards": {"thorough": 8}},
    ],
}

CHECKS["C01"] = {
    "level": "exploration",
    "technique": "rapid-generated operation sequences (write/deliver/read per connection and segment) interpreted on a real Session pair over a test-owned network inside a synctest bubble; PRF-tagged byte-stream reference model",
    "level_text": "Generated interleavings of writes, per-connection deliveries (whole record / part of a record) and reads on a real client/server Session pair; cross-connection overtaking and TCP segmentation are generated values, not scheduling luck; every byte read is checked against a per-stream PRF model and final equality is required. The 'keeps working' clause is decided in real time: connections with bounded buffers and a gate per direction, batches of stream closes and writes larger than the buffers issued on both sides with the gates shut, gates opened in generated orders; every call must return, a canary stream nobody closes must carry its data both ways and a fresh stream must work - a stall is declared only when a progress counter stood still for 10 s and two goroutine dumps a second apart show every goroutine inside Cloak blocked at the same place.",
    "level_note": "Goroutine schedules between quiescence points are the Go runtime's; only the client opens streams (as every real caller does); the network never drops or duplicates bytes.",
    "rule": "rapid draws (method, 1..8 conns or singleplex, key, switchboard seed) and up to 150 (900) ops over 1..6 (300) streams; non-trivial = some frame was handed to the receiver while a lower-numbered frame of the same stream was still undelivered on another connection, or a record was delivered in >=2 segments; distinct = distinct scenarios.",
    "assumptions": ["the in-memory network delivers each byte exactly once in per-connection order", "only the client side opens streams"],
    "jobs": [
        {"pkg": MUX, "run": "^TestVerif_C01_SessionPair$", "checks": {"quick": 1500, "thorough": 200000}, "shards": {"thorough": 16}},
        {"pkg": MUX, "run": "^TestVerif_C01_AddConnRace$", "checks": {"quick": 300, "thorough": 20000}, "shards": {"thorough": 8}},
        {"pkg": MUX, "run": "^TestVerif_C01_Liveness$", "realtime": True, "checks": {"quick": 150, "thorough": 10000}, "shards": {"thorough": 8}, "timeout": {"quick": 900}},
        {"pkg": SERVER, "run": "^TestVerif_C01_FullRig$", "checks": {"quick": 90, "thorough": 8000}, "shards": {"thorough": 16}, "timeout": {"quick": 600}},
        {"pkg": MUX, "run": "^TestVerif_C01_ManyStreams$", "checks": {"quick": 40, "thorough": 3000}, "shards": {"thorough": 16}},
    ],
}

CHECKS["C03"] = {
    "level": "exploration",
    "technique": "rapid-generated write/deliver/read/close sequences on a real Session pair over a test-owned network (synctest bubble); per-stream prefix/equality model derived from the wire tap",
    "level_text": "Generated scripts of writes, per-connection deliveries and closes by either or both sides; whether the closing notice overtakes data on another connection is a generated value; 0.5 % of the scripts leave 1-5 MB unread on a stream before its receiving side closes it; 40 % of the multi-connection scripts contain the adaptive 'raceclose' delivery: a one-byte frame, a run of 3-12 full frames and the close are written, everything except the first frame and the closing notice is delivered (the run parks in the reorder buffer), then the gap filler's connection and the closing notice are delivered in the same step, so one connection's goroutine flushes the backlog while another processes the close. After every step and after the final drain the readers' bytes/errors are compared with a model computed from the tap (what had been handed over, whether the peer's close is next in line).",
    "level_note": "Same trusted base as C01; a side's Close is issued only after its own writes returned (the statement is about bytes written before the close).",
    "rule": "rapid draws config (method, 1..8 conns or singleplex) and <=60 ops over 1..3 streams with a designated closer (client, server or both) per stream; non-trivial = the stream-closing frame was delivered while a lower-numbered data frame of that stream was still undelivered on another connection; distinct = distinct scenarios.",
    "assumptions": ["only the client opens streams", "network delivers bytes exactly once, in order per connection"],
    "jobs": [
        {"pkg": MUX, "run": "^TestVerif_C03_Close$", "checks": {"quick": 2000, "thorough": 300000}, "shards": {"thorough": 16}, "timeout": {"quick": 1200, "thorough": 7200}},
        {"pkg": SERVER, "run": "^TestVerif_C03_FullRig$", "checks": {"quick": 80, "thorough": 5000}, "shards": {"thorough": 16}, "timeout": {"quick": 600}},
    ],
}

CHECKS["C12"] = {
    "level": "fault_enumeration",
    "technique": "rapid-generated base scenarios; a connection reset (preceded by a partial delivery cutting a record in a chosen offset class) or a session Close (optionally racing with other calls) is injected at EVERY operation position of each base scenario; teardown oracle at quiescence (synctest bubble); real-time generated workloads for accept-queue overflow, simultaneous closes from both ends and large unread backlogs (progress counter + goroutine-dump criterion)",
    "level_text": "For each generated base scenario the fault is enumerated over every operation boundary and, per fault spec, over connection x offset class (record boundary, TLS header, frame header, payload, tag); after each injection the interpreter drains the network and checks prefix-only delivery, that every parked Read/Write/Accept/Close returned, that OpenStream is refused, that every connection end was closed, and (before the fault) that the active-stream counter equals the model count at every quiescent step; inactivity-timer phases are explored on the virtual clock. A bubble that ends up permanently stuck with a goroutine queued on a lock (which stops the virtual clock) is recognised by a real-time watchdog from two identical goroutine dumps and judged by the same post-fault rules evaluated on the harness' bookkeeping (violation only if a fault or session close had been injected and a blocked call has not returned or a connection was not closed); otherwise exit 2. At layer 3 (real client and server code over the test network) connection attempts fail in six ways during session set-up, including a reply that fails only after sibling connections have joined and a sibling whose reply is delayed past that failure; the established session must either work on six probe streams or be closed. A real-time sub-check closes streams from both ends at the same moment (50-500 per batch, a canary stream stays open) and requires both sessions to count exactly the canary once settled. Another closes the session (Close on either side, connection reset) while 1..1064 peer-opened streams wait un-accepted: the teardown must complete, a late Accept must return, nothing may panic; the peer-initiated case with an overflowing accept queue is the recorded known finding F-C12f (excluded by construction: the application resumes accepting; reproduced once per run). IdleRace (real time, every log statement of the code under test a scheduling point): 16-48 session pairs hand their only stream over to a new one at generated offsets (close of the last stream racing the opening of the next), stay silent for 1.5 inactivity periods with the new stream open, and must all still be open and carry data.",
    "level_note": "Schedules inside a step are the Go runtime's; under back pressure only one writer per stream is generated (a parked writer holds the stream mutex, which synctest cannot treat as durably blocked).",
    "rule": "base scenario: rapid-drawn config (ordered/unordered, 1..8 conns or singleplex, optional bounded buffers) and <=30 ops; faults: 1..3 specs x every position 0..len(ops). Non-trivial = fault strictly inside a record, or frames had arrived out of order before it, or a goroutine was parked in Read/Write at the fault; distinct = distinct scenarios (each standing for (len(ops)+1) x specs executions, counted in evaluations). UnreadBacklog: {1,8,20,40,70} MiB written to a stream nobody reads, a reader parked on a second stream, 1..3 connections, trigger from {reset, close-receiver, close-sender}; non-trivial = >=8 MiB.",
    "assumptions": ["a reset is seen by both ends; EOF is seen after in-flight bytes were delivered (TCP-like)", "the code under test does not complete a teardown through a timer while other goroutines queue on its locks (wedge verdicts)"],
    "jobs": [
        {"pkg": MUX, "run": "^TestVerif_C12_Faults$", "checks": {"quick": 500, "thorough": 40000}, "shards": {"thorough": 16}, "timeout": {"quick": 300}},
        {"pkg": SERVER, "run": "^TestVerif_C12_FullRigFaults$", "checks": {"quick": 80, "thorough": 6000}, "shards": {"thorough": 16}, "timeout": {"quick": 600}},
        {"pkg": SERVER, "run": "^TestVerif_C12_ConnectFault$", "checks": {"quick": 150, "thorough": 10000}, "shards": {"thorough": 8}, "timeout": {"quick": 600}},
        {"pkg": MUX, "run": "^TestVerif_C12_OpenRace$", "checks": {"quick": 300, "thorough": 20000}, "shards": {"thorough": 8}, "timeout": {"quick": 300}},
        {"pkg": MUX, "run": "^TestVerif_C12_AcceptBacklog$", "realtime": True, "checks": {"quick": 40, "thorough": 2000}, "shards": {"thorough": 8}, "timeout": {"quick": 900}},
        {"pkg": MUX, "run": "^TestVerif_C12_UnreadBacklog$", "realtime": True, "checks": {"quick": 10, "thorough": 300}, "shards": {"thorough": 4}, "timeout": {"quick": 900}},
        {"pkg": MUX, "run": "^TestVerif_C12_CloseRace$", "realtime": True, "checks": {"quick": 80, "thorough": 2000}, "shards": {"thorough": 8}, "timeout": {"quick": 900}},
        {"pkg": MUX, "run": "^TestVerif_C12_AddConnRace$", "realtime": True, "checks": {"quick": 30, "thorough": 1500}, "shards": {"thorough": 8}, "timeout": {"quick": 600}},
        {"pkg": MUX, "run": "^TestVerif_C12_IdleRace$", "realtime": True, "checks": {"quick": 8, "thorough": 300}, "shards": {"thorough": 4}, "timeout": {"quick": 600}},
        {"pkg": MUX, "run": "^TestVerif_C12_Inactivity$", "checks": {"quick": 1500, "thorough": 150000}, "shards": {"thorough": 16}, "timeout": {"quick": 300}},
    ],
}

CHECKS["C13"] = {
    "level": "exploration",
    "technique": "rapid-generated Write/ReadFrom/Close/reset sequences (synctest bubble) plus generated high-contention workloads with real goroutines; oracle = wire tap decoded by the independent reference codec (uniqueness, gap-freedom, write order, closing frame position); thorough tier repeats the stress under -race; ck-client's main() in-process against server.Serve over loopback with rapid-generated configurations and overlapping proxied connections, decoded under the session keys the server drew",
    "level_text": "Every message the sender put on the wire is decoded with the session key by the reference codec; per (direction, stream) the numbers must be pairwise distinct, 0..n-1 when no send failed, payloads in number order must reproduce each writer's bytes with every Write's frames contiguous, and the closing frame must be numbered after all writes completed before Close. Interleavings are explored by sequential generated histories and by 2..16 goroutines (Write, ReadFrom, Close) hammering one stream of an ordered or unordered session on all cores.",
    "level_note": "Concurrent schedules are sampled by contention (plus the race detector in the thorough tier), not enumerated; a race window that needs a specific nanosecond interleaving may be missed.",
    "rule": "Scenarios: rapid-drawn <=50 ops (write incl. multi-frame, readfrom chunk scripts, close, deliver, reset) over 1..4 streams; non-trivial = >=3 frames on the wire. Stress: 2..16 concurrent writers (Write and ReadFrom) x 20..300 writes each on one stream, optional racing Close, 1..16 concurrent OpenStream; non-trivial = >=2 goroutines on one stream. distinct = distinct scenarios. Program: NumConn from {0,0,0,1,3}, AEAD method, browser, 1..5 proxied connections starting 0..30 ms apart with 1..4 chunks from {1,100,3000,16132,40000} bytes through ck-client's main(); non-trivial = >=2 proxied connections and >=2 client frames decoded.",
    "assumptions": ["reference codec is faithful", "sink connections accept every write"],
    "jobs": [
        {"pkg": MUX, "run": "^TestVerif_C13_Scenarios$", "checks": {"quick": 1500, "thorough": 150000}, "shards": {"thorough": 16}, "timeout": {"quick": 300}},
        {"pkg": MUX, "run": "^TestVerif_C13_SessionClose$", "checks": {"quick": 300, "thorough": 20000}, "shards": {"thorough": 8}, "timeout": {"quick": 300}},
        {"pkg": MUX, "run": "^TestVerif_C13_Stress$", "realtime": True, "checks": {"quick": 60, "thorough": 3000}, "shards": {"thorough": 4}, "timeout": {"quick": 300}},
        {"pkg": MUX, "run": "^TestVerif_C13_OpenIDs$", "checks": {"quick": 150, "thorough": 5000}, "timeout": {"quick": 300}},
        {"pkg": MUX, "run": "^TestVerif_C13_Stress$", "realtime": True, "checks": {"thorough": 300}, "race": True, "tiers": ["thorough"], "env": {"VERIF_RACE": "1"}},
        {"pkg": CKCLIENT, "run": "^TestVerif_C13_Program$", "realtime": True, "checks": {"quick": 12, "thorough": 400}, "shards": {"thorough": 4}, "timeout": {"quick": 600}},
    ],
}

CHECKS["C14"] = {
    "level": "exploration",
    "technique": "rapid-generated datagram write/deliver/read(buffer size)/close sequences on a real unordered Session pair over a test-owned network (synctest bubble); multiset reference model fed from the decoded wire tap",
    "level_text": "Each read must return exactly one whole datagram that arrived on that stream and was not read before; short-buffer errors are only allowed (and required to leave the datagram intact) when a waiting datagram is larger than the buffer; accepted datagrams appear on the wire as exactly one frame, refused ones never; after the final drain every datagram of a still-open stream has been read exactly once. A real-time sub-check lets 2-6 streams send at the same time (Write and relay path, after a relay source handed over an empty datagram) over connections with small buffers; each reader must get exactly the multiset of its stream's datagrams. Datagrams enter through Write and through ReadFrom from a message-oriented source (the relay path), sizes 1..max with emphasis on the last 20 bytes below the maximum.",
    "level_note": "Arrival order across connections is serialised by the interpreter (one connection delivered at a time); no FIFO order between datagrams is demanded, only the multiset.",
    "rule": "rapid draws unordered config (method, 1..8 conns or singleplex) and <=60 ops over 1..4 streams: datagram sizes 1..max and max+1,max+2,2*max; read buffers = size-1/size/size+1 of datagrams in flight or huge; closes. Non-trivial = a short-buffer read occurred, or >=2 streams shared a connection, or a frame overtook a lower one across connections; distinct = distinct scenarios.",
    "assumptions": ["network delivers each record exactly once"],
    "jobs": [
        {"pkg": MUX, "run": "^TestVerif_C14_Datagrams$", "checks": {"quick": 2000, "thorough": 300000}, "shards": {"thorough": 16}, "timeout": {"quick": 300}},
        {"pkg": MUX, "run": "^TestVerif_C14_Concurrent$", "realtime": True, "checks": {"quick": 100, "thorough": 6000}, "shards": {"thorough": 8}, "timeout": {"quick": 900}},
        {"pkg": SERVER, "run": "^TestVerif_C14_UDPRig$", "realtime": True, "checks": {"quick": 10, "thorough": 400}, "shards": {"thorough": 4}, "timeout": {"quick": 300}},
    ],
}

CHECKS["C19"] = {
    "level": "exploration",
    "technique": "rapid-generated traffic patterns over 1..3 sessions x 1..4 connections x 1..4 streams of one limited user (valve obtained through userPanel.GetUser / ActiveUser.GetSession), free-running on the synctest virtual clock; every interval between two wire events is checked against the token-bucket bound in O(n); the limiter alone at rapid-generated rates from 1 kB/s to 4 GB/s",
    "level_text": "Time is virtual, so every send/receive event has an exact timestamp; for every pair of events (a,b) the bytes in [a,b] must be <= 1.01*rate*(b-a) + one second of burst + one message, across all sessions and connections of the user - sessions admitted one after the other or simultaneously by separate goroutines (GetUser + GetSession each, as the dispatcher does) while the user is not active yet; 30 % of the cases are deep backlogs at 1-20 kB/s with 16+ queued senders and frames worth many seconds of allowance; backlogged senders must reach >= 0.99*rate*T minus burst/in-flight terms.",
    "level_note": "Upload direction is measured where data becomes readable on the server-side streams (payload bytes, after the limiter); download direction at the server's connection writes (the bytes the limiter counted). One writer per stream and direction.",
    "rule": "rapid draws rates from 1 kB/s..10 MB/s, topology, 5..60 virtual seconds and 1..8 writers (size patterns 37 B..16132 B, backlogged or bursty with pauses). Non-trivial = connections of >=2 sessions sent within the same virtual second; distinct = distinct scenarios. Valve: rx/tx rates 10^3..4x10^9 B/s (round, round+odd remainder, arbitrary), 1..4 callers per direction asking for 1/60/1400/16401-byte admissions for 50 ms..4 s of virtual time (<=6000 each), optional idle start; every case non-trivial.",
    "assumptions": ["juju/ratelimit runs on the bubble's virtual clock (time.Now/time.Sleep)", "the bound includes one maximal message because a wire write is atomic"],
    "jobs": [
        {"pkg": SERVER, "run": "^TestVerif_C19_Rates$", "checks": {"quick": 100, "thorough": 8000}, "shards": {"thorough": 16}, "timeout": {"quick": 300}},
        {"pkg": MUX, "run": "^TestVerif_C19_Valve$", "checks": {"quick": 300, "thorough": 30000}, "shards": {"thorough": 8}, "timeout": {"quick": 600}},
    ],
}

CHECKS["C11"] = {
    "level": "exploration",
    "exhaustive_claim": True,
    "technique": "exhaustive single-bit flips over whole messages of 5 small sizes (all header/tag bits + sampled payload bits for large ones) x 3 AEAD methods x padded/unpadded; rapid-generated multi-byte corruptions, truncations, extensions, foreign keys/methods and garbage against deobfuscate and a live Session; native go fuzzing in the thorough tier",
    "level_text": "Every variant of a genuine message must be rejected by the codec and, fed to a live session, must leave stream table, counters and accept queue untouched while a following valid frame is still delivered in order; garbage of 0..20480 bytes must never panic under any method. Garbage records of every length of interest (0..48, the record-size landmarks, the last 64 below the receive-buffer size) are also sent on a connection of the direct transport between two genuine frames: the second must be delivered and the session must stay open. A real-time sub-check hands the genuine frames of 1-6 streams to the session from 1-8 goroutines at once (the connections' receiving goroutines), interleaved with random bytes, bit-flipped, truncated, extended and foreign-key frames: every reader must get exactly its stream's bytes, no foreign stream may appear, nothing may stall or panic. Modifications confined to wire bytes 12/13 are the recorded known finding and are excluded by construction (executed, counted, reported).",
    "level_note": "Key and nonce space are sampled. The known finding F-C11 (bytes 12/13 unauthenticated) is listed in known_findings.json; any other accepted modification is a VIOLATION.",
    "rule": "Flips: for payload lengths 1,2,17,100,270 every bit of every byte position (padded seq 2 and unpadded seq 9), for 1500 and 16132 all 112 header bits, all 128 tag bits and 200 payload positions; x aes-256-gcm, chacha20-poly1305, aes-128-gcm. Random: rapid-drawn kind in {multi-byte xor, truncate 1..64, extend 1..64, other key, other method, garbage 0..20480 (all four methods), flip}. Every case non-trivial; distinct = distinct (method,size,position,bit) resp. scenarios. Transport: direct-transport records and WebSocket messages of every length of interest, garbage between two genuine frames and as the first message of a fresh connection.",
    "assumptions": ["x/crypto and crypto/aes AEAD implementations are correct"],
    "jobs": [
        {"pkg": MUX, "run": "^TestVerif_C11_Flips$"},
        {"pkg": MUX, "run": "^TestVerif_C11_Random$", "checks": {"quick": 4000, "thorough": 600000}, "shards": {"thorough": 16}},
        {"pkg": MUX, "run": "^TestVerif_C11_Concurrent$", "realtime": True, "checks": {"quick": 150, "thorough": 10000}, "shards": {"thorough": 8}, "timeout": {"quick": 900}},
        {"pkg": MUX, "run": "^TestVerif_C11_Transport$"},
        {"pkg": MUX, "run": "^$", "tiers": ["thorough"], "fuzz": {"target": "^FuzzVerifRecvData$", "seconds": {"quick": 0, "thorough": 150}}},
    ],
}

CHECKS["C20"] = {
    "level": "exploration",
    "technique": "rapid-generated option presence masks and values rendered both as JSON file and as key=value; string (with the \\= escapes of plugin hosts); oracle = table transcribed from README.md + cross-syntax equality; random strings for the no-crash part; rapid-generated layer-3 and program-level runs observing the options' effect on the wire (server names, browser signature on retries, stream timeout, one session per UDP proxy client)",
    "level_text": "Each generated configuration is parsed through both front ends (results must be equal) and processed; every documented option (NumConn<=0, KeepAlive seconds, StreamTimeout default, Transport/BrowserSig selection observed through the transport actually created, CDN url, AlternativeNames filtering, encryption names) is compared with an independent transcription of the README; incomplete/invalid configurations must yield an error, arbitrary strings must not panic. BrowserSig is checked in effect on every connection attempt of sessions set up under connection faults (each ClientHello must have the shape of a fresh hello of the configured browser; a failed chrome attempt may be retried as firefox, as the client documents). StreamTimeout is also checked in effect on the virtual clock: the value parsed from either syntax is handed to RouteTCP over a test network; a proxy connection whose first data comes before the limit must stay usable in both directions at any later time (up to 5x the period), one that stays silent longer must be closed.",
    "level_note": "The README transcription in harness/internal__client/c20_test.go (c20Table) is the trusted oracle; values containing ';', '\"' or '\\\\' are outside the option-string domain (the front end has no escaping for them once unescaped) and are not generated.",
    "rule": "rapid draws presence (p=0.4..0.95 per option) and representative values for the 19 options incl. NumConn in {-7,-1,0,1,2,4,8}, KeepAlive in {-5,0,1,15,30,3600}, mixed-case names, base64 keys with '=' padding, empty alternative names; every case is non-trivial (both syntaxes + processing); distinct = distinct (presence mask, escaping) pairs. ServerNames: layer-3 scenarios with ServerName from {random, RANDOM, rAnDoM, www.bing.com, a.example.org, randomised.example} and NumConn 0..6; non-trivial = random name over >=3 connections. ProgramNames: ck-client main() with ServerName and 0..4 AlternativeNames from {bing.com, cloudflare.com, github.com, a.example.org, random, RANDOM, Random, randomised.example}, 4..10 proxied connections (singleplex 3 of 4: one session, i.e. one draw, per connection); non-trivial = >=2 distinct names seen. SingleplexUDP: the UDP rig with NumConn from {0,-1}, 2..4 proxy clients with 2..8 datagrams each; every case non-trivial.",
    "assumptions": ["README.md client section is the specification"],
    "jobs": [
        {"pkg": CLIENT, "run": "^TestVerif_C20_Config$", "checks": {"quick": 6000, "thorough": 600000}, "shards": {"thorough": 16}},
        {"pkg": CLIENT, "run": "^TestVerif_C20_NoCrash$", "checks": {"quick": 3000, "thorough": 300000}, "shards": {"thorough": 8}},
        {"pkg": CLIENT, "run": "^TestVerif_C20_StreamTimeout$", "checks": {"quick": 300, "thorough": 20000}, "shards": {"thorough": 8}},
        {"pkg": SERVER, "run": "^TestVerif_C20_SigAfterRetry$", "checks": {"quick": 150, "thorough": 10000}, "shards": {"thorough": 8}},
        {"pkg": SERVER, "run": "^TestVerif_C20_ServerNames$", "checks": {"quick": 150, "thorough": 10000}, "shards": {"thorough": 8}},
        {"pkg": CKCLIENT, "run": "^TestVerif_C20_ProgramNames$", "realtime": True, "checks": {"quick": 12, "thorough": 300}, "shards": {"thorough": 4}, "timeout": {"quick": 600}},
        {"pkg": SERVER, "run": "^TestVerif_C20_SingleplexUDP$", "realtime": True, "checks": {"quick": 6, "thorough": 150}, "shards": {"thorough": 4}, "timeout": {"quick": 600}},
    ],
}

CHECKS["C18"] = {
    "level": "exploration",
    "technique": "model-based testing: rapid-generated admin-API operation sequences (POST with any subset of fields and extreme values, malformed/mismatching requests, GET, list, DELETE, close/reopen, owner connects, usage upload) against a real bolt-backed manager; in-memory reference map compared through GET and list after every step",
    "level_text": "After every operation each of the 4 UIDs is read back through GET and through the listing and compared field by field with the reference map (UIDs of 16, 3 and 20 bytes; listings requested while another connection keeps adding users until the database file has to be enlarged; overlapping operations: 2-4 POST/DELETE/usage-upload calls issued at once on one user must leave a record equal to the outcome of some sequential order of them, also after reopen; unset fields read as 0/null, rejected requests - UID mismatch, syntax errors, bad URL, empty body, and nine kinds of well-formed but ill-typed values - change nothing, deleted users are gone, state survives reopen); connect (userPanel.GetUser + GetSession) and usage upload (Manager.UploadStatus and userPanel.commitUpdate) are executed exactly as the server's goroutines call them, and a panic in Cloak code is a violation.",
    "level_note": "Crash points inside a bolt transaction are not injected (bolt's own durability is trusted); the API is driven through APIRouter.ServeHTTP rather than through a tunnelled HTTP connection (that path is exercised in C07's admin-gate check).",
    "rule": "rapid draws <=14 ops over 4 UIDs; values from {0,1,-1,2,100,2^31,-2^31,2^63-1,-2^63,now+-1,2^40} and [-1000,100000]; non-trivial = the sequence contains a partial update, a rejected request or a reopen; distinct = distinct scenarios.",
    "assumptions": ["bbolt commits are atomic and durable"],
    "jobs": [
        {"pkg": SERVER, "run": "^TestVerif_C18_Store$", "checks": {"quick": 1200, "thorough": 120000}, "shards": {"thorough": 16}, "timeout": {"quick": 300}},
        {"pkg": SERVER, "run": "^TestVerif_C18_Concurrent$", "realtime": True, "checks": {"quick": 300, "thorough": 20000}, "shards": {"thorough": 8}},
        {"pkg": SERVER, "run": "^TestVerif_C18_ListWhileGrowing$", "realtime": True, "checks": {"quick": 12, "thorough": 400}, "shards": {"thorough": 4}, "timeout": {"quick": 900}},
    ],
}

CHECKS["C05"] = {
    "level": "exploration",
    "exhaustive_claim": True,
    "technique": "exhaustive enumeration of every single and every pair of cut positions for short exchanges + rapid-generated long exchanges with random segmentation/coalescing and generated admission orders of concurrent writers' underlying writes (ticketed network, synctest bubble); list model oracle; oversize records crafted on the raw connection; layer-3 rig with rapid-generated exact segmentation of the handshake region",
    "level_text": "common.TLSConn and common.WebSocketConn (obtained through a real gorilla Upgrade, both directions) are driven over a network that delivers exactly the generated segments; every Read must return exactly the next whole message of some writer, per-writer order preserved, nothing lost; the order in which concurrent writers' underlying Write calls reach the wire is a generated permutation, so a split header/body write interleaves deterministically; records declaring more than the reader's buffer must yield an error.",
    "level_note": "WebSocket concurrent-writer cases run with free-running goroutines inside the bubble (a goroutine parked while holding the connection's write mutex cannot be scheduled deterministically under synctest).",
    "rule": "Cuts: 6 short exchanges (<=3 messages of 0..130 bytes) x {TLS, WS client->server, WS server->client} x every pair 1<=a<=b<total of cut positions (enumerated). Sampled: rapid-drawn 1..8 writers x 1..6 messages of length 0..16640 (and >16640 for refused writes), <=12 cyclic segment sizes incl. 0=everything, admission schedule of <=40 entries. Oversize: declared length buffer+{1,2,100,45055}. Non-trivial = a message arrived in >=2 segments or >=2 messages arrived in one segment; distinct = distinct (exchange, cut pair) resp. scenarios. HandshakeThenRecords: 1..3 proxied connections through real client and server code (direct and CDN transport, NumConn 0..3); per link 1..14 exact leading segments from {1,2,4,5,6,11,33,60,97,127,128,129,133,134,160,200,333,517,600} bytes in either direction, then free-running segmentation; oracle = byte-exact delivery end to end; every case non-trivial.",
    "assumptions": ["gorilla/websocket framing is correct"],
    "jobs": [
        {"pkg": COMMON, "run": "^TestVerif_C05_Cuts$", "timeout": {"quick": 600}},
        {"pkg": COMMON, "run": "^TestVerif_C05_Sampled$", "checks": {"quick": 1500, "thorough": 200000}, "shards": {"thorough": 16}, "timeout": {"quick": 600}},
        {"pkg": COMMON, "run": "^TestVerif_C05_Stall$", "checks": {"quick": 400, "thorough": 40000}, "shards": {"thorough": 8}, "timeout": {"quick": 300}},
        {"pkg": COMMON, "run": "^TestVerif_C05_Oversize$", "checks": {"quick": 300, "thorough": 20000}, "shards": {"thorough": 4}},
        {"pkg": SERVER, "run": "^TestVerif_C05_HandshakeThenRecords$", "checks": {"quick": 150, "thorough": 10000}, "shards": {"thorough": 16}, "timeout": {"quick": 600}},
        {"pkg": COMMON, "run": "^$", "tiers": ["thorough"], "fuzz": {"target": "^FuzzVerifTLSConnStream$", "seconds": {"quick": 0, "thorough": 120}}},
    ],
}

CHECKS["C06"] = {
    "level": "exploration",
    "technique": "rapid-generated client configurations; one real handshake per case (client Transport.Handshake <-> server dispatchConnection, direct and through a TLS-terminating CDN shim) in a synctest bubble; oracle = independent re-authentication of the tapped first packet + key equality",
    "level_text": "For each generated (UID, proxy method 1..12 bytes, encryption method, session id incl. 0/2^31/2^32-1, ordered/unordered, browser signature, transport, server name incl. 'random', client clock offset inside the window) the client's returned key must equal the key of the session the server filed under exactly that UID and session id, and an independent server state must recover exactly the configured identity fields from the tapped first packet. What reaches the server arrives in one piece or in two segments (tail of 1-7 bytes); server names include mixed-case spellings of 'random'. 0-6 other clients (own UIDs and session ids) handshake in the same step and the identities recovered from all tapped first packets must equal the configured ones as a multiset, each client's session being filed under its own UID. A case opens 1, 2, 3 or 6 connections of the same session at the same time (bypass user, or database user whose authorisation query yields the processor until a second caller is inside): all must be given one key, the server must keep one session.",
    "level_note": "Clock offsets are generated with |offset| <= 178.999 s so that the truncation of the timestamp to whole seconds never reaches the window edge (edges belong to C07). The CDN is emulated by a crypto/tls terminator with a self-signed certificate.",
    "rule": "rapid draws the configuration tuple; every case is a full handshake (non-trivial); distinct = distinct (browser, transport, enc, flag, sid class, name class, method length) tuples.",
    "assumptions": ["utls builds ClientHellos as the real client does", "crypto/tls and gorilla/websocket are correct"],
    "jobs": [
        {"pkg": SERVER, "run": "^TestVerif_C06_Handshake$", "checks": {"quick": 1000, "thorough": 100000}, "shards": {"thorough": 16}, "timeout": {"quick": 600}},
    ],
}

CHECKS["C10"] = {
    "level": "exploration",
    "technique": "rapid-generated full client<->server rigs (all browser signatures, encryption methods, NumConn 0..8, traffic scripts, closes, virtual-clock latencies) with a passive tap on every connection; oracle = independent TLS record / ClientHello / ServerHello parser in /verif/kit/tlsref.go; the client half again with ck-client's main() in-process over loopback (rapid-generated configurations and traffic)",
    "level_text": "Every byte either side ever wrote on every client<->server connection of the generated sessions is parsed: the client's first flight must be exactly one handshake record (0x0301) with a structurally consistent ClientHello (all length fields add up, 32-byte session id, one server name equal to the configured one or a valid random host name, 32-byte X25519 share); the server must answer ServerHello (session id echoed, consistent) + ChangeCipherSpec + application data; everything after is application-data records (type 23, version 3.3) of length 1..16640 with no trailing partial record.",
    "level_note": "Direct mode only (as the property states). The traffic is whatever the C01 full-rig scripts produce, including stream and session closing notices and inactivity closures.",
    "rule": "rapid draws a client configuration and 1..8 proxy connections with scripts; evaluations counts parsed connections; non-trivial = a rig in which >=1 connection carried data records in both directions after the handshake; distinct = distinct scenarios. Program: ck-client main() with NumConn {0,0,1,3}, any method, ServerName/AlternativeNames from fixed names and the keyword random, 2..6 proxied connections with 1..3 chunks; the client's byte stream of every connection is parsed; non-trivial = >=2 application-data records. Stall: session pair over 1..4 connections, connection 0 takes {1,3,100,3000,16000,20000,70000} bytes and then blocks for {1,10,29,31,45,100,400} virtual seconds before it drains again; 1..3 streams writing 8/64/200 KB; non-trivial = bytes went out on the stalled connection.",
    "assumptions": ["tlsref.go implements RFC 8446 framing correctly"],
    "jobs": [
        {"pkg": SERVER, "run": "^TestVerif_C10_Wire$", "checks": {"quick": 150, "thorough": 10000}, "shards": {"thorough": 16}, "timeout": {"quick": 600}},
        {"pkg": SERVER, "run": "^TestVerif_C10_Datagrams$", "checks": {"quick": 300, "thorough": 20000}, "shards": {"thorough": 8}, "timeout": {"quick": 600}},
        {"pkg": CKCLIENT, "run": "^TestVerif_C10_Program$", "realtime": True, "checks": {"quick": 12, "thorough": 300}, "shards": {"thorough": 4}, "timeout": {"quick": 600}},
        {"pkg": MUX, "run": "^TestVerif_C10_Stall$", "checks": {"quick": 150, "thorough": 10000}, "shards": {"thorough": 8}, "timeout": {"quick": 600}},
    ],
}

CHECKS["C08"] = {
    "level": "exploration",
    "technique": "rapid-generated presentation histories (new / verbatim replay / key-less altered copy / N concurrent presentations / clock advance) against one server State whose replay-cache cleaner runs on the synctest virtual clock; history invariant: at most one acceptance per sealed identity block",
    "level_text": "Genuine first packets are captured from the real client transports (direct ClientHello for three browser signatures, WebSocket GET through a TLS shim); histories place replays and altered copies (top bit of the ephemeral key, other unauthenticated bytes) at generated times, in particular just before and after the 12 h clean-ups while the packet's timestamp is still inside the 180 s window; any second acceptance is a violation.",
    "level_note": "The set of key-less alterations is a fixed list (bit 255 of the ephemeral public key, a cipher-suite byte / extra HTTP header, the server name / request path); goroutine schedules of concurrent presentations are the runtime's.",
    "rule": "rapid draws 2..30 ops; advances from 1 s..179 s, {181 s, 359 s, 361 s, 1 h, 12 h} and starts 1..170 s before a multiple of 12 h; non-trivial = a replay presented after >=1 cleaner run while the timestamp is still in the window, or an altered copy presented inside the window; distinct = distinct scenarios. flood ops: {50, 3000, 40000, 70000, 140000, 300000} other first packets (the first 2000 through AuthFirstPacket). variant kinds: bit255, ciphersuite, sni, rewrap (the 96 sealed bytes presented in a genuine first packet of the other transport).",
    "assumptions": ["X25519 public keys are equivalent up to bit 255 (RFC 7748)"],
    "jobs": [
        {"pkg": SERVER, "run": "^TestVerif_C08_Replay$", "checks": {"quick": 800, "thorough": 100000}, "shards": {"thorough": 16}, "timeout": {"quick": 600}},
        {"pkg": SERVER, "run": "^TestVerif_C08_TestAndSet$", "checks": {"quick": 10, "thorough": 200}, "timeout": {"quick": 600}},
        {"pkg": SERVER, "run": "^TestVerif_C08_Concurrent$", "checks": {"quick": 25, "thorough": 1500}, "shards": {"thorough": 2}, "timeout": {"quick": 600}},
    ],
}

CHECKS["C07"] = {
    "level": "exploration",
    "exhaustive_claim": True,
    "technique": "exhaustive single-bit flips of four genuine first packets (three browser ClientHellos + WebSocket GET) and rapid-generated multi-byte edits/truncations/extensions against AuthFirstPacket on a fresh replay cache (oracle: accept => identity fields, sealed block and ephemeral key equal the genuine ones, checked with an independent parser); exhaustive clock-offset sweep around both window edges; rapid-generated dispatch outcomes (user class x proxy method x key x transport x clock) and admin-gate cases on a real bolt-backed server in a synctest bubble",
    "level_text": "Decides 'accept implies intact and timely' over every bit of real first packets, the strict two-sided 180 s window at 1 s resolution plus sub-second edges, and the observable outcome of dispatchConnection (handshake reply vs. relay to the redirect target) for bypass/admin/database users with good, exhausted, expired, deleted or unknown records, unknown proxy methods, wrong server key and both transports; the admin API must answer only for admin UID with session id 0. A third of the probes arrive when the user's session with that id already exists (joining is subject to the same conditions). Which UIDs a configuration admits is decided with states built by InitState from generated configurations (admin UID absent/present/all-zero, 0-3 bypass UIDs, user database or none) and genuine first packets for probe UIDs (all-zero, all-0xFF, configured ones, one-bit neighbours, database user, unknown) through dispatchConnection. 168 first packets forged without the server's public key (small-order / non-canonical ephemeral keys 0, 1, order-8 points, p-1, p, p+1, with and without bit 255; identity block sealed under the secret a permissive X25519 would yield; TLS and WebSocket carriers) must all be rejected; genuine packets with extreme client clocks (2^31 .. 2^62, unit confusions, +-293 years) are decided with integer arithmetic.",
    "level_note": "Flips outside the authenticated fields (server name, cipher list, ...) may legitimately still authenticate, so 'every flip is rejected' is deliberately not asserted. Keys and nonces are sampled.",
    "rule": "Flips: every bit of every byte of 4 base packets; distinct non-trivial = byte positions. Edits: rapid-drawn xor masks at <=8 positions, truncate/extend by 1..300, sealed-block swap between packets; non-trivial = the mutant still parses as a first packet. Window: offsets -185..185 s step 1 s and edge+-{0,1,500,999 ms} x server sub-second {0,1 ns,0.5 s,0.999999999 s}, both transports; non-trivial = within 2 s of an edge. Outcome/AdminGate: rapid-drawn tuples; distinct = distinct tuples.",
    "assumptions": ["tlsref.go parses ClientHellos correctly", "AES-GCM and X25519 are correct"],
    "jobs": [
        {"pkg": SERVER, "run": "^TestVerif_C07_Flips$", "timeout": {"quick": 600}},
        {"pkg": SERVER, "run": "^TestVerif_C07_Forged$"},
        {"pkg": SERVER, "run": "^TestVerif_C07_ConfigUIDs$", "checks": {"quick": 60, "thorough": 3000}, "shards": {"thorough": 4}},
        {"pkg": SERVER, "run": "^TestVerif_C07_Edits$", "checks": {"quick": 3000, "thorough": 400000}, "shards": {"thorough": 16}},
        {"pkg": SERVER, "run": "^TestVerif_C07_Window$", "timeout": {"quick": 600}},
        {"pkg": SERVER, "run": "^TestVerif_C07_Outcome$", "checks": {"quick": 500, "thorough": 30000}, "shards": {"thorough": 16}, "timeout": {"quick": 600}},
        {"pkg": SERVER, "run": "^TestVerif_C07_AdminGate$", "checks": {"quick": 60, "thorough": 3000}, "shards": {"thorough": 8}, "timeout": {"quick": 600}},
    ],
}

CHECKS["C09"] = {
    "level": "exploration",
    "technique": "rapid-generated hostile peers (random bytes with every first byte, TLS records of any declared length, mutated/truncated/replayed/wrong-key Cloak hellos, HTTP requests with bogus hidden headers and over-long lines) with generated segmentation, stalls past the 15 s deadline, early closes and redirect-target scripts, against dispatchConnection in a synctest bubble; oracle = reference relay built on an independent first-packet-boundary function; native go fuzzing of the first-packet path in the thorough tier",
    "level_text": "For every generated peer the redirect target must receive a byte-exact prefix of the peer's stream - all of it once the first packet is complete (by the independent boundary rule) and the target stays open - the peer must receive exactly the target's bytes and never a byte the target did not send, a peer that never completes its first packet within the deadline must reach the target with nothing and be closed, and afterwards a fresh valid client must still complete a handshake on the same server state (no crash, no wedge, no leaked blocked goroutine).",
    "level_note": "Redirect-dial failures are outside the property's domain and are not generated. Delays avoid the exact 15 s instant.",
    "rule": "rapid draws class, content, <=5 cuts with delays from {0,1,200,3000,14000,16000 ms}, peer close time, <=4 reply chunks and the target's close time; non-trivial = the stream starts with 0x16 or 'G' and completes a first packet in time (it reaches a parser); distinct = distinct scenarios.",
    "assumptions": ["kit/tlsref.go FirstPacketEnd states the intended first-packet boundary (TLS record or HTTP head in a 3000-byte buffer)"],
    "jobs": [
        {"pkg": SERVER, "run": "^TestVerif_C09_Redirect$", "checks": {"quick": 1200, "thorough": 150000}, "shards": {"thorough": 16}, "timeout": {"quick": 600}},
        {"pkg": SERVER, "run": "^$", "tiers": ["thorough"], "fuzz": {"target": "^FuzzVerifFirstPacket$", "seconds": {"quick": 0, "thorough": 180}}},
    ],
}

CHECKS["C15"] = {
    "level": "exploration",
    "technique": "rapid-generated histories of steps in which up to 24 real client handshakes for 1..4 (UID, session id) pairs are released simultaneously against dispatchConnection (synctest bubble), interleaved with session closures and credit/expiry/cap edits through the admin API (bolt-backed manager) or an in-memory manager; reference model of live sessions and caps",
    "level_text": "After every step the keys handed to the clients are compared per (UID, session id) pair and with the server's session objects, the number of sessions of each limited user is compared with its cap, distinct pairs must map to distinct session objects, new sessions of exhausted/expired users must be refused and every connection of a pair that got a session must have joined it; a Go runtime fault (concurrent map access) in Cloak code is a violation. 40 % of the scenarios start with the shape 'user has a live session, its cap/credit/expiry is edited through the admin API (values incl. -1, -2^62, -2^63), it asks for another session'; half of all scenarios run on the real bolt user manager and admin API router.",
    "level_note": "Simultaneous handshakes run as parallel goroutines inside one quiescence step (their interleaving is the Go runtime's); closing a user's last session concurrently with admissions is C17's subject and is not generated here.",
    "rule": "rapid draws 1..3 users (bypass or limited with cap 0..3, bolt or in-memory manager) and <=8 steps: connect (1..24 attempts over 1..4 pairs), close (not the last session), edit (cap/credit/expiry); non-trivial = >=2 handshakes for the same pair in one step, or new sessions requested beyond the cap; distinct = distinct scenarios.",
    "assumptions": ["virtual time does not advance between steps (no inactivity closures)"],
    "jobs": [
        {"pkg": SERVER, "run": "^TestVerif_C15_Sessions$", "checks": {"quick": 600, "thorough": 60000}, "shards": {"thorough": 16}, "timeout": {"quick": 600}},
    ],
}

CHECKS["C17"] = {
    "level": "exploration",
    "technique": "schedule exploration through labelled schedule points (build tag verif): rapid-generated sets of bookkeeping operations overlapped at usage.firstLockHeld and rapid-generated connect/drop/upload/exhaust histories with a connection parked at dispatch.userResolved (synctest bubble); plus generated high-contention workloads without hooks; deadlock verdict from a stable goroutine dump (all operation goroutines parked in mutex acquisition), reachability oracle for live sessions",
    "level_text": "Overlaps of the usage-collection step with commits, other collections, admissions and terminations are forced at the point between its two lock acquisitions, and plain contention of 2..12 goroutines running the periodic upload is added; every operation must complete. Histories of real handshakes in which a connection is parked between resolving its user and creating its session while that user's last session closes (or the user is exhausted) are generated; at every quiescent step each client that still holds a live connection must find its session under the user's single active record, and a user without a record has no live session. A fourth sub-check issues the bookkeeping calls themselves (admission, a session's end reported late by its serving goroutine, termination of a record resolved earlier, upload rounds, exhaustion) in generated orders, including on records that have meanwhile been replaced, with the same ownership invariant after every call.",
    "level_note": "Wall-clock time is used only as patience: a deadlock is declared when no operation finished and the progress counter stood still for 10 s AND two goroutine dumps one second apart show the same operation goroutines parked in mutex acquisition; a run that is slow but moving is waited for (10 min, then exit 2), never reported as a violation. Interleavings other than those through the two labelled points are sampled by contention only.",
    "rule": "LockOrder: 1..4 other operations from {commit, collect, getuser, isactive, terminate} while a collection is parked; Contention: 2..12 goroutines x 200..3000 iterations; Orphan: 2..14 ops from {connect (optionally held), release, drop, upload, exhaust, topup} over 1..2 users; non-trivial (Orphan) = a held dispatch resumed after its user had been terminated; distinct = distinct scenarios.",
    "assumptions": ["no progress for 10 s together with the same >=2 operation goroutines parked in sync.(*Mutex/RWMutex).Lock in two dumps one second apart is a lock cycle"],
    "jobs": [
        {"pkg": SERVER, "run": "^TestVerif_C17_LockOrder$", "realtime": True, "checks": {"quick": 40, "thorough": 2000}, "shards": {"thorough": 8}, "timeout": {"quick": 900}},
        {"pkg": SERVER, "run": "^TestVerif_C17_Contention$", "realtime": True, "checks": {"quick": 12, "thorough": 600}, "shards": {"thorough": 2}, "timeout": {"quick": 900}},
        {"pkg": SERVER, "run": "^TestVerif_C17_Orphan$", "checks": {"quick": 600, "thorough": 60000}, "shards": {"thorough": 16}, "timeout": {"quick": 900}},
        {"pkg": SERVER, "run": "^TestVerif_C17_Records$", "checks": {"quick": 2000, "thorough": 200000}, "shards": {"thorough": 8}, "timeout": {"quick": 900}},
    ],
}

CHECKS["C16"] = {
    "level": "exploration",
    "technique": "rapid-generated histories (sessions of several limited users, traffic with generated echo ratios, usage collection/commit separately, together and two rounds at once, session closures incl. the last, top-ups, exhaustion, expiry, deletion through the admin API on a bolt-backed or in-memory manager) on real client sessions against dispatchConnection in a synctest bubble; oracle = stored credit vs. bytes counted by the network tap",
    "level_text": "The tap on every client<->server connection gives, per user and direction, the exact number of application-data bytes carried after the handshake. At every quiescent step the credit deducted so far must not exceed that volume (never charged twice, never for another user or direction) and must not be negative; after a completed usage upload with traffic stopped and the user continuously active it must equal it in both directions, also after a second upload; users whose credit is <= 0, who expired or were deleted must have all sessions closed after the upload. Sessions are closed by the client, by the server (proxy target unreachable) and by terminations; exactness is not demanded across a termination of the user (the statement limits it to users that stay active). A real-time sub-check counts usage from 1-8 goroutines (AddRx/AddTx as the connection goroutines do) while 1-3 upload loops run back to back, then requires exact equality after a final upload.",
    "level_note": "Absolute credit writes (top-up, exhaustion) are applied right after a flush of pending usage so that the additive bookkeeping formula is well defined; schedules inside a step are the Go runtime's.",
    "rule": "rapid draws 1..3 users, bolt or in-memory manager, 3..20 ops; traffic 1..70001 bytes with echo fraction 0, 30/255, 128/255 or 1; non-trivial = a collection and a commit (two upload rounds) overlapped in one step; distinct = distinct scenarios.",
    "assumptions": ["the tap sees every byte written to the client<->server connections"],
    "jobs": [
        {"pkg": SERVER, "run": "^TestVerif_C16_Usage$", "checks": {"quick": 400, "thorough": 40000}, "shards": {"thorough": 16}, "timeout": {"quick": 900}},
        {"pkg": SERVER, "run": "^TestVerif_C16_Concurrent$", "realtime": True, "checks": {"quick": 60, "thorough": 5000}, "shards": {"thorough": 4}},
    ],
}
