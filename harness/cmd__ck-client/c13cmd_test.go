package main

import (
	"crypto/rand"
	"encoding/base64"
	"encoding/json"
	"flag"
	"fmt"
	"io"
	"net"
	"os"
	"path/filepath"
	"runtime"
	"strconv"
	"strings"
	"sync"
	"sync/atomic"
	"testing"
	"time"

	"github.com/cbeuw/Cloak/internal/common"
	"github.com/cbeuw/Cloak/internal/ecdh"
	"github.com/cbeuw/Cloak/internal/server"
	vk "github.com/cbeuw/Cloak/internal/verifkit"
	log "github.com/sirupsen/logrus"
	"pgregory.net/rapid"
)

// C13 (5) Program: the "Consequently" clause of C13 for the program a user actually runs. ck-client's main() is
// started in-process with a generated configuration file and talks over loopback TCP to the real server code
// (server.InitState + server.Serve, as ck-server's main() does); a generated set of proxied connections is pushed
// through it, overlapping in time. Everything the client sends is tapped where the server reads it and decoded with the
// independent codec under the session keys the server drew (its random source is recorded). Under one session key no
// two messages of the client may carry the same (stream id, sequence number) pair - whichever of the client's
// sessions, connections and streams they belong to.
//
// Real sockets and the real clock: the oracle is a safety statement about the bytes captured, time is only used to
// decide when to stop capturing (a run that stalls is evaluated on what was captured, never reported for being slow).

type c13Conn struct {
	StartMs int   // when the proxied connection is made
	Chunks  []int // what the proxy client writes, with 1 ms between chunks
}

type c13Prog struct {
	NumConn int    // ckclient.json NumConn: 0 = one session per proxied connection
	Enc     string // EncryptionMethod (authenticated ones: the key of a message is identified by its tag)
	Browser string
	Conns   []c13Conn
	// UDP: ckclient.json "UDP": true, the proxy method is served over UDP: every proxied "connection" is a UDP socket
	// of its own sending its chunks as datagrams (client.RouteUDP, unordered sessions)
	UDP bool `json:",omitempty"`
	// ServerName / AlternativeNames of the configuration (default www.bing.com, none)
	ServerName string   `json:",omitempty"`
	AltNames   []string `json:",omitempty"`
}

// c13Capture is what a run leaves behind: the client's bytes as the server read them, per connection, and every
// 32-byte value the server drew from its random source.
type c13Capture struct {
	conns    [][]byte
	keys     [][32]byte
	received int64
	total    int64
}

type c13TapConn struct {
	net.Conn
	mu sync.Mutex
	in []byte
}

func (c *c13TapConn) Read(p []byte) (int, error) {
	n, err := c.Conn.Read(p)
	if n > 0 {
		c.mu.Lock()
		c.in = append(c.in, p[:n]...)
		c.mu.Unlock()
	}
	return n, err
}

type c13TapListener struct {
	net.Listener
	mu    sync.Mutex
	conns []*c13TapConn
}

func (l *c13TapListener) Accept() (net.Conn, error) {
	c, err := l.Listener.Accept()
	if err != nil {
		return nil, err
	}
	tc := &c13TapConn{Conn: c}
	l.mu.Lock()
	l.conns = append(l.conns, tc)
	l.mu.Unlock()
	return tc, nil
}

// c13Rand is the server's random source: crypto/rand, with every 32-byte draw remembered (session keys are 32-byte draws)
type c13Rand struct {
	mu   sync.Mutex
	keys [][32]byte
}

func (r *c13Rand) Read(p []byte) (int, error) {
	n, err := rand.Read(p)
	if len(p) == 32 && err == nil {
		var k [32]byte
		copy(k[:], p)
		r.mu.Lock()
		r.keys = append(r.keys, k)
		r.mu.Unlock()
	}
	return n, err
}

var c13MainMu sync.Mutex

func c13FreePort() (string, error) {
	l, err := net.Listen("tcp", "127.0.0.1:0")
	if err != nil {
		return "", err
	}
	defer l.Close()
	_, p, _ := net.SplitHostPort(l.Addr().String())
	return p, nil
}

func c13Run(sc c13Prog) (vk.Result, error) {
	res := vk.Result{}
	capt, err := c13Exec(sc)
	if err != nil {
		return res, err
	}
	return c13Oracle(sc, capt)
}

// c13Exec runs the scenario and returns what was captured.
func c13Exec(sc c13Prog) (*c13Capture, error) {
	var res vk.Result
	_ = res
	dir, err := os.MkdirTemp("", "c13prog")
	if err != nil {
		return nil, fmt.Errorf("harness: %v", err)
	}
	defer os.RemoveAll(dir)

	// proxy backend: swallows everything, counts bytes
	var received atomic.Int64
	var backendAddr, backendNet string
	if sc.UDP {
		ub, err := net.ListenUDP("udp", &net.UDPAddr{IP: net.IPv4(127, 0, 0, 1)})
		if err != nil {
			return nil, fmt.Errorf("harness: %v", err)
		}
		defer ub.Close()
		backendAddr, backendNet = ub.LocalAddr().String(), "udp"
		go func() {
			buf := make([]byte, 65536)
			for {
				n, _, err := ub.ReadFrom(buf)
				if err != nil {
					return
				}
				received.Add(int64(n))
			}
		}()
	}
	backend, err := net.Listen("tcp", "127.0.0.1:0")
	if err != nil {
		return nil, fmt.Errorf("harness: %v", err)
	}
	defer backend.Close()
	if !sc.UDP {
		backendAddr, backendNet = backend.Addr().String(), "tcp"
	}
	go func() {
		for {
			c, err := backend.Accept()
			if err != nil {
				return
			}
			go func() {
				buf := make([]byte, 32768)
				for {
					n, err := c.Read(buf)
					received.Add(int64(n))
					if err != nil {
						c.Close()
						return
					}
				}
			}()
		}
	}()

	// the server, as ck-server sets it up
	pv, pub, _ := ecdh.GenerateKey(rand.Reader)
	uid := make([]byte, 16)
	rand.Read(uid)
	rnd := &c13Rand{}
	sta, err := server.InitState(server.RawConfig{
		ProxyBook:  map[string][]string{"shadowsocks": {backendNet, backendAddr}},
		BypassUID:  [][]byte{uid},
		RedirAddr:  "127.0.0.1:1",
		PrivateKey: pv.(*[32]byte)[:],
	}, common.WorldState{Rand: rnd, Now: time.Now})
	if err != nil {
		return nil, fmt.Errorf("harness: server.InitState: %v", err)
	}
	sl, err := net.Listen("tcp", "127.0.0.1:0")
	if err != nil {
		return nil, fmt.Errorf("harness: %v", err)
	}
	tap := &c13TapListener{Listener: sl}
	go server.Serve(tap, sta)
	defer sl.Close()
	_, serverPort, _ := net.SplitHostPort(sl.Addr().String())

	// ck-client's main(). The local port is chosen by the harness and may be taken by another process before main()
	// binds it (main() then ends with log.Fatal, which the harness turns into the end of that goroutine): try again
	var localPort string
	var probe net.Conn
	for attempt := 0; ; attempt++ {
		if attempt == 8 {
			return nil, fmt.Errorf("harness: ck-client could not bind a local port in 8 attempts")
		}
		localPort, err = c13FreePort()
		if err != nil {
			return nil, fmt.Errorf("harness: %v", err)
		}
		var ok bool
		ok, probe, err = c13StartMain(sc, dir, uid, ecdh.Marshal(pub), serverPort, localPort)
		if err != nil {
			return nil, err
		}
		if ok {
			break
		}
	}
	if probe != nil {
		probe.Close() // a proxied connection that never sends anything: no session is made for it
	}
	// the proxied connections
	var total int64
	var wg sync.WaitGroup
	var cmu sync.Mutex
	var conns []net.Conn
	for i, c := range sc.Conns {
		for _, n := range c.Chunks {
			total += int64(n)
		}
		wg.Add(1)
		go func(i int, c c13Conn) {
			defer wg.Done()
			time.Sleep(time.Duration(c.StartMs) * time.Millisecond)
			network := "tcp"
			if sc.UDP {
				network = "udp"
			}
			pc, err := net.Dial(network, "127.0.0.1:"+localPort)
			if err != nil {
				return
			}
			cmu.Lock()
			conns = append(conns, pc)
			cmu.Unlock()
			for k, n := range c.Chunks {
				b := make([]byte, n)
				for j := range b {
					b[j] = byte(i*31 + k*7 + j)
				}
				if _, err := pc.Write(b); err != nil {
					return
				}
				time.Sleep(time.Millisecond)
			}
		}(i, c)
	}
	wg.Wait()
	// capture until everything has arrived at the proxy backend or nothing has moved for a while
	last, lastChange := int64(-1), time.Now()
	for received.Load() < total && time.Since(lastChange) < 3*time.Second {
		if r := received.Load(); r != last {
			last, lastChange = r, time.Now()
		}
		time.Sleep(20 * time.Millisecond)
	}
	time.Sleep(50 * time.Millisecond)
	cmu.Lock()
	for _, pc := range conns {
		pc.Close()
	}
	cmu.Unlock()
	time.Sleep(100 * time.Millisecond)

	capt := &c13Capture{received: received.Load(), total: total}
	rnd.mu.Lock()
	capt.keys = append([][32]byte(nil), rnd.keys...)
	rnd.mu.Unlock()
	tap.mu.Lock()
	tconns := append([]*c13TapConn(nil), tap.conns...)
	tap.mu.Unlock()
	for _, tc := range tconns {
		tc.mu.Lock()
		capt.conns = append(capt.conns, append([]byte(nil), tc.in...))
		tc.mu.Unlock()
	}
	return capt, nil
}

// c13Oracle: what the client sent, decoded under the keys the server drew.
func c13Oracle(sc c13Prog, capt *c13Capture) (vk.Result, error) {
	res := vk.Result{}
	method := map[string]byte{"aes-256-gcm": 1, "chacha20-poly1305": 2, "aes-128-gcm": 3}[sc.Enc]
	keys := capt.keys
	var codecs []*vk.RefCodec
	for _, k := range keys {
		c, err := vk.NewRefCodec(method, k)
		if err != nil {
			return res, fmt.Errorf("harness: %v", err)
		}
		codecs = append(codecs, c)
	}
	type msgID struct {
		key int
		sid uint32
		seq uint64
	}
	seen := map[msgID]string{}
	frames, keysUsed, unknown := 0, map[int]bool{}, 0
	for ci, in := range capt.conns {
		recs, _ := vk.SplitTLSRecords(in)
		for ri, rec := range recs {
			if rec.Type != 0x17 {
				continue
			}
			ki := -1
			for i, c := range codecs {
				if c.Authentic(rec.Body) {
					ki = i
					break
				}
			}
			if ki < 0 {
				unknown++
				continue
			}
			f, err := codecs[ki].Decode(rec.Body)
			if err != nil {
				return res, fmt.Errorf("harness: authentic message does not decode: %v", err)
			}
			frames++
			keysUsed[ki] = true
			id := msgID{ki, f.StreamID, f.Seq}
			where := fmt.Sprintf("connection %d record %d (%d payload bytes, closing=%d)", ci, ri, len(f.Payload), f.Closing)
			if prev, dup := seen[id]; dup {
				return res, vk.ViolateSig("pair-reused-under-one-key", "ck-client sent two messages with stream id %d and sequence number %d under one session key (the cipher nonce is derived from that pair): %s and %s; configuration NumConn=%d, %d proxied connections", f.StreamID, f.Seq, prev, where, sc.NumConn, len(sc.Conns))
			}
			seen[id] = where
		}
	}
	if unknown > 0 {
		return res, fmt.Errorf("harness: %d application-data records of the client authenticate under none of the %d 32-byte values the server drew (inconclusive)", unknown, len(keys))
	}
	res.NonTrivial = frames >= 2 && len(sc.Conns) >= 2
	res.Labels = append(res.Labels, "numconn="+strconv.Itoa(sc.NumConn), "enc="+sc.Enc)
	if sc.UDP {
		res.Labels = append(res.Labels, "udp")
	}
	if len(keysUsed) >= 2 {
		res.Labels = append(res.Labels, "several-sessions-of-one-process")
	}
	if capt.received < capt.total {
		res.Labels = append(res.Labels, "not-everything-arrived-at-the-backend")
	}
	return res, nil
}

func TestVerif_C13_Program(t *testing.T) {
	vk.Run(t, "C13", "Program", func(rt *rapid.T) c13Prog {
		sc := c13Prog{
			NumConn: rapid.SampledFrom([]int{0, 0, 0, 1, 3}).Draw(rt, "numconn"),
			Enc:     rapid.SampledFrom([]string{"aes-256-gcm", "aes-128-gcm", "chacha20-poly1305"}).Draw(rt, "enc"),
			Browser: rapid.SampledFrom([]string{"chrome", "firefox", "safari"}).Draw(rt, "browser"),
		}
		n := rapid.IntRange(1, 5).Draw(rt, "nconns")
		for i := 0; i < n; i++ {
			c := c13Conn{StartMs: rapid.SampledFrom([]int{0, 0, 1, 5, 30}).Draw(rt, "start")}
			m := rapid.IntRange(1, 4).Draw(rt, "nchunks")
			for k := 0; k < m; k++ {
				c.Chunks = append(c.Chunks, rapid.SampledFrom([]int{1, 100, 3000, 16132, 40000}).Draw(rt, "chunk"))
			}
			sc.Conns = append(sc.Conns, c)
		}
		if rapid.IntRange(0, 3).Draw(rt, "udp") == 0 {
			sc.UDP = true
			for i := range sc.Conns {
				for k, n := range sc.Conns[i].Chunks {
					if n > 8000 {
						sc.Conns[i].Chunks[k] = 1400 + n%6000 // RouteUDP reads datagrams of up to 8192 bytes
					}
				}
			}
		}
		return sc
	}, c13Run)
}

// c13StartMain runs ck-client's main() with a configuration file for the scenario and waits until it listens on
// localPort. ok=false: main() ended with a fatal error (the port was taken in the meantime).
func c13StartMain(sc c13Prog, dir string, uid, pub []byte, serverPort, localPort string) (bool, net.Conn, error) {
	serverName := sc.ServerName
	if serverName == "" {
		serverName = "www.bing.com"
	}
	cfg := map[string]interface{}{
		"Transport": "direct", "ProxyMethod": "shadowsocks", "EncryptionMethod": sc.Enc,
		"UID": base64.StdEncoding.EncodeToString(uid), "PublicKey": base64.StdEncoding.EncodeToString(pub),
		"ServerName": serverName, "NumConn": sc.NumConn, "BrowserSig": sc.Browser, "StreamTimeout": 300, "UDP": sc.UDP,
	}
	if len(sc.AltNames) > 0 {
		cfg["AlternativeNames"] = sc.AltNames
	}
	cfgBytes, _ := json.Marshal(cfg)
	cfgPath := filepath.Join(dir, "ckclient.json")
	if err := os.WriteFile(cfgPath, cfgBytes, 0o600); err != nil {
		return false, nil, fmt.Errorf("harness: %v", err)
	}
	c13MainMu.Lock()
	os.Args = []string{"ck-client", "-c", cfgPath, "-s", "127.0.0.1", "-p", serverPort, "-i", "127.0.0.1", "-l", localPort, "-verbosity", "panic"}
	flag.CommandLine = flag.NewFlagSet(os.Args[0], flag.ExitOnError)
	var fatal atomic.Bool
	log.StandardLogger().ExitFunc = func(int) {
		fatal.Store(true)
		runtime.Goexit()
	}
	go main()
	// main() has read its arguments once it listens
	var probe net.Conn
	var err error
	for i := 0; i < 500 && !fatal.Load(); i++ {
		if sc.UDP {
			// listening once the port can no longer be bound
			lp, _ := strconv.Atoi(localPort)
			if u, berr := net.ListenUDP("udp", &net.UDPAddr{IP: net.IPv4(127, 0, 0, 1), Port: lp}); berr != nil {
				err = nil
				break
			} else {
				u.Close()
				err = fmt.Errorf("port still free")
			}
		} else {
			probe, err = net.Dial("tcp", "127.0.0.1:"+localPort)
			if err == nil {
				break
			}
		}
		time.Sleep(10 * time.Millisecond)
	}
	time.Sleep(30 * time.Millisecond) // a main() that lost the port to someone else has failed by now
	c13MainMu.Unlock()
	log.SetLevel(log.PanicLevel)
	log.SetOutput(io.Discard)
	if fatal.Load() {
		return false, nil, nil
	}
	if err != nil {
		return false, nil, fmt.Errorf("harness: ck-client does not listen on its local port: %v", err)
	}
	return true, probe, nil
}

// C20 Program: ServerName and AlternativeNames as ck-client applies them (README: "an array used alongside ServerName
// to shuffle between different ServerNames for every new connection"; "Use random to randomize the server name"):
// the server name in every ClientHello the program sends is one of the configured names - or, where the configured
// entry is the keyword random (any case), a generated host name, never the keyword itself.
func TestVerif_C20_ProgramNames(t *testing.T) {
	names := []string{"bing.com", "cloudflare.com", "github.com", "a.example.org", "random", "RANDOM", "Random", "randomised.example"}
	vk.Run(t, "C20", "ProgramNames", func(rt *rapid.T) c13Prog {
		sc := c13Prog{NumConn: rapid.SampledFrom([]int{0, 0, 0, 2}).Draw(rt, "numconn"), Enc: "aes-256-gcm",
			Browser:    rapid.SampledFrom([]string{"chrome", "firefox", "safari"}).Draw(rt, "browser"),
			ServerName: rapid.SampledFrom(names).Draw(rt, "servername")}
		n := rapid.IntRange(0, 4).Draw(rt, "nalt")
		for i := 0; i < n; i++ {
			sc.AltNames = append(sc.AltNames, rapid.SampledFrom(names).Draw(rt, "alt"))
		}
		m := rapid.IntRange(4, 10).Draw(rt, "nconns")
		for i := 0; i < m; i++ {
			sc.Conns = append(sc.Conns, c13Conn{StartMs: 2 * i, Chunks: []int{100}})
		}
		return sc
	}, func(sc c13Prog) (vk.Result, error) {
		res := vk.Result{}
		capt, err := c13Exec(sc)
		if err != nil {
			return res, err
		}
		fixed, keyword := map[string]bool{}, false
		for _, n := range append(append([]string{}, sc.AltNames...), sc.ServerName) {
			if strings.EqualFold(n, "random") {
				keyword = true
			} else {
				fixed[n] = true
			}
		}
		seen := map[string]int{}
		for ci, in := range capt.conns {
			recs, _ := vk.SplitTLSRecords(in)
			if len(recs) == 0 {
				continue
			}
			ch, err := vk.ParseClientHelloHandshake(recs[0].Body)
			if err != nil {
				return res, vk.Violatef("connection %d of ck-client does not start with a ClientHello: %v", ci, err)
			}
			if len(ch.SNI) != 1 {
				return res, vk.ViolateSig("program-servername", "connection %d: %d server names in the ClientHello (%q)", ci, len(ch.SNI), ch.SNI)
			}
			name := ch.SNI[0]
			seen[name]++
			switch {
			case fixed[name]:
			case strings.EqualFold(name, "random"):
				return res, vk.ViolateSig("program-servername", "connection %d: the ClientHello names the keyword %q itself; configured ServerName=%q AlternativeNames=%q", ci, name, sc.ServerName, sc.AltNames)
			case keyword && vk.ValidHostname(name):
			default:
				return res, vk.ViolateSig("program-servername", "connection %d: the ClientHello names %q, which is none of the configured names (ServerName=%q AlternativeNames=%q)", ci, name, sc.ServerName, sc.AltNames)
			}
		}
		res.NonTrivial = len(seen) >= 2
		if keyword {
			res.Labels = append(res.Labels, "keyword-random-among-the-names")
		}
		if len(sc.AltNames) > 0 {
			res.Labels = append(res.Labels, "alternative-names")
		}
		return res, nil
	})
}

// C10 Program: the client half of C10 for the program itself: on every connection ck-client makes in direct mode the
// first flight is one handshake record with a structurally valid ClientHello - one server name that is a configured
// one or (for the keyword random) a generated valid host name, a 32-byte session id, an X25519 key share - and every
// later byte belongs to an application-data record of version 3.3 and length 1..2^14+256.
func TestVerif_C10_Program(t *testing.T) {
	names := []string{"bing.com", "github.com", "a.example.org", "random", "RANDOM", "randomised.example"}
	vk.Run(t, "C10", "Program", func(rt *rapid.T) c13Prog {
		sc := c13Prog{NumConn: rapid.SampledFrom([]int{0, 0, 1, 3}).Draw(rt, "numconn"),
			Enc:        rapid.SampledFrom([]string{"plain", "aes-256-gcm", "aes-128-gcm", "chacha20-poly1305"}).Draw(rt, "enc"),
			Browser:    rapid.SampledFrom([]string{"chrome", "firefox", "safari"}).Draw(rt, "browser"),
			ServerName: rapid.SampledFrom(names).Draw(rt, "servername")}
		n := rapid.IntRange(0, 3).Draw(rt, "nalt")
		for i := 0; i < n; i++ {
			sc.AltNames = append(sc.AltNames, rapid.SampledFrom(names).Draw(rt, "alt"))
		}
		m := rapid.IntRange(2, 6).Draw(rt, "nconns")
		for i := 0; i < m; i++ {
			c := c13Conn{StartMs: 2 * i}
			k := rapid.IntRange(1, 3).Draw(rt, "nchunks")
			for j := 0; j < k; j++ {
				c.Chunks = append(c.Chunks, rapid.SampledFrom([]int{1, 100, 3000, 16132, 40000}).Draw(rt, "chunk"))
			}
			sc.Conns = append(sc.Conns, c)
		}
		return sc
	}, func(sc c13Prog) (vk.Result, error) {
		res := vk.Result{}
		capt, err := c13Exec(sc)
		if err != nil {
			return res, err
		}
		fixed, keyword := map[string]bool{}, false
		for _, n := range append(append([]string{}, sc.AltNames...), sc.ServerName) {
			if strings.EqualFold(n, "random") {
				keyword = true
			} else {
				fixed[n] = true
			}
		}
		nrec := 0
		for ci, in := range capt.conns {
			if len(in) == 0 {
				continue
			}
			recs, rest := vk.SplitTLSRecords(in)
			if len(recs) == 0 {
				return res, vk.ViolateSig("program-wire", "connection %d: %d bytes from ck-client that are not a TLS record", ci, len(in))
			}
			if recs[0].Type != 0x16 {
				return res, vk.ViolateSig("program-wire", "connection %d: the first record has type %d, want a handshake record", ci, recs[0].Type)
			}
			ch, err := vk.ParseClientHelloHandshake(recs[0].Body)
			if err != nil {
				return res, vk.ViolateSig("program-wire", "connection %d: the first record is not exactly one valid ClientHello: %v", ci, err)
			}
			if len(ch.SessionID) != 32 || len(ch.KeyShares[29]) != 32 {
				return res, vk.ViolateSig("program-wire", "connection %d: session id of %d bytes, X25519 key share of %d bytes", ci, len(ch.SessionID), len(ch.KeyShares[29]))
			}
			if len(ch.SNI) != 1 {
				return res, vk.ViolateSig("program-wire", "connection %d: %d server names in the ClientHello", ci, len(ch.SNI))
			}
			name := ch.SNI[0]
			if !fixed[name] && !(keyword && vk.ValidHostname(name) && !strings.EqualFold(name, "random")) {
				return res, vk.ViolateSig("program-wire", "connection %d: the ClientHello's server name %q is neither a configured name nor a generated host name (ServerName=%q AlternativeNames=%q)", ci, name, sc.ServerName, sc.AltNames)
			}
			for ri, rec := range recs[1:] {
				nrec++
				if rec.Type != 0x17 || rec.Version != 0x0303 || len(rec.Body) == 0 || len(rec.Body) > 16384+256 {
					return res, vk.ViolateSig("program-wire", "connection %d: record %d after the ClientHello has type %d version %04x length %d; want application data (23), 0303, 1..16640", ci, ri+1, rec.Type, rec.Version, len(rec.Body))
				}
			}
			if len(rest) > 5 {
				// an incomplete record at the moment of capture is fine; a header that can never be one is not
				if rest[0] != 0x17 || rest[1] != 3 || rest[2] != 3 {
					return res, vk.ViolateSig("program-wire", "connection %d: bytes after the last complete record do not start an application-data record: % x", ci, rest[:5])
				}
			}
		}
		res.NonTrivial = nrec >= 2
		res.Labels = append(res.Labels, "enc="+sc.Enc)
		if keyword {
			res.Labels = append(res.Labels, "keyword-random-among-the-names")
		}
		return res, nil
	})
}
