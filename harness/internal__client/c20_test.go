package client

import (
	"bufio"
	"crypto/ecdsa"
	"crypto/elliptic"
	crand "crypto/rand"
	"crypto/tls"
	"crypto/x509"
	"crypto/x509/pkix"
	"encoding/base64"
	"encoding/json"
	"fmt"
	"io"
	"math/big"
	"net"
	"net/http"
	"os"
	"path/filepath"
	"reflect"
	"sort"
	"strings"
	"sync"
	"testing"
	"time"

	"github.com/cbeuw/Cloak/internal/common"
	mux "github.com/cbeuw/Cloak/internal/multiplex"
	vk "github.com/cbeuw/Cloak/internal/verifkit"
	log "github.com/sirupsen/logrus"
	"pgregory.net/rapid"
)

func init() {
	log.SetOutput(io.Discard)
	log.SetLevel(log.PanicLevel)
}

// C20 - client configuration is honoured as documented (README.md), in both input syntaxes.

type c20Opt struct {
	Present bool
	Value   string
}

// c20Case lists each option as (present, textual value); numbers and booleans are kept as text so that the same
// case renders to JSON and to the key=value; syntax.
type c20Case struct {
	ServerName       c20Opt
	ProxyMethod      c20Opt
	EncryptionMethod c20Opt
	UID              c20Opt // base64
	PublicKey        c20Opt // base64
	NumConn          c20Opt
	LocalHost        c20Opt
	LocalPort        c20Opt
	RemoteHost       c20Opt
	RemotePort       c20Opt
	AlternativeNames []string
	AltPresent       bool
	UDP              c20Opt
	BrowserSig       c20Opt
	Transport        c20Opt
	CDNOriginHost    c20Opt
	CDNWsUrlPath     c20Opt
	StreamTimeout    c20Opt
	KeepAlive        c20Opt
	EscapeEquals     bool // render '=' inside values as '\=' in the option string (what plugin hosts do)
	TrailingSemi     bool
}

var c20StrKeys = []string{"ServerName", "ProxyMethod", "EncryptionMethod", "UID", "PublicKey", "LocalHost", "LocalPort", "RemoteHost", "RemotePort", "BrowserSig", "Transport", "CDNOriginHost", "CDNWsUrlPath"}
var c20NumKeys = []string{"NumConn", "StreamTimeout", "KeepAlive", "UDP"}

func (c *c20Case) opt(name string) c20Opt {
	return reflect.ValueOf(c).Elem().FieldByName(name).Interface().(c20Opt)
}

func (c *c20Case) json() []byte {
	m := map[string]interface{}{}
	for _, k := range c20StrKeys {
		if o := c.opt(k); o.Present {
			m[k] = o.Value
		}
	}
	for _, k := range c20NumKeys {
		if o := c.opt(k); o.Present {
			m[k] = json.RawMessage(o.Value)
		}
	}
	if c.AltPresent {
		m["AlternativeNames"] = c.AlternativeNames
	}
	b, _ := json.Marshal(m)
	return b
}

func (c *c20Case) ssv() string {
	var parts []string
	esc := func(v string) string {
		if c.EscapeEquals {
			return strings.ReplaceAll(v, "=", `\=`)
		}
		return v
	}
	for _, k := range append(append([]string{}, c20StrKeys...), c20NumKeys...) {
		if o := c.opt(k); o.Present {
			parts = append(parts, k+"="+esc(o.Value))
		}
	}
	if c.AltPresent {
		parts = append(parts, "AlternativeNames="+strings.Join(c.AlternativeNames, ","))
	}
	s := strings.Join(parts, ";")
	if c.TrailingSemi || len(parts) < 2 {
		s += ";"
	}
	return s
}

func atoi(s string) int {
	var n int
	fmt.Sscanf(s, "%d", &n)
	return n
}

// c20Expect is the README table: what the documented options mean.
type c20Expect struct {
	Err        bool
	Singleplex bool
	NumConn    int
	KeepAlive  time.Duration // <0 means "disabled"
	Timeout    time.Duration
	Mode       string // direct | cdn
	Browser    browser
	WsURL      string
	WsHost     string // Host header of the upgrade request
	WsPath     string // request target of the upgrade request, exactly as configured
	Names      []string
	Enc        byte
	Unordered  bool
	Remote     string
	Local      string
}

func c20Table(c *c20Case) c20Expect {
	var e c20Expect
	val := func(o c20Opt) string {
		if o.Present {
			return o.Value
		}
		return ""
	}
	// mandatory options
	for _, k := range []string{"ServerName", "ProxyMethod", "UID", "PublicKey", "RemoteHost", "RemotePort", "LocalHost", "LocalPort"} {
		if val(c.opt(k)) == "" {
			e.Err = true
		}
	}
	if pk, err := base64.StdEncoding.DecodeString(val(c.PublicKey)); err != nil || len(pk) != 32 {
		e.Err = true
	}
	switch strings.ToLower(val(c.EncryptionMethod)) {
	case "plain":
		e.Enc = mux.EncryptionMethodPlain
	case "aes-gcm", "aes-256-gcm":
		e.Enc = mux.EncryptionMethodAES256GCM
	case "aes-128-gcm":
		e.Enc = mux.EncryptionMethodAES128GCM
	case "chacha20-poly1305":
		e.Enc = mux.EncryptionMethodChaha20Poly1305
	default:
		e.Err = true
	}
	n := atoi(val(c.NumConn))
	if n <= 0 {
		e.Singleplex, e.NumConn = true, 1
	} else {
		e.NumConn = n
	}
	if k := atoi(val(c.KeepAlive)); k > 0 {
		e.KeepAlive = time.Duration(k) * time.Second
	} else {
		e.KeepAlive = -1
	}
	if st := atoi(val(c.StreamTimeout)); st == 0 {
		e.Timeout = 300 * time.Second
	} else {
		e.Timeout = time.Duration(st) * time.Second
	}
	e.Mode = "direct"
	if strings.EqualFold(val(c.Transport), "cdn") {
		e.Mode = "cdn"
		host := val(c.CDNOriginHost)
		if host == "" {
			host = val(c.RemoteHost)
		}
		path := val(c.CDNWsUrlPath)
		if path == "" {
			path = "/"
		}
		e.WsURL = "ws://" + net.JoinHostPort(host, val(c.RemotePort)) + path
		e.WsHost = net.JoinHostPort(host, val(c.RemotePort))
		e.WsPath = path
	}
	switch strings.ToLower(val(c.BrowserSig)) {
	case "firefox":
		e.Browser = firefox
	case "safari":
		e.Browser = safari
	default:
		e.Browser = chrome
	}
	if c.AltPresent {
		for _, a := range c.AlternativeNames {
			if a != "" {
				e.Names = append(e.Names, a)
			}
		}
	}
	e.Names = append(e.Names, val(c.ServerName))
	e.Unordered = val(c.UDP) == "true"
	e.Remote = net.JoinHostPort(val(c.RemoteHost), val(c.RemotePort))
	e.Local = net.JoinHostPort(val(c.LocalHost), val(c.LocalPort))
	return e
}

var c20Dir string

func c20Run(c c20Case) (vk.Result, error) {
	res := vk.Result{NonTrivial: true}
	if c20Dir == "" {
		c20Dir, _ = os.MkdirTemp(".", "c20cfg")
	}
	path := filepath.Join(c20Dir, "cfg.json")
	if err := os.WriteFile(path, c.json(), 0o644); err != nil {
		return res, fmt.Errorf("harness: %v", err)
	}
	rawJ, errJ := ParseConfig(path)
	if errJ != nil {
		return res, vk.Violatef("a well-formed JSON configuration was rejected by ParseConfig: %v", errJ)
	}
	ssv := c.ssv()
	rawS, errS := ParseConfig(ssv)
	if errS != nil {
		return res, vk.Violatef("the option string %q is rejected (%v) although the same configuration as JSON is accepted", ssv, errS)
	}
	mask := 0
	for i, k := range append(append([]string{}, c20StrKeys...), c20NumKeys...) {
		if c.opt(k).Present {
			mask |= 1 << i
		}
	}
	if c.AltPresent {
		mask |= 1 << 20
	}
	res.Key = fmt.Sprintf("%x/%v", mask, c.EscapeEquals)
	// (i) both syntaxes give the same raw configuration
	normalise := func(r *RawConfig) RawConfig {
		x := *r
		if len(x.AlternativeNames) == 0 {
			x.AlternativeNames = nil
		}
		if len(x.UID) == 0 {
			x.UID = nil
		}
		if len(x.PublicKey) == 0 {
			x.PublicKey = nil
		}
		return x
	}
	nj, ns := normalise(rawJ), normalise(rawS)
	// an alternative-name list consisting of one empty string is what "AlternativeNames=" yields; compare filtered
	filt := func(l []string) []string {
		var o []string
		for _, a := range l {
			if a != "" {
				o = append(o, a)
			}
		}
		return o
	}
	aj, as := filt(nj.AlternativeNames), filt(ns.AlternativeNames)
	nj.AlternativeNames, ns.AlternativeNames = nil, nil
	if !reflect.DeepEqual(nj, ns) || !reflect.DeepEqual(aj, as) {
		return res, vk.ViolateSig("syntax-mismatch", "key=value; syntax and JSON syntax give different configurations:\n option string %q -> %+v %v\n JSON %s -> %+v %v", ssv, ns, as, c.json(), nj, aj)
	}
	// (ii) processing follows the README
	want := c20Table(&c)
	for which, raw := range map[string]*RawConfig{"json": rawJ, "option-string": rawS} {
		local, remote, auth, err := raw.ProcessRawConfig(common.RealWorldState)
		if want.Err {
			if err == nil {
				return res, vk.ViolateSig("invalid-accepted", "[%s] an invalid/incomplete configuration was accepted: %s", which, c.json())
			}
			res.Labels = append(res.Labels, "invalid-config")
			continue
		}
		if err != nil {
			return res, vk.Violatef("[%s] a valid configuration was rejected: %v (%s)", which, err, c.json())
		}
		if remote.Singleplex != want.Singleplex || remote.NumConn != want.NumConn {
			return res, vk.ViolateSig("numconn", "[%s] NumConn=%q: got Singleplex=%v NumConn=%d, documented Singleplex=%v NumConn=%d", which, c.NumConn.Value, remote.Singleplex, remote.NumConn, want.Singleplex, want.NumConn)
		}
		if want.KeepAlive > 0 && remote.KeepAlive != want.KeepAlive {
			return res, vk.ViolateSig("keepalive", "[%s] KeepAlive=%s seconds configured, keep-alive period handed to the dialer is %v (documented: %v)", which, c.KeepAlive.Value, remote.KeepAlive, want.KeepAlive)
		}
		if want.KeepAlive < 0 && remote.KeepAlive >= 0 {
			return res, vk.ViolateSig("keepalive", "[%s] KeepAlive=%q must disable keep-alive (negative period for net.Dialer), got %v", which, c.KeepAlive.Value, remote.KeepAlive)
		}
		if local.Timeout != want.Timeout {
			return res, vk.ViolateSig("streamtimeout", "[%s] StreamTimeout=%q: got %v, documented %v", which, c.StreamTimeout.Value, local.Timeout, want.Timeout)
		}
		tr := remote.Transport.CreateTransport()
		switch want.Mode {
		case "cdn":
			ws, ok := tr.(*WSOverTLS)
			if !ok {
				return res, vk.ViolateSig("transport", "[%s] Transport=%q selects %T, documented: CDN (WebSocket) transport", which, c.Transport.Value, tr)
			}
			// observed on the wire, not in the transport's fields: the upgrade request the CDN front receives
			gotURI, gotHost, cerr := c20CaptureUpgrade(ws, auth)
			if cerr != nil {
				return res, vk.ViolateSig("cdnurl", "[%s] CDN transport with url %q: no upgrade request reached the CDN front: %v", which, want.WsURL, cerr)
			}
			if gotHost != want.WsHost || gotURI != want.WsPath {
				return res, vk.ViolateSig("cdnurl", "[%s] the upgrade request asks for %q at host %q; configured CDNWsUrlPath / CDNOriginHost (or RemoteHost) give %q at %q", which, gotURI, gotHost, want.WsPath, want.WsHost)
			}
			res.Labels = append(res.Labels, "cdn")
		default:
			d, ok := tr.(*DirectTLS)
			if !ok {
				return res, vk.ViolateSig("transport", "[%s] Transport=%q selects %T, documented: direct transport", which, c.Transport.Value, tr)
			}
			known := map[string]bool{"": true, "chrome": true, "firefox": true, "safari": true}
			if known[strings.ToLower(c.BrowserSig.Value)] || !c.BrowserSig.Present {
				if d.browser != want.Browser {
					return res, vk.ViolateSig("browser", "[%s] BrowserSig=%q selects browser %d, documented %d", which, c.BrowserSig.Value, d.browser, want.Browser)
				}
			}
		}
		got := append([]string(nil), local.MockDomainList...)
		exp := append([]string(nil), want.Names...)
		sort.Strings(got)
		sort.Strings(exp)
		if !reflect.DeepEqual(got, exp) {
			return res, vk.ViolateSig("altnames", "[%s] server names to shuffle between: %q, documented %q", which, got, exp)
		}
		if auth.EncryptionMethod != want.Enc {
			return res, vk.ViolateSig("encryption", "[%s] EncryptionMethod=%q maps to %d, documented %d", which, c.EncryptionMethod.Value, auth.EncryptionMethod, want.Enc)
		}
		if auth.Unordered != want.Unordered {
			return res, vk.Violatef("[%s] UDP=%q gives Unordered=%v", which, c.UDP.Value, auth.Unordered)
		}
		if remote.RemoteAddr != want.Remote || local.LocalAddr != want.Local {
			return res, vk.Violatef("[%s] addresses %q/%q, want %q/%q", which, remote.RemoteAddr, local.LocalAddr, want.Remote, want.Local)
		}
		uid, _ := base64.StdEncoding.DecodeString(c.UID.Value)
		if string(auth.UID) != string(uid) || auth.ProxyMethod != c.ProxyMethod.Value || auth.MockDomain != c.ServerName.Value {
			return res, vk.Violatef("[%s] identity fields not carried over", which)
		}
	}
	if c.EscapeEquals {
		res.Labels = append(res.Labels, "escaped-equals")
	}
	return res, nil
}

func c20Gen(rt *rapid.T) c20Case {
	var c c20Case
	b64 := func(n int, label string) string {
		return base64.StdEncoding.EncodeToString(rapid.SliceOfN(rapid.Byte(), n, n).Draw(rt, label))
	}
	// most options present most of the time so that valid configurations dominate
	pres := func(label string, pct int) bool { return rapid.IntRange(0, 99).Draw(rt, label) < pct }
	host := rapid.SampledFrom([]string{"www.bing.com", "example.org", "a.b-c.co.uk", "random", "1.2.3.4", "::1", "cdn.example.net"})
	c.ServerName = c20Opt{pres("pSN", 98), host.Draw(rt, "sn")}
	c.ProxyMethod = c20Opt{pres("pPM", 98), rapid.SampledFrom([]string{"shadowsocks", "openvpn", "tor", "x_y-9"}).Draw(rt, "pm")}
	c.EncryptionMethod = c20Opt{pres("pEM", 98), rapid.SampledFrom([]string{"plain", "aes-gcm", "aes-256-gcm", "aes-128-gcm", "chacha20-poly1305", "AES-GCM", "Plain", "ChaCha20-Poly1305", "AES-128-GCM", "aes-gcm", "plain", "chacha20-poly1305", "aes-128-gcm", "aes-256-gcm", "AES-256-GCM", "rc4", ""}).Draw(rt, "em")}
	c.UID = c20Opt{pres("pUID", 98), b64(16, "uid")}
	pkLen := rapid.SampledFrom([]int{32, 32, 32, 32, 32, 32, 32, 32, 32, 32, 32, 32, 32, 32, 32, 32, 32, 31, 33, 0}).Draw(rt, "pklen")
	c.PublicKey = c20Opt{pres("pPK", 98), b64(pkLen, "pk")}
	c.NumConn = c20Opt{pres("pNC", 80), fmt.Sprint(rapid.SampledFrom([]int{-1, 0, 1, 4, 8, 2, -7}).Draw(rt, "nc"))}
	c.LocalHost = c20Opt{pres("pLH", 98), rapid.SampledFrom([]string{"127.0.0.1", "localhost", "::1"}).Draw(rt, "lh")}
	c.LocalPort = c20Opt{pres("pLP", 98), rapid.SampledFrom([]string{"1984", "0", "65535"}).Draw(rt, "lp")}
	c.RemoteHost = c20Opt{pres("pRH", 98), host.Draw(rt, "rh")}
	c.RemotePort = c20Opt{pres("pRP", 98), rapid.SampledFrom([]string{"443", "80", "8443"}).Draw(rt, "rp")}
	c.AltPresent = pres("pAN", 50)
	if c.AltPresent {
		n := rapid.IntRange(0, 4).Draw(rt, "nalt")
		c.AlternativeNames = []string{}
		for i := 0; i < n; i++ {
			c.AlternativeNames = append(c.AlternativeNames, rapid.SampledFrom([]string{"cloudflare.com", "github.com", "", "a.example", "b.example"}).Draw(rt, "alt"))
		}
		if n == 0 {
			c.AlternativeNames = []string{""}
		}
	}
	c.UDP = c20Opt{pres("pUDP", 40), rapid.SampledFrom([]string{"true", "false"}).Draw(rt, "udp")}
	c.BrowserSig = c20Opt{pres("pBS", 70), rapid.SampledFrom([]string{"chrome", "firefox", "safari", "Chrome", "FIREFOX", "Safari", "opera"}).Draw(rt, "bs")}
	c.Transport = c20Opt{pres("pTR", 70), rapid.SampledFrom([]string{"direct", "CDN", "cdn", "Direct", "DIRECT", "Cdn"}).Draw(rt, "tr")}
	c.CDNOriginHost = c20Opt{pres("pCO", 40), host.Draw(rt, "co")}
	c.CDNWsUrlPath = c20Opt{pres("pCP", 40), rapid.SampledFrom([]string{"/", "/ws", "/a/b?x=1", "/path==", "/cloak%2Fws", "/ws?ed=2048", "/deep/er/path/"}).Draw(rt, "cp")}
	c.StreamTimeout = c20Opt{pres("pST", 60), fmt.Sprint(rapid.SampledFrom([]int{0, 1, 300, 30, 86400}).Draw(rt, "st"))}
	c.KeepAlive = c20Opt{pres("pKA", 70), fmt.Sprint(rapid.SampledFrom([]int{-5, 0, 1, 15, 3600, 30}).Draw(rt, "ka"))}
	c.EscapeEquals = rapid.Bool().Draw(rt, "esc")
	c.TrailingSemi = rapid.Bool().Draw(rt, "semi")
	return c
}

func TestVerif_C20_Config(t *testing.T) {
	defer func() {
		if c20Dir != "" {
			os.RemoveAll(c20Dir)
		}
	}()
	vk.Run(t, "C20", "Config", c20Gen, c20Run)
}

// arbitrary option strings and JSON documents never crash the parser
func TestVerif_C20_NoCrash(t *testing.T) {
	defer func() {
		if c20Dir != "" {
			os.RemoveAll(c20Dir)
		}
	}()
	vk.Run(t, "C20", "NoCrash", func(rt *rapid.T) string {
		return rapid.OneOf(
			rapid.StringMatching(`([A-Za-z]{0,12}(=|\\=|;|\;|\\\\|,|"|:|\{|\}|\[|\])?){0,12}`),
			rapid.StringMatching(`(NumConn|UID|KeepAlive|AlternativeNames|UDP|ServerName|Transport)=[ -~]{0,8};((NumConn|UID|StreamTimeout|AlternativeNames)=[ -~]{0,8};?)*`),
		).Draw(rt, "conf")
	}, func(conf string) (vk.Result, error) {
		res := vk.Result{NonTrivial: strings.Contains(conf, ";") && strings.Contains(conf, "=")}
		raw, err := ParseConfig(conf)
		if err == nil && raw != nil {
			raw.ProcessRawConfig(common.RealWorldState)
			res.Labels = append(res.Labels, "parsed")
		}
		if c20Dir == "" {
			c20Dir, _ = os.MkdirTemp(".", "c20cfg")
		}
		p := filepath.Join(c20Dir, "garbage.json")
		os.WriteFile(p, []byte(conf), 0o644)
		if raw, err := ParseConfig(p); err == nil && raw != nil {
			raw.ProcessRawConfig(common.RealWorldState)
		}
		return res, nil
	})
}

// c20CaptureUpgrade lets the CDN transport perform its handshake against an in-process TLS front and returns the
// request target and Host header of the WebSocket upgrade request it sends.
func c20CaptureUpgrade(tr *WSOverTLS, auth AuthInfo) (uri, host string, err error) {
	l := vk.NewLink(0, false) // buffered both ways (net.Pipe deadlocks when both TLS ends write at once)
	l.SetAuto(vk.AtoB, true)
	l.SetAuto(vk.BtoA, true)
	cc, sc := l.A, l.B
	defer cc.Close()
	defer sc.Close()
	type got struct {
		uri, host string
		err       error
	}
	ch := make(chan got, 1)
	go func() {
		ts := tls.Server(sc, &tls.Config{Certificates: []tls.Certificate{c20Cert()}})
		ts.SetDeadline(time.Now().Add(10 * time.Second))
		if err := ts.Handshake(); err != nil {
			ch <- got{err: err}
			return
		}
		req, err := http.ReadRequest(bufio.NewReader(ts))
		if err != nil {
			ch <- got{err: err}
			return
		}
		ch <- got{uri: req.RequestURI, host: req.Host}
		ts.Close()
	}()
	go tr.Handshake(cc, auth)
	select {
	case g := <-ch:
		return g.uri, g.host, g.err
	case <-time.After(15 * time.Second):
		return "", "", fmt.Errorf("timeout")
	}
}

var (
	c20CertOnce sync.Once
	c20CertVal  tls.Certificate
)

func c20Cert() tls.Certificate {
	c20CertOnce.Do(func() {
		key, _ := ecdsa.GenerateKey(elliptic.P256(), crand.Reader)
		tmpl := &x509.Certificate{SerialNumber: big.NewInt(1), Subject: pkix.Name{CommonName: "cdn.test"}, NotBefore: time.Unix(0, 0), NotAfter: time.Unix(4102444800, 0), DNSNames: []string{"cdn.test"}}
		der, _ := x509.CreateCertificate(crand.Reader, tmpl, tmpl, &key.PublicKey, key)
		c20CertVal = tls.Certificate{Certificate: [][]byte{der}, PrivateKey: key}
	})
	return c20CertVal
}
