package client

import (
	"bytes"
	"crypto/rand"
	"fmt"
	"io"
	"os"
	"path/filepath"
	"sync"
	"testing"
	"testing/synctest"
	"time"

	"github.com/cbeuw/Cloak/internal/common"
	mux "github.com/cbeuw/Cloak/internal/multiplex"
	vk "github.com/cbeuw/Cloak/internal/verifkit"
	"pgregory.net/rapid"
)

// C20 (3) StreamTimeout in effect (virtual clock): the option is parsed from either syntax and handed to RouteTCP,
// as ck-client does. README: the number of seconds to wait for a connection from the proxy program to send ANY
// data, after which the connection is closed - i.e. a connection whose first data arrives in time is established
// and no timeout applies to it afterwards, in either direction; one that stays silent longer is closed.

type c20tEvent struct {
	AtMs int64 // after the connection was accepted
	Down bool  // server -> proxy program
	N    int
}

type c20Timeout struct {
	Seconds    int  // 0: option absent (default 300)
	JSON       bool // syntax
	Singleplex bool
	FirstMs    int64 // when the proxy program sends its first bytes
	Events     []c20tEvent
}

func c20tRun(t *testing.T, sc c20Timeout) (vk.Result, error) {
	res := vk.Result{NonTrivial: true}
	uid := base64Std(bytes.Repeat([]byte{7}, 16))
	pub := base64Std(bytes.Repeat([]byte{9}, 32))
	var raw *RawConfig
	var err error
	if sc.JSON {
		if c20Dir == "" {
			c20Dir, _ = os.MkdirTemp(".", "c20cfg")
		}
		path := filepath.Join(c20Dir, "timeout.json")
		j := fmt.Sprintf(`{"ServerName":"a.example","ProxyMethod":"x","EncryptionMethod":"plain","UID":"%s","PublicKey":"%s","NumConn":2,"RemoteHost":"1.2.3.4","RemotePort":"443","LocalHost":"127.0.0.1","LocalPort":"1984"`, uid, pub)
		if sc.Seconds > 0 {
			j += fmt.Sprintf(`,"StreamTimeout":%d`, sc.Seconds)
		}
		j += "}"
		os.WriteFile(path, []byte(j), 0o644)
		raw, err = ParseConfig(path)
	} else {
		esc := func(s string) string { return string(bytes.ReplaceAll([]byte(s), []byte("="), []byte(`\=`))) }
		s := fmt.Sprintf("ServerName=a.example;ProxyMethod=x;EncryptionMethod=plain;UID=%s;PublicKey=%s;NumConn=2;RemoteHost=1.2.3.4;RemotePort=443;LocalHost=127.0.0.1;LocalPort=1984", esc(uid), esc(pub))
		if sc.Seconds > 0 {
			s += fmt.Sprintf(";StreamTimeout=%d", sc.Seconds)
		}
		raw, err = ParseConfig(s)
	}
	if err != nil {
		return res, vk.Violatef("a valid configuration was rejected: %v", err)
	}
	local, _, _, err := raw.ProcessRawConfig(common.WorldState{Rand: rand.Reader, Now: time.Now})
	if err != nil {
		return res, vk.Violatef("a valid configuration was rejected by ProcessRawConfig: %v", err)
	}
	T := time.Duration(sc.Seconds) * time.Second
	if sc.Seconds == 0 {
		T = 300 * time.Second
	}
	var verr error
	berr := vk.Bubble(t, func() {
		localLn := vk.NewListener()
		defer localLn.Terminate()
		// the "remote": a session pair over the test network; the server side records what arrives per stream
		var mu sync.Mutex
		var srvStreams []*mux.Stream
		var upGot []byte
		var sessions []*mux.Session
		newSesh := func() *mux.Session {
			obfs, _ := mux.MakeObfuscator(mux.EncryptionMethodPlain, [32]byte{1})
			cfg := mux.SessionConfig{Obfuscator: obfs, MsgOnWireSizeLimit: 16401, InactivityTimeout: 100 * time.Hour, Singleplex: sc.Singleplex}
			cs, ss := mux.MakeSession(1, cfg), mux.MakeSession(1, cfg)
			l := vk.NewLink(0, false)
			l.SetAuto(vk.AtoB, true)
			l.SetAuto(vk.BtoA, true)
			cs.AddConnection(common.NewTLSConn(l.A))
			ss.AddConnection(common.NewTLSConn(l.B))
			mu.Lock()
			sessions = append(sessions, cs, ss)
			mu.Unlock()
			go func() {
				for {
					c, err := ss.Accept()
					if err != nil {
						return
					}
					st := c.(*mux.Stream)
					mu.Lock()
					srvStreams = append(srvStreams, st)
					mu.Unlock()
					go func() {
						buf := make([]byte, 70000)
						for {
							n, err := st.Read(buf)
							mu.Lock()
							upGot = append(upGot, buf[:n]...)
							mu.Unlock()
							if err != nil {
								return
							}
						}
					}()
				}
			}()
			return cs
		}
		defer func() {
			mu.Lock()
			for _, s := range sessions {
				go s.Close()
			}
			mu.Unlock()
		}()
		go RouteTCP(localLn, local.Timeout, sc.Singleplex, newSesh)
		// the proxy program
		pnet := &vk.Net{Auto: true}
		d := &vk.Dialer{Net: pnet, Ln: localLn}
		pc, _ := d.Dial("tcp", "local")
		t0 := time.Now()
		var downGot []byte
		var prErr error
		prDone := make(chan struct{})
		go func() {
			defer close(prDone)
			buf := make([]byte, 70000)
			for {
				n, err := pc.Read(buf)
				mu.Lock()
				downGot = append(downGot, buf[:n]...)
				mu.Unlock()
				if err != nil {
					prErr = err
					return
				}
			}
		}()
		sleepUntil := func(ms int64) {
			if dt := time.Duration(ms)*time.Millisecond - time.Since(t0); dt > 0 {
				time.Sleep(dt)
			}
			synctest.Wait()
		}
		first := []byte("first bytes of the proxied connection")
		sleepUntil(sc.FirstMs)
		_, werr := pc.Write(first)
		synctest.Wait()
		inTime := time.Duration(sc.FirstMs)*time.Millisecond < T
		late := time.Duration(sc.FirstMs)*time.Millisecond > T
		if !inTime && !late {
			return // exactly at the limit: either outcome
		}
		if late {
			// the connection must have been closed by the client at T; nothing may reach the remote
			select {
			case <-prDone:
			default:
				verr = vk.ViolateSig("timeout-not-enforced", "StreamTimeout=%v: the proxy program sent nothing for %dms, yet its connection is still open", T, sc.FirstMs)
				return
			}
			mu.Lock()
			n := len(upGot)
			mu.Unlock()
			if n > 0 {
				verr = vk.Violatef("StreamTimeout=%v: data sent after the timeout reached the remote", T)
			}
			_ = werr
			return
		}
		// established
		wantUp := append([]byte(nil), first...)
		var wantDown []byte
		mu.Lock()
		ok := bytes.Equal(upGot, wantUp) && len(srvStreams) == 1
		mu.Unlock()
		if !ok {
			verr = vk.ViolateSig("established-broken", "StreamTimeout=%v: the first bytes arrived after %dms (in time) but did not reach the remote as one stream", T, sc.FirstMs)
			return
		}
		for i, ev := range sc.Events {
			sleepUntil(sc.FirstMs + ev.AtMs)
			p := make([]byte, ev.N)
			for k := range p {
				p[k] = byte(i*31 + k)
			}
			if ev.Down {
				mu.Lock()
				st := srvStreams[0]
				mu.Unlock()
				if _, err := st.Write(p); err != nil {
					verr = vk.ViolateSig("established-broken", "StreamTimeout=%v, first data after %dms: %dms later the remote cannot write to the established stream any more: %v (no timeout applies once data has flowed)", T, sc.FirstMs, ev.AtMs, err)
					return
				}
				wantDown = append(wantDown, p...)
			} else {
				if _, err := pc.Write(p); err != nil {
					verr = vk.ViolateSig("established-broken", "StreamTimeout=%v, first data after %dms: %dms later the proxy program's connection is gone: %v", T, sc.FirstMs, ev.AtMs, err)
					return
				}
				wantUp = append(wantUp, p...)
			}
			synctest.Wait()
			mu.Lock()
			okUp, okDown := bytes.Equal(upGot, wantUp), bytes.Equal(downGot, wantDown)
			mu.Unlock()
			if !okUp || !okDown {
				dir := "proxy program -> remote"
				if ev.Down {
					dir = "remote -> proxy program"
				}
				verr = vk.ViolateSig("established-broken", "StreamTimeout=%v, first data after %dms: %d bytes sent %s %dms after the connection was established did not arrive (read side error: %v); no timeout applies to an established connection", T, sc.FirstMs, ev.N, dir, ev.AtMs, prErr)
				return
			}
		}
		pc.Close()
		io.Copy(io.Discard, bytes.NewReader(nil))
	})
	if verr == nil && berr != nil {
		verr = fmt.Errorf("harness: bubble: %v", berr)
	}
	res.Labels = append(res.Labels, fmt.Sprintf("timeout=%ds", sc.Seconds))
	if time.Duration(sc.FirstMs)*time.Millisecond < T {
		res.Labels = append(res.Labels, "established")
		for _, ev := range sc.Events {
			if time.Duration(sc.FirstMs+ev.AtMs)*time.Millisecond > T {
				res.Labels = append(res.Labels, "data-after-the-timeout-period")
				break
			}
		}
	} else {
		res.Labels = append(res.Labels, "silent-beyond-timeout")
	}
	return res, verr
}

func base64Std(b []byte) string {
	const tbl = "ABCDEFGHIJKLMNOPQRSTUVWXYZabcdefghijklmnopqrstuvwxyz0123456789+/"
	var out []byte
	for i := 0; i < len(b); i += 3 {
		var v uint32
		n := 0
		for j := 0; j < 3; j++ {
			v <<= 8
			if i+j < len(b) {
				v |= uint32(b[i+j])
				n++
			}
		}
		for j := 0; j < 4; j++ {
			if j <= n {
				out = append(out, tbl[(v>>(18-6*uint(j)))&63])
			} else {
				out = append(out, '=')
			}
		}
	}
	return string(out)
}

func TestVerif_C20_StreamTimeout(t *testing.T) {
	vk.Run(t, "C20", "StreamTimeout", func(rt *rapid.T) c20Timeout {
		sc := c20Timeout{Seconds: rapid.SampledFrom([]int{0, 1, 2, 5, 30, 300}).Draw(rt, "seconds"), JSON: rapid.Bool().Draw(rt, "json"), Singleplex: rapid.IntRange(0, 3).Draw(rt, "singleplex") == 0}
		T := int64(sc.Seconds) * 1000
		if T == 0 {
			T = 300000
		}
		sc.FirstMs = rapid.SampledFrom([]int64{0, 1, T / 2, T - 200, T + 500, 3 * T}).Draw(rt, "first")
		n := rapid.IntRange(1, 5).Draw(rt, "nevents")
		at := int64(0)
		for i := 0; i < n; i++ {
			at += rapid.SampledFrom([]int64{1, T / 3, T - 100, T + 600, 2 * T, 5 * T}).Draw(rt, "gap")
			sc.Events = append(sc.Events, c20tEvent{AtMs: at, Down: rapid.Bool().Draw(rt, "down"), N: rapid.SampledFrom([]int{1, 100, 5000}).Draw(rt, "n")})
		}
		return sc
	}, func(sc c20Timeout) (vk.Result, error) {
		return vk.Protect(func() (vk.Result, error) { return c20tRun(t, sc) })
	})
}
