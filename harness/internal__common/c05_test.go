package common

import (
	"bytes"
	"errors"
	"fmt"
	"io"
	"net"
	"net/http"
	"net/url"
	"sync"
	"testing"
	"testing/synctest"

	vk "github.com/cbeuw/Cloak/internal/verifkit"
	"github.com/gorilla/websocket"
	log "github.com/sirupsen/logrus"
	"pgregory.net/rapid"
)

func init() {
	log.SetOutput(io.Discard)
	log.SetLevel(log.PanicLevel)
}

// C05 - record framing survives any TCP segmentation and concurrent writers: one Write = one Read, whole,
// unaltered, in order; concurrent messages never interleave; a record larger than the reader's buffer is an error.

func c05PRF(tag uint64, off uint64) byte {
	x := tag*0x9E3779B97F4A7C15 + off*0xBF58476D1CE4E5B9 + 0x94D049BB133111EB
	x ^= x >> 31
	x *= 0xD6E8FEB86659FD93
	x ^= x >> 29
	return byte(x)
}

func c05Msg(writer, idx, n int) []byte {
	b := make([]byte, n)
	for i := range b {
		b[i] = c05PRF(uint64(writer)<<20|uint64(idx), uint64(i))
	}
	return b
}

type c05Case struct {
	Kind    string  // "tls" | "ws-c2s" | "ws-s2c"
	Writers [][]int // message lengths per writer (writer 0 only = sequential exchange)
	Sched   []int   // order in which pending underlying writes are admitted (writer indices); tls only
	Cuts    []int   // segment sizes used to deliver the byte stream (cycled); 0 = deliver everything
	BufSize int     // reader buffer
}

type oneShotListener struct {
	c    net.Conn
	done chan struct{}
	once sync.Once
}

func (l *oneShotListener) Accept() (net.Conn, error) {
	var c net.Conn
	l.once.Do(func() { c = l.c })
	if c != nil {
		return c, nil
	}
	<-l.done
	return nil, errors.New("closed")
}
func (l *oneShotListener) Close() error   { return nil }
func (l *oneShotListener) Addr() net.Addr { return &net.TCPAddr{} }

// c05WSPair performs a real WebSocket upgrade over the link and returns (client end, server end).
func c05WSPair(l *vk.Link) (*WebSocketConn, *WebSocketConn, func(), error) {
	l.SetAuto(vk.AtoB, true)
	l.SetAuto(vk.BtoA, true)
	ln := &oneShotListener{c: l.B, done: make(chan struct{})}
	srvCh := make(chan *websocket.Conn, 1)
	go http.Serve(ln, http.HandlerFunc(func(w http.ResponseWriter, r *http.Request) {
		up := websocket.Upgrader{}
		c, err := up.Upgrade(w, r, nil)
		if err != nil {
			srvCh <- nil
			return
		}
		srvCh <- c
	}))
	u, _ := url.Parse("ws://example.com/")
	cc, _, err := websocket.NewClient(l.A, u, http.Header{}, 16480, 16480)
	if err != nil {
		close(ln.done)
		return nil, nil, nil, err
	}
	sc := <-srvCh
	if sc == nil {
		close(ln.done)
		return nil, nil, nil, errors.New("upgrade failed")
	}
	return &WebSocketConn{Conn: cc}, &WebSocketConn{Conn: sc}, func() { close(ln.done) }, nil
}

func c05Run(t *testing.T) func(c c05Case) (vk.Result, error) {
	return func(c c05Case) (vk.Result, error) {
		var res vk.Result
		var verr error
		berr := vk.Bubble(t, func() {
			res, verr = vk.Protect(func() (vk.Result, error) { return c05Inner(c) })
		})
		if verr == nil && berr != nil {
			verr = fmt.Errorf("harness: bubble: %v", berr)
		}
		return res, verr
	}
}

func c05Inner(c c05Case) (vk.Result, error) {
	res := vk.Result{}
	l := vk.NewLink(0, true)
	var wr io.Writer
	var rd io.Reader
	var d vk.Dir
	cleanup := func() {}
	switch c.Kind {
	case "tls":
		wr, rd, d = NewTLSConn(l.A), NewTLSConn(l.B), vk.AtoB
	default:
		cc, sc, stop, err := c05WSPair(l)
		if err != nil {
			return res, fmt.Errorf("harness: websocket handshake: %v", err)
		}
		cleanup = stop
		if c.Kind == "ws-c2s" {
			wr, rd, d = cc, sc, vk.AtoB
		} else {
			wr, rd, d = sc, cc, vk.BtoA
		}
		synctest.Wait()
		l.SetAuto(vk.AtoB, false)
		l.SetAuto(vk.BtoA, false)
	}
	defer func() {
		l.A.Close()
		l.B.Close()
		cleanup()
	}()
	bufSize := c.BufSize
	if bufSize <= 0 {
		bufSize = 20480
	}
	// reader
	var mu sync.Mutex
	var got [][]byte
	var rdErr error
	go func() {
		for {
			buf := make([]byte, bufSize)
			n, err := rd.Read(buf)
			mu.Lock()
			if err != nil {
				rdErr = err
				mu.Unlock()
				return
			}
			got = append(got, buf[:n])
			mu.Unlock()
		}
	}()
	// writers
	type wstate struct {
		next int
		done bool
	}
	total := 0
	var sent [][][]byte
	refused := 0
	for w, lens := range c.Writers {
		var ms [][]byte
		for k, n := range lens {
			ms = append(ms, c05Msg(w, k, n))
		}
		sent = append(sent, ms)
		total += len(lens)
	}
	multi := len(c.Writers) > 1
	var wmu sync.Mutex
	wrErrs := map[[2]int]error{}
	if multi && c.Kind == "tls" {
		l.SetGrantMode(d, true)
	}
	var wg sync.WaitGroup
	ticketOwner := map[int]int{}
	for w := range c.Writers {
		wg.Add(1)
		before := l.Tickets(d)
		go func(w int) {
			defer wg.Done()
			for k, m := range sent[w] {
				n, err := wr.Write(m)
				if err != nil || n != len(m) {
					wmu.Lock()
					if err == nil {
						err = fmt.Errorf("short write %d of %d", n, len(m))
					}
					wrErrs[[2]int{w, k}] = err
					wmu.Unlock()
				}
			}
		}(w)
		if multi && c.Kind == "tls" {
			synctest.Wait()
			for tk := before; tk < l.Tickets(d); tk++ {
				ticketOwner[tk] = w
			}
		}
	}
	if multi && c.Kind == "tls" {
		// admit the underlying writes in the generated order
		si := 0
		for steps := 0; steps < 100000; steps++ {
			pend := l.UnreleasedTickets(d)
			if len(pend) == 0 {
				break
			}
			pick := pend[0]
			if si < len(c.Sched) {
				want := c.Sched[si] % len(c.Writers)
				si++
				for _, tk := range pend {
					if ticketOwner[tk] == want {
						pick = tk
						break
					}
				}
			}
			before := l.Tickets(d)
			l.ReleaseTicket(d, pick)
			synctest.Wait()
			for tk := before; tk < l.Tickets(d); tk++ {
				ticketOwner[tk] = ticketOwner[pick]
			}
		}
	}
	if c.Kind == "tls" || !multi {
		synctest.Wait()
	} else {
		wg.Wait()
	}
	// deliver with the generated segmentation
	segs, coalesced := 0, false
	ci := 0
	for l.PendingBytes(d) > 0 {
		n := 0
		if len(c.Cuts) > 0 {
			n = c.Cuts[ci%len(c.Cuts)]
			ci++
		}
		if n <= 0 {
			l.DeliverAll(d)
			coalesced = true
		} else {
			if h := l.HeadChunk(d); len(h) < n {
				coalesced = true
			}
			l.DeliverBytes(d, n)
		}
		segs++
		synctest.Wait()
	}
	synctest.Wait()
	mu.Lock()
	defer mu.Unlock()
	// oracle
	for w, lens := range c.Writers {
		for k, n := range lens {
			err := wrErrs[[2]int{w, k}]
			limit := 1<<14 + 256
			if n > limit && c.Kind == "tls" {
				if err == nil {
					return res, vk.Violatef("Write of %d bytes (above the %d-byte record limit) was accepted", n, limit)
				}
				refused++
				sent[w][k] = nil
				continue
			}
			if err != nil {
				return res, vk.Violatef("Write of a %d-byte message failed: %v", n, err)
			}
		}
	}
	// every read is one whole message; per writer in order; nothing invented, nothing lost.
	// Empty messages are indistinguishable between writers: they are counted separately.
	emptySent, emptyGot := 0, 0
	for w := range sent {
		for k, m := range sent[w] {
			if m != nil && len(m) == 0 {
				emptySent++
				sent[w][k] = nil
			}
		}
	}
	// Short messages of different writers can have equal content, so the assignment of reads to writers is
	// searched (depth first) instead of chosen greedily: a violation is reported only if NO assignment exists in
	// which every read is the next whole message of some writer.
	var nonEmpty [][]byte
	for _, g := range got {
		if len(g) == 0 {
			emptyGot++
		} else {
			nonEmpty = append(nonEmpty, g)
		}
	}
	next := make([]int, len(c.Writers))
	skip := func(w int) {
		for next[w] < len(sent[w]) && sent[w][next[w]] == nil {
			next[w]++
		}
	}
	deepest := 0
	steps := 0
	var assign func(i int) bool
	assign = func(i int) bool {
		if i > deepest {
			deepest = i
		}
		if i == len(nonEmpty) {
			return true
		}
		steps++
		if steps > 2000000 {
			return true // give up searching: inconclusive rather than an alarm
		}
		for w := range c.Writers {
			save := next[w]
			skip(w)
			if next[w] < len(sent[w]) && bytes.Equal(sent[w][next[w]], nonEmpty[i]) {
				next[w]++
				if assign(i + 1) {
					return true
				}
			}
			next[w] = save
		}
		return false
	}
	if !assign(0) {
		return res, vk.ViolateSig("framing", "read #%d returned %d bytes that are not the next whole message of any writer (split, merged, interleaved or altered)", deepest, len(nonEmpty[deepest]))
	}
	for w := range c.Writers {
		skip(w)
		if next[w] != len(sent[w]) {
			if rdErr != nil {
				return res, vk.ViolateSig("framing", "reader stopped with %v after %d messages; writer %d still had %d message(s) on the wire", rdErr, len(got), w, len(sent[w])-next[w])
			}
			return res, vk.ViolateSig("framing", "writer %d: %d of %d messages were received after the whole byte stream was delivered", w, next[w], len(sent[w]))
		}
	}
	if emptyGot != emptySent {
		return res, vk.ViolateSig("framing", "%d empty messages were written, %d empty reads were observed", emptySent, emptyGot)
	}
	if rdErr != nil {
		return res, vk.Violatef("reader failed with %v although every message fits its buffer", rdErr)
	}
	res.NonTrivial = segs > total || coalesced
	if segs > total {
		res.Labels = append(res.Labels, "message-arrived-in-segments")
	}
	if coalesced {
		res.Labels = append(res.Labels, "messages-coalesced")
	}
	if multi {
		res.Labels = append(res.Labels, "concurrent-writers")
	}
	if refused > 0 {
		res.Labels = append(res.Labels, "oversize-write-refused")
	}
	res.Labels = append(res.Labels, "kind="+c.Kind)
	return res, nil
}

func c05Gen(rt *rapid.T) c05Case {
	c := c05Case{Kind: rapid.SampledFrom([]string{"tls", "tls", "ws-c2s", "ws-s2c"}).Draw(rt, "kind")}
	nw := 1
	if rapid.IntRange(0, 2).Draw(rt, "multi") == 0 {
		nw = rapid.IntRange(2, 8).Draw(rt, "writers")
	}
	size := rapid.OneOf(
		rapid.SampledFrom([]int{0, 1, 5, 4, 6, 125, 126, 127, 14336 - 5, 14336, 16379, 16380, 16383, 16384, 16401, 16640}),
		rapid.IntRange(0, 300),
		rapid.IntRange(0, 16640),
	)
	for w := 0; w < nw; w++ {
		n := rapid.IntRange(1, 6).Draw(rt, "nmsgs")
		var lens []int
		for k := 0; k < n; k++ {
			l := size.Draw(rt, "len")
			if c.Kind == "tls" && rapid.IntRange(0, 30).Draw(rt, "over") == 0 {
				l = 16641 + rapid.IntRange(0, 3000).Draw(rt, "overby")
			}
			lens = append(lens, l)
		}
		c.Writers = append(c.Writers, lens)
	}
	ns := rapid.IntRange(0, 40).Draw(rt, "nsched")
	for i := 0; i < ns; i++ {
		c.Sched = append(c.Sched, rapid.IntRange(0, nw-1).Draw(rt, "sched"))
	}
	nc := rapid.IntRange(0, 12).Draw(rt, "ncuts")
	for i := 0; i < nc; i++ {
		c.Cuts = append(c.Cuts, rapid.OneOf(rapid.IntRange(1, 9), rapid.IntRange(1, 2000), rapid.SampledFrom([]int{0, 5, 16384, 40000})).Draw(rt, "cut"))
	}
	c.BufSize = 20480
	return c
}

func TestVerif_C05_Sampled(t *testing.T) {
	vk.Run(t, "C05", "Sampled", c05Gen, c05Run(t))
}

// exhaustive cuts: short exchanges, every single cut and every pair of cut positions in the byte stream
func TestVerif_C05_Cuts(t *testing.T) {
	const prop, sub = "C05", "Cuts"
	vk.Direct(t, prop, sub, func(fail func(any, error)) {
		var rc c05Case
		if vk.ReplayScenario(prop, sub, &rc) {
			if _, err := c05Run(t)(rc); err != nil {
				fail(rc, err)
			}
			return
		}
		if vk.InReplay() {
			return
		}
		run := c05Run(t)
		exchanges := [][]int{{0}, {1}, {5, 0, 1}, {1, 5, 3}, {7, 130}, {0, 0, 2}}
		stop := false
		for _, kind := range []string{"tls", "ws-c2s", "ws-s2c"} {
			for ei, ex := range exchanges {
				// wire length is needed to enumerate the cuts: measure with a dry run
				total := c05WireLen(t, kind, ex)
				if total <= 0 {
					fail(c05Case{Kind: kind, Writers: [][]int{ex}}, vk.Violatef("writing the messages %v put no bytes on the wire: a message (even an empty one) must travel as one record", ex))
					return
				}
				for a := 1; a < total && !stop; a++ {
					for b := a; b < total && !stop; b++ {
						cuts := []int{a, b - a, 0}
						if b == a {
							cuts = []int{a, 0}
						}
						c := c05Case{Kind: kind, Writers: [][]int{ex}, Cuts: cuts, BufSize: 20480}
						if _, err := run(c); err != nil {
							fail(c, err)
							stop = true
						}
						vk.AddDistinct(prop, sub, uint64(len(kind))<<40|uint64(ei)<<32|uint64(a)<<16|uint64(b), 1, "kind="+kind)
					}
				}
				if ei == 2 {
					vk.AddSample(prop, sub, c05Case{Kind: kind, Writers: [][]int{ex}, Cuts: []int{3, 4, 0}, BufSize: 20480})
				}
			}
		}
		vk.SetExhaustive(prop, sub, !stop)
	})
}

func c05WireLen(t *testing.T, kind string, ex []int) int {
	n := -1
	vk.Bubble(t, func() {
		l := vk.NewLink(0, true)
		var wr io.Writer
		d := vk.AtoB
		cleanup := func() {}
		if kind == "tls" {
			wr = NewTLSConn(l.A)
		} else {
			cc, sc, stop, err := c05WSPair(l)
			if err != nil {
				return
			}
			cleanup = stop
			synctest.Wait()
			l.SetAuto(vk.AtoB, false)
			l.SetAuto(vk.BtoA, false)
			if kind == "ws-c2s" {
				wr = cc
			} else {
				wr, d = sc, vk.BtoA
			}
		}
		for k, m := range ex {
			wr.Write(c05Msg(0, k, m))
		}
		n = l.PendingBytes(d)
		l.A.Close()
		l.B.Close()
		cleanup()
	})
	return n
}

// oversize records: declared length beyond the reader's buffer must be an error, never data
type c05Over struct {
	Kind     string
	Declared int
	BufSize  int
	Sent     int // bytes of body actually sent
}

func TestVerif_C05_Oversize(t *testing.T) {
	vk.Run(t, "C05", "Oversize", func(rt *rapid.T) c05Over {
		o := c05Over{Kind: rapid.SampledFrom([]string{"tls", "ws-c2s", "ws-s2c"}).Draw(rt, "kind")}
		o.BufSize = rapid.SampledFrom([]int{5, 6, 100, 1500, 16384, 20480}).Draw(rt, "buf")
		o.Declared = o.BufSize + rapid.SampledFrom([]int{1, 2, 100, 45055}).Draw(rt, "over")
		if o.Declared > 65535 {
			o.Declared = 65535
		}
		o.Sent = rapid.IntRange(0, o.Declared).Draw(rt, "sent")
		return o
	}, func(o c05Over) (vk.Result, error) {
		var res vk.Result
		var verr error
		berr := vk.Bubble(t, func() {
			res, verr = vk.Protect(func() (vk.Result, error) {
				res := vk.Result{NonTrivial: true, Labels: []string{"kind=" + o.Kind}}
				l := vk.NewLink(0, false)
				var rd io.Reader
				cleanup := func() {}
				defer func() { l.A.Close(); l.B.Close(); cleanup() }()
				body := c05Msg(9, 9, o.Declared)
				if o.Kind == "tls" {
					rd = NewTLSConn(l.B)
					l.SetAuto(vk.AtoB, true)
					hdr := []byte{23, 3, 3, byte(o.Declared >> 8), byte(o.Declared)}
					l.A.Write(append(hdr, body[:o.Sent]...))
				} else {
					cc, sc, stop, err := c05WSPair(l)
					if err != nil {
						return res, fmt.Errorf("harness: %v", err)
					}
					cleanup = stop
					if o.Kind == "ws-c2s" {
						rd = sc
						go cc.Write(body)
					} else {
						rd = cc
						go sc.Write(body)
					}
				}
				type rr struct {
					n   int
					err error
				}
				ch := make(chan rr, 1)
				buf := make([]byte, o.BufSize)
				go func() {
					n, err := rd.Read(buf)
					ch <- rr{n, err}
				}()
				synctest.Wait()
				select {
				case r := <-ch:
					if r.err == nil {
						return res, vk.ViolateSig("oversize", "a %d-byte record was handed to a reader with a %d-byte buffer as %d bytes of data without error (truncated delivery)", o.Declared, o.BufSize, r.n)
					}
				default:
					// still waiting for more bytes is only acceptable if the record could still turn out to fit - it cannot
					if o.Kind == "tls" {
						return res, vk.ViolateSig("oversize", "reader with a %d-byte buffer keeps waiting on a record declaring %d bytes instead of reporting an error", o.BufSize, o.Declared)
					}
					return res, vk.ViolateSig("oversize", "reader with a %d-byte buffer did not report an error for a %d-byte message", o.BufSize, o.Declared)
				}
				return res, nil
			})
		})
		if verr == nil && berr != nil {
			verr = fmt.Errorf("harness: bubble: %v", berr)
		}
		return res, verr
	})
}

// ---- native fuzz target (thorough tier): bytes -> (messages, segmentation) through TLSConn ----

func FuzzVerifTLSConnStream(f *testing.F) {
	f.Add([]byte{2, 0, 5, 0, 0, 1, 3, 7})
	f.Add([]byte{1, 0x40, 0x80, 9, 9, 9})
	f.Add([]byte{4, 0, 0, 0, 1, 0x41, 0x00, 0x00, 0x10, 200, 1, 1, 1})
	f.Add([]byte{3, 0x3f, 0xff, 0x40, 0x01, 0x41, 0x01, 5, 5})
	f.Fuzz(func(t *testing.T, data []byte) {
		if len(data) < 3 {
			return
		}
		nmsg := 1 + int(data[0])%4
		p := 1
		var msgs [][]byte
		for i := 0; i < nmsg && p+2 <= len(data); i++ {
			n := (int(data[p])<<8 | int(data[p+1])) % 16700
			p += 2
			msgs = append(msgs, c05Msg(7, i, n))
		}
		cuts := data[p:]
		l := vk.NewLink(0, false)
		w, r := NewTLSConn(l.A), NewTLSConn(l.B)
		var sent [][]byte
		for _, m := range msgs {
			n, err := w.Write(m)
			if len(m) > 1<<14+256 {
				if err == nil {
					t.Fatalf("VERIF-VIOLATION property=C05 sub=fuzz file=- sig=oversize: Write of %d bytes accepted", len(m))
				}
				continue
			}
			if err != nil || n != len(m) {
				t.Fatalf("VERIF-VIOLATION property=C05 sub=fuzz file=- sig=write: Write(%d) = %d, %v", len(m), n, err)
			}
			sent = append(sent, m)
		}
		ci := 0
		for l.PendingBytes(vk.AtoB) > 0 {
			n := 0
			if len(cuts) > 0 {
				n = int(cuts[ci%len(cuts)])
				if n > 200 {
					n = (n - 200) * 300
				}
				ci++
			}
			if n <= 0 {
				l.DeliverAll(vk.AtoB)
			} else {
				l.DeliverBytes(vk.AtoB, n)
			}
		}
		l.A.Close()
		buf := make([]byte, 20480)
		for i, m := range sent {
			n, err := r.Read(buf)
			if err != nil {
				t.Fatalf("VERIF-VIOLATION property=C05 sub=fuzz file=- sig=framing: message %d of %d (%d bytes): Read failed with %v", i, len(sent), len(m), err)
			}
			if !bytes.Equal(buf[:n], m) {
				t.Fatalf("VERIF-VIOLATION property=C05 sub=fuzz file=- sig=framing: message %d: read %d bytes, want the %d bytes written", i, n, len(m))
			}
		}
		if n, err := r.Read(buf); err == nil {
			t.Fatalf("VERIF-VIOLATION property=C05 sub=fuzz file=- sig=framing: %d extra bytes delivered after the last message", n)
		}
		l.B.Close()
	})
}
