package common

import (
	"bytes"
	"fmt"
	"sync"
	"testing"
	"time"

	vk "github.com/cbeuw/Cloak/internal/verifkit"
	"pgregory.net/rapid"
)

// C05 (5) Stall, virtual clock: the path stops draining in the middle of a record - the sender's socket buffer is full,
// a write is half-way through - for seconds or minutes, then recovers (congestion: no reset, no EOF). 1-3 goroutines
// write their messages one after the other on one TLSConn; the link behaves like a TCP socket with a full send buffer
// (a Write hands over what fits and waits with the rest; a write deadline, should the code under test set one, ends the
// wait with a timeout after a partial write). Oracle: what the reader is handed is exactly the sequence of messages
// whose Write returned without error - each by one Read, whole, unaltered, per writer in order - whatever became of the
// others; in particular a failed write is never followed by a delivered message that is not one of those written.

type c05Stall struct {
	Writers [][]int // message lengths per writer
	Buffer  int     // bytes the path takes before it blocks
	StallS  int     // virtual seconds until it drains again
}

func c05StallRun(t *testing.T) func(c c05Stall) (vk.Result, error) {
	return func(c c05Stall) (vk.Result, error) {
		res := vk.Result{NonTrivial: true}
		var verr error
		berr := vk.Bubble(t, func() {
			l := vk.NewLink(0, false)
			l.SetAuto(vk.BtoA, true)
			l.SetLimit(vk.AtoB, c.Buffer)
			l.SetPartialWrites(vk.AtoB, true)
			wc, rc := NewTLSConn(l.A), NewTLSConn(l.B)
			type wres struct {
				writer, idx int
				err         error
			}
			var mu sync.Mutex
			var done []wres
			var wg sync.WaitGroup
			for w, lens := range c.Writers {
				wg.Add(1)
				go func(w int, lens []int) {
					defer wg.Done()
					for i, n := range lens {
						_, err := wc.Write(c05Msg(w, i, n))
						mu.Lock()
						done = append(done, wres{w, i, err})
						mu.Unlock()
					}
				}(w, lens)
			}
			var got [][]byte
			var rerr error
			rdone := make(chan struct{})
			go func() {
				defer close(rdone)
				buf := make([]byte, 20480)
				for {
					n, err := rc.Read(buf)
					if err != nil {
						rerr = err
						return
					}
					got = append(got, append([]byte(nil), buf[:n]...))
				}
			}()
			time.Sleep(time.Duration(c.StallS) * time.Second)
			l.SetLimit(vk.AtoB, 0)
			l.SetAuto(vk.AtoB, true)
			wg.Wait()
			time.Sleep(time.Second)
			wc.Close()
			<-rdone
			_ = rerr
			// per writer: the messages whose Write succeeded, in order
			want := map[int][][]byte{}
			failed := 0
			for _, d := range done {
				if d.err != nil {
					failed++
					continue
				}
				want[d.writer] = append(want[d.writer], c05Msg(d.writer, d.idx, c.Writers[d.writer][d.idx]))
			}
			// equal messages of different writers (empty ones, say) make the assignment of reads to writers ambiguous:
			// it is searched, a violation needs that NO assignment explains what was read
			next := make([]int, len(c.Writers))
			deepest := 0
			var search func(k int) bool
			search = func(k int) bool {
				if k > deepest {
					deepest = k
				}
				if k == len(got) {
					for w := range c.Writers {
						if next[w] != len(want[w]) {
							return false
						}
					}
					return true
				}
				for w := range c.Writers {
					if next[w] < len(want[w]) && bytes.Equal(want[w][next[w]], got[k]) {
						next[w]++
						if search(k + 1) {
							return true
						}
						next[w]--
					}
				}
				return false
			}
			if !search(0) {
				nw := 0
				for w := range c.Writers {
					nw += len(want[w])
				}
				if deepest < len(got) {
					verr = vk.ViolateSig("stall-framing", "read #%d returned %d bytes that are not the next whole message of any writer (path blocked after %d bytes for %d s, then drained; %d of the writes had failed) - a message is received by exactly one read, whole and unaltered", deepest, len(got[deepest]), c.Buffer, c.StallS, failed)
				} else {
					verr = vk.ViolateSig("stall-lost", "%d messages were handed to the reader, %d writes had returned without error: some were never delivered although the path recovered (blocked after %d bytes for %d s; %d writes had failed)", len(got), nw, c.Buffer, c.StallS, failed)
				}
				return
			}
			if failed > 0 {
				res.Labels = append(res.Labels, "some-writes-failed")
			}
			res.Labels = append(res.Labels, fmt.Sprintf("stall=%ds", c.StallS))
		})
		if verr == nil && berr != nil {
			verr = fmt.Errorf("harness: bubble: %v", berr)
		}
		return res, verr
	}
}

func TestVerif_C05_Stall(t *testing.T) {
	vk.Run(t, "C05", "Stall", func(rt *rapid.T) c05Stall {
		c := c05Stall{Buffer: rapid.OneOf(rapid.IntRange(1, 40), rapid.IntRange(1, 40000)).Draw(rt, "buffer"),
			StallS: rapid.SampledFrom([]int{1, 5, 29, 31, 61, 130, 400, 3700}).Draw(rt, "stall")}
		size := rapid.OneOf(rapid.IntRange(0, 50), rapid.IntRange(0, 16384), rapid.SampledFrom([]int{1000, 16384}))
		for w, nw := 0, rapid.IntRange(1, 3).Draw(rt, "writers"); w < nw; w++ {
			var l []int
			for i, n := 0, rapid.IntRange(1, 5).Draw(rt, "msgs"); i < n; i++ {
				l = append(l, size.Draw(rt, "len"))
			}
			c.Writers = append(c.Writers, l)
		}
		return c
	}, c05StallRun(t))
}
