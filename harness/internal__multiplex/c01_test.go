package multiplex

import (
	"encoding/hex"
	"fmt"
	"net"
	"testing"
	"testing/synctest"

	"github.com/cbeuw/Cloak/internal/common"

	vk "github.com/cbeuw/Cloak/internal/verifkit"
	"pgregory.net/rapid"
)

// C01 (layer 1) - ordered streams deliver exactly the bytes written, per stream, in both directions, for any
// cross-connection arrival order and segmentation.

const vMaxUnit = 16401 - frameHeaderLength - maxExtraLen

func genKey(rt *rapid.T) string {
	return hex.EncodeToString(rapid.SliceOfN(rapid.Byte(), 32, 32).Draw(rt, "key"))
}

func genSize(rt *rapid.T) int {
	return rapid.OneOf(
		rapid.Just(1),
		rapid.IntRange(2, 100),
		rapid.IntRange(101, 3000),
		rapid.SampledFrom([]int{vMaxUnit - 1, vMaxUnit, vMaxUnit + 1}),
		rapid.IntRange(vMaxUnit+2, 5*vMaxUnit),
	).Draw(rt, "size")
}

func genCfg(rt *rapid.T, unordered bool) rigCfg {
	cfg := rigCfg{Unordered: unordered}
	cfg.Method = rapid.SampledFrom(vAllMethods).Draw(rt, "method")
	cfg.NumConn = rapid.IntRange(0, 8).Draw(rt, "numconn")
	if cfg.NumConn == 0 {
		cfg.NumConn = 1
		cfg.Singleplex = true
	}
	cfg.Seed = rapid.Uint64Range(0, 1<<20).Draw(rt, "seed")
	cfg.Key = genKey(rt)
	return cfg
}

func genDeliver(rt *rapid.T, nconn int) rigOp {
	op := rigOp{K: "deliver"}
	op.Side = rapid.IntRange(0, 1).Draw(rt, "dside")
	op.C = rapid.IntRange(0, nconn-1).Draw(rt, "conn")
	op.Mode = rapid.SampledFrom([]int{0, 0, 0, 1, 1, 2}).Draw(rt, "mode")
	if op.Mode == 1 {
		op.N = rapid.SampledFrom([]int{0, 1, 2, 300, 500, 990, 999}).Draw(rt, "permille")
	}
	return op
}

func c01Gen(maxStreams, maxOps int) func(rt *rapid.T) rigScenario {
	return func(rt *rapid.T) rigScenario {
		sc := rigScenario{Cfg: genCfg(rt, false)}
		nStreams := 1
		if !sc.Cfg.Singleplex {
			nStreams = rapid.IntRange(1, maxStreams).Draw(rt, "nstreams")
		}
		opened := 0
		sc.Ops = append(sc.Ops, rigOp{K: "open"})
		opened++
		nOps := rapid.IntRange(1, maxOps).Draw(rt, "nops")
		for i := 0; i < nOps; i++ {
			k := rapid.IntRange(0, 99).Draw(rt, "kind")
			switch {
			case k < 8 && opened < nStreams:
				sc.Ops = append(sc.Ops, rigOp{K: "open"})
				opened++
			case k < 45:
				sc.Ops = append(sc.Ops, rigOp{K: "write", Side: rapid.IntRange(0, 1).Draw(rt, "side"), S: rapid.IntRange(0, opened-1).Draw(rt, "s"), N: genSize(rt)})
			case k < 82:
				sc.Ops = append(sc.Ops, genDeliver(rt, sc.Cfg.NumConn))
			case k < 86:
				// this end is drained the way the relays do it from now on: io.Copy (Stream.WriteTo if there is one)
				sc.Ops = append(sc.Ops, rigOp{K: "readall", Side: rapid.IntRange(0, 1).Draw(rt, "side"), S: rapid.IntRange(0, opened-1).Draw(rt, "s")})
			default:
				sc.Ops = append(sc.Ops, rigOp{K: "read", Side: rapid.IntRange(0, 1).Draw(rt, "side"), S: rapid.IntRange(0, opened-1).Draw(rt, "s"),
					N: rapid.SampledFrom([]int{1, 7, 100, 4096, 16132, 70000}).Draw(rt, "buf")})
			}
		}
		return sc
	}
}

func c01Invariant(r *rig, phase string) error {
	for side := 0; side < 2; side++ {
		if r.sesh[side].IsClosed() {
			return vk.Violatef("%s: session on side %d closed itself although every connection is healthy and nobody closed it (terminal message %q)", phase, side, r.sesh[side].TerminalMsg())
		}
	}
	for _, s := range r.allStreams() {
		if s.wrBusy {
			return vk.Violatef("%s: Write of %d bytes on stream %d side %d did not return although the network accepts everything", phase, s.wrSize, s.id, s.side)
		}
		if s.wrErr != nil {
			return vk.Violatef("%s: Write on stream %d side %d failed on a healthy session: %v", phase, s.id, s.side, s.wrErr)
		}
		if s.rdErr != nil {
			return vk.Violatef("%s: Read on stream %d side %d failed on a healthy session: %v", phase, s.id, s.side, s.rdErr)
		}
	}
	return nil
}

func c01Final(r *rig) error {
	for _, s := range r.allStreams() {
		peer := r.peerOf(s)
		if peer == nil {
			if s.accepted > 0 {
				return vk.Violatef("stream %d: %d bytes written by side %d but the peer never saw the stream", s.id, s.accepted, s.side)
			}
			continue
		}
		if peer.got != s.accepted {
			return vk.Violatef("stream %d: side %d wrote %d bytes, peer read %d after everything was delivered (bytes lost)", s.id, s.side, s.accepted, peer.got)
		}
	}
	return nil
}

func c01Run(t *testing.T) func(sc rigScenario) (vk.Result, error) {
	return func(sc rigScenario) (vk.Result, error) {
		var res vk.Result
		var verr error
		berr := vk.Bubble(t, func() {
			r, err := newRig(t, sc.Cfg)
			if err != nil {
				verr = fmt.Errorf("harness: %v", err)
				return
			}
			defer r.teardown()
			for i, op := range sc.Ops {
				if verr = r.step(op); verr != nil {
					return
				}
				if verr = c01Invariant(r, fmt.Sprintf("after op %d (%s)", i, op.K)); verr != nil {
					return
				}
			}
			if verr = r.drain(); verr != nil {
				return
			}
			if verr = c01Invariant(r, "after final drain"); verr != nil {
				return
			}
			verr = c01Final(r)
			res.NonTrivial = r.overtakes > 0 || r.splits > 0
			if r.overtakes > 0 {
				res.Labels = append(res.Labels, "frame-overtook-lower-frame-on-other-conn")
			}
			if r.splits > 0 {
				res.Labels = append(res.Labels, "record-delivered-in-segments")
			}
			res.Labels = append(res.Labels, "method="+vMethodNames[sc.Cfg.Method], fmt.Sprintf("conns=%d", sc.Cfg.NumConn))
			if sc.Cfg.Singleplex {
				res.Labels = append(res.Labels, "singleplex")
			}
			if n := len(r.allStreams()); n > 2 {
				res.Labels = append(res.Labels, "multi-stream")
			}
			for l := range r.labels {
				res.Labels = append(res.Labels, l)
			}
		})
		if verr == nil && berr != nil {
			verr = vk.Violatef("session goroutines left blocked or crashed at the end of a fault-free scenario: %v", berr)
		}
		return res, verr
	}
}

func TestVerif_C01_SessionPair(t *testing.T) {
	vk.Run(t, "C01", "SessionPair", c01Gen(6, 150), c01Run(t))
}

func TestVerif_C01_ManyStreams(t *testing.T) {
	vk.Run(t, "C01", "ManyStreams", c01Gen(300, 900), c01Run(t))
}

// ---- layer 2: a connection being added while streams are writing (schedule point addConn.betweenCountAndStore) ----

type c01AddRace struct {
	Cfg    rigCfg
	Pre    []rigOp
	Side   int     // side whose AddConnection is held at the point
	During []rigOp // writes issued while the adder is parked
	Post   []rigOp
}

func c01AddRaceRun(t *testing.T) func(sc c01AddRace) (vk.Result, error) {
	return func(sc c01AddRace) (vk.Result, error) {
		res := vk.Result{}
		var verr error
		berr := vk.Bubble(t, func() {
			r, err := newRig(t, sc.Cfg)
			if err != nil {
				verr = fmt.Errorf("harness: %v", err)
				return
			}
			defer r.teardown()
			run := func(ops []rigOp, phase string) bool {
				for i, op := range ops {
					if verr = r.step(op); verr != nil {
						return false
					}
					if verr = c01Invariant(r, fmt.Sprintf("%s op %d (%s)", phase, i, op.K)); verr != nil {
						return false
					}
				}
				return true
			}
			if !run(sc.Pre, "before the new connection") {
				return
			}
			// new link: the held side adds it first
			l := vk.NewLink(len(r.links), true)
			r.links = append(r.links, l)
			r.delivered[0] = append(r.delivered[0], 0)
			r.delivered[1] = append(r.delivered[1], 0)
			ends := [2]net.Conn{common.NewTLSConn(l.A), common.NewTLSConn(l.B)}
			h := vArm("addConn.betweenCountAndStore")
			defer h.Release()
			go r.sesh[sc.Side].AddConnection(ends[sc.Side])
			synctest.Wait()
			held := h.IsReached()
			nWrites := 0
			for i, op := range sc.During {
				op.Side = sc.Side
				if op.K == "write" {
					nWrites++
				}
				if verr = r.step(op); verr != nil {
					return
				}
				if verr = c01Invariant(r, fmt.Sprintf("while a connection is being added, op %d (%s)", i, op.K)); verr != nil {
					if v, ok := verr.(*vk.Violation); ok {
						v.Sig = "addconn-publish-race"
					}
					return
				}
			}
			h.Release()
			synctest.Wait()
			r.sesh[1-sc.Side].AddConnection(ends[1-sc.Side])
			synctest.Wait()
			if !run(sc.Post, "after the new connection") {
				return
			}
			if verr = r.drain(); verr != nil {
				return
			}
			if verr = c01Invariant(r, "after final drain"); verr != nil {
				return
			}
			verr = c01Final(r)
			res.NonTrivial = held && nWrites > 0
			if res.NonTrivial {
				res.Labels = append(res.Labels, "writes-while-adder-parked")
			}
		})
		if verr == nil && berr != nil {
			verr = vk.Violatef("goroutines left blocked or crashed: %v", firstLine(berr.Error()))
		}
		return res, verr
	}
}

func TestVerif_C01_AddConnRace(t *testing.T) {
	vk.Run(t, "C01", "AddConnRace", func(rt *rapid.T) c01AddRace {
		base := c01Gen(4, 30)(rt)
		for base.Cfg.Singleplex {
			base.Cfg.Singleplex = false
			base.Cfg.NumConn = rapid.IntRange(1, 4).Draw(rt, "nc2")
		}
		sc := c01AddRace{Cfg: base.Cfg, Pre: base.Ops, Side: rapid.IntRange(0, 1).Draw(rt, "side")}
		// make sure the held side has a stream it can write on: client writes first and it is delivered
		sc.Pre = append(sc.Pre, rigOp{K: "write", Side: 0, S: 0, N: 10})
		for c := 0; c < sc.Cfg.NumConn; c++ {
			sc.Pre = append(sc.Pre, rigOp{K: "deliver", Side: 0, C: c, Mode: 2})
		}
		n := rapid.IntRange(1, 12).Draw(rt, "nduring")
		for i := 0; i < n; i++ {
			sc.During = append(sc.During, rigOp{K: "write", S: 0, N: rapid.SampledFrom([]int{1, 100, vMaxUnit, 3 * vMaxUnit, 5 * vMaxUnit}).Draw(rt, "dn")})
		}
		m := rapid.IntRange(0, 10).Draw(rt, "npost")
		for i := 0; i < m; i++ {
			if rapid.Bool().Draw(rt, "pw") {
				sc.Post = append(sc.Post, rigOp{K: "write", Side: rapid.IntRange(0, 1).Draw(rt, "ps"), S: 0, N: genSize(rt)})
			} else {
				sc.Post = append(sc.Post, genDeliver(rt, sc.Cfg.NumConn+1))
			}
		}
		return sc
	}, c01AddRaceRun(t))
}
