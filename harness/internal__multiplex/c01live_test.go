package multiplex

import (
	"fmt"
	"io"
	"net"
	"sync"
	"sync/atomic"
	"testing"
	"time"

	"github.com/cbeuw/Cloak/internal/common"
	vk "github.com/cbeuw/Cloak/internal/verifkit"
	"pgregory.net/rapid"
)

// C01 (4) Liveness, real time: "while every underlying connection stays healthy and neither side closes it, a session
// with open streams keeps working". The connections get bounded buffers (back pressure) and a gate per direction.
// With all gates shut a generated batch of stream closes and large writes is issued on both sides (closing notices and
// data queue up, writers block in the connection); then the gates open in a generated order. Every call must
// return, a canary stream that nobody closes must keep carrying data both ways, and a fresh stream must work.
// A deadlock is only declared when nothing moved for 10 s AND two goroutine dumps a second apart show every
// goroutine inside Cloak blocked at the same place; a slow run is waited for (then exit 2), never a verdict.

type c01LiveOp struct {
	K    string // write close readfrom
	Side int
	S    int // stream 1..Streams-1 (0 is the canary)
	N    int
}

type c01Live struct {
	Method    byte
	Key       string
	NumConn   int
	Limit     int
	Streams   int
	Unordered bool
	Ops       []c01LiveOp
	GateOrder int // 0: client->server first, 1: server->client first, 2: interleaved per connection
}

type c01LiveWait struct {
	progress *int64
}

// wait blocks until cond() holds. It returns a violation if the system is provably stuck, a harness error if it is
// merely slow for 5 minutes.
func (w c01LiveWait) wait(what string, cond func() bool) error {
	start := time.Now()
	last := atomic.LoadInt64(w.progress)
	lastChange := time.Now()
	for !cond() {
		time.Sleep(2 * time.Millisecond)
		if p := atomic.LoadInt64(w.progress); p != last {
			last, lastChange = p, time.Now()
		}
		if time.Since(lastChange) > 10*time.Second {
			if stuck, where := vk.StuckForGood(time.Second); stuck && !cond() && atomic.LoadInt64(w.progress) == last {
				return vk.ViolateSig("session-stalled", "all connections are healthy and nobody closed the session, but it stopped working while waiting for %s: nothing moved for 10 s and every goroutine inside Cloak is blocked for good (%s)", what, where)
			}
			lastChange = time.Now()
		}
		if time.Since(start) > 5*time.Minute {
			return fmt.Errorf("harness: still waiting for %s after 5 minutes, goroutines are not provably stuck", what)
		}
	}
	return nil
}

func c01LiveRun(sc c01Live) (vk.Result, error) {
	res := vk.Result{}
	key := vKey(sc.Key)
	mk := func() SessionConfig {
		obfs, _ := MakeObfuscator(sc.Method, key)
		return SessionConfig{Obfuscator: obfs, MsgOnWireSizeLimit: 16401, Unordered: sc.Unordered, InactivityTimeout: time.Hour}
	}
	cli, srv := MakeSession(7, mk()), MakeSession(7, mk())
	// a stalled session may not even be able to close: never wait for it
	defer func() {
		go cli.Close()
		go srv.Close()
	}()
	var links []*vk.Link
	for i := 0; i < sc.NumConn; i++ {
		l := vk.NewLink(i, false)
		for _, d := range []vk.Dir{vk.AtoB, vk.BtoA} {
			l.SetAuto(d, true)
			l.SetLimit(d, sc.Limit)
		}
		links = append(links, l)
		cli.AddConnection(common.NewTLSConn(l.A))
		srv.AddConnection(common.NewTLSConn(l.B))
	}
	var progress int64
	w := c01LiveWait{&progress}
	// accept loop on the server
	var amu sync.Mutex
	accepted := map[uint32]*Stream{}
	go func() {
		for {
			c, err := srv.Accept()
			if err != nil {
				return
			}
			st := c.(*Stream)
			amu.Lock()
			accepted[st.id] = st
			amu.Unlock()
			atomic.AddInt64(&progress, 1)
		}
	}()
	type end struct {
		st   *Stream
		got  int64
		rerr atomic.Value
	}
	ends := [2][]*end{}
	reader := func(e *end) {
		buf := make([]byte, 70000)
		for {
			n, err := e.st.Read(buf)
			if n > 0 {
				atomic.AddInt64(&e.got, int64(n))
				atomic.AddInt64(&progress, 1)
			}
			if err != nil {
				e.rerr.Store(err)
				atomic.AddInt64(&progress, 1)
				return
			}
		}
	}
	for i := 0; i < sc.Streams; i++ {
		st, err := cli.OpenStream()
		if err != nil {
			return res, fmt.Errorf("harness: OpenStream: %v", err)
		}
		if _, err := st.Write([]byte{1}); err != nil {
			return res, vk.Violatef("first write on a fresh stream of a healthy session failed: %v", err)
		}
		id := st.id
		var sst *Stream
		if err := w.wait("the server to accept a stream", func() bool {
			amu.Lock()
			defer amu.Unlock()
			sst = accepted[id]
			return sst != nil
		}); err != nil {
			return res, err
		}
		if _, err := sst.Write([]byte{2}); err != nil {
			return res, vk.Violatef("first write on an accepted stream of a healthy session failed: %v", err)
		}
		ce, se := &end{st: st}, &end{st: sst}
		ends[0], ends[1] = append(ends[0], ce), append(ends[1], se)
		go reader(ce)
		go reader(se)
	}
	if err := w.wait("the warm-up bytes", func() bool {
		for side := 0; side < 2; side++ {
			for _, e := range ends[side] {
				if atomic.LoadInt64(&e.got) < 1 {
					return false
				}
			}
		}
		return true
	}); err != nil {
		return res, err
	}
	// gates shut
	for _, l := range links {
		l.SetAuto(vk.AtoB, false)
		l.SetAuto(vk.BtoA, false)
	}
	var done []chan struct{}
	closedBy := map[int][2]bool{}
	busy := map[[2]int]bool{}
	blockedWrites, closesOfWrittenStreams := 0, 0
	for _, op := range sc.Ops {
		s := 1 + op.S%(sc.Streams-1)
		side := op.Side % 2
		k := [2]int{side, s}
		if busy[k] {
			continue // one pending call per stream end
		}
		busy[k] = true
		e := ends[side][s]
		ch := make(chan struct{})
		done = append(done, ch)
		switch op.K {
		case "close":
			cb := closedBy[s]
			cb[side] = true
			closedBy[s] = cb
			if busy[[2]int{1 - side, s}] {
				closesOfWrittenStreams++
			}
			go func() {
				defer close(ch)
				e.st.Close()
				atomic.AddInt64(&progress, 1)
			}()
		default:
			n := op.N
			if sc.Unordered && n > vMaxUnit {
				n = vMaxUnit
			}
			if n > sc.Limit {
				blockedWrites++
			}
			go func() {
				defer close(ch)
				if op.K == "readfrom" && !sc.Unordered {
					e.st.ReadFrom(&chunkReader{tag: 1, chunks: []int{n}})
				} else {
					e.st.Write(make([]byte, n))
				}
				atomic.AddInt64(&progress, 1)
			}()
		}
		time.Sleep(500 * time.Microsecond)
	}
	time.Sleep(3 * time.Millisecond)
	// canary traffic is queued too
	canary := make([]byte, 3000)
	cdone := make(chan error, 2)
	for side := 0; side < 2; side++ {
		go func(side int) {
			_, err := ends[side][0].st.Write(canary)
			cdone <- err
		}(side)
	}
	time.Sleep(time.Millisecond)
	// gates open
	open := func(l *vk.Link, d vk.Dir) { l.SetAuto(d, true); time.Sleep(300 * time.Microsecond) }
	switch sc.GateOrder % 3 {
	case 0:
		for _, l := range links {
			open(l, vk.AtoB)
		}
		for _, l := range links {
			open(l, vk.BtoA)
		}
	case 1:
		for _, l := range links {
			open(l, vk.BtoA)
		}
		for _, l := range links {
			open(l, vk.AtoB)
		}
	default:
		for _, l := range links {
			open(l, vk.AtoB)
			open(l, vk.BtoA)
		}
	}
	if err := w.wait("the queued Write/Close calls to return", func() bool {
		for _, ch := range done {
			select {
			case <-ch:
			default:
				return false
			}
		}
		return true
	}); err != nil {
		return res, err
	}
	for i := 0; i < 2; i++ {
		var err error
		if werr := w.wait("the canary writes", func() bool {
			select {
			case err = <-cdone:
				return true
			default:
				return false
			}
		}); werr != nil {
			return res, werr
		}
		if err != nil {
			return res, vk.Violatef("a write on a stream nobody closed failed on a healthy session: %v (client session closed=%v, server session closed=%v)", err, cli.IsClosed(), srv.IsClosed())
		}
	}
	if err := w.wait("the canary stream to carry its data both ways", func() bool {
		return atomic.LoadInt64(&ends[0][0].got) >= 1+int64(len(canary)) && atomic.LoadInt64(&ends[1][0].got) >= 1+int64(len(canary)) || cli.IsClosed() || srv.IsClosed()
	}); err != nil {
		return res, err
	}
	if cli.IsClosed() || srv.IsClosed() {
		return res, vk.Violatef("the session closed itself although every connection is healthy and nobody closed it (client closed=%v, server closed=%v)", cli.IsClosed(), srv.IsClosed())
	}
	// a fresh stream works
	st, err := cli.OpenStream()
	if err != nil {
		return res, vk.Violatef("OpenStream on a healthy session failed: %v", err)
	}
	if _, err := st.Write([]byte("ping")); err != nil {
		return res, vk.Violatef("write on a fresh stream of a healthy session failed: %v", err)
	}
	var sst *Stream
	if err := w.wait("the server to accept a fresh stream", func() bool {
		amu.Lock()
		defer amu.Unlock()
		sst = accepted[st.id]
		return sst != nil
	}); err != nil {
		return res, err
	}
	got := make(chan error, 1)
	go func() {
		b := make([]byte, 4)
		_, err := io.ReadFull(sst, b)
		atomic.AddInt64(&progress, 1)
		got <- err
	}()
	var rerr error
	if err := w.wait("the fresh stream's first bytes", func() bool {
		select {
		case rerr = <-got:
			return true
		default:
			return false
		}
	}); err != nil {
		return res, err
	}
	if rerr != nil {
		return res, vk.Violatef("reading from a fresh stream of a healthy session failed: %v", rerr)
	}
	res.NonTrivial = blockedWrites > 0 && closesOfWrittenStreams > 0
	if blockedWrites > 0 {
		res.Labels = append(res.Labels, "writers-blocked-by-back-pressure")
	}
	if closesOfWrittenStreams > 0 {
		res.Labels = append(res.Labels, "stream-closed-by-peer-while-being-written")
	}
	res.Labels = append(res.Labels, fmt.Sprintf("conns=%d", sc.NumConn))
	var _ net.Conn
	return res, nil
}

func TestVerif_C01_Liveness(t *testing.T) {
	vk.Run(t, "C01", "Liveness", func(rt *rapid.T) c01Live {
		sc := c01Live{Method: rapid.SampledFrom(vAllMethods).Draw(rt, "method"), Key: genKey(rt), NumConn: rapid.IntRange(1, 3).Draw(rt, "numconn"),
			Limit: rapid.SampledFrom([]int{20000, 40000, 65536}).Draw(rt, "limit"), Streams: rapid.IntRange(3, 6).Draw(rt, "streams"), GateOrder: rapid.IntRange(0, 2).Draw(rt, "gates")}
		// for some streams: one side closes, then the other side writes more than the buffers hold (in both roles)
		for s := 0; s < sc.Streams-1; s++ {
			closer := rapid.IntRange(0, 2).Draw(rt, "closer") // 2: nobody closes
			big := rapid.SampledFrom([]int{3 * sc.Limit * sc.NumConn, 2 * sc.Limit * sc.NumConn, 100000, 5000, 1}).Draw(rt, "size")
			kind := rapid.SampledFrom([]string{"write", "write", "readfrom"}).Draw(rt, "wkind")
			if closer < 2 {
				sc.Ops = append(sc.Ops, c01LiveOp{K: "close", Side: closer, S: s})
				sc.Ops = append(sc.Ops, c01LiveOp{K: kind, Side: 1 - closer, S: s, N: big})
			} else {
				sc.Ops = append(sc.Ops, c01LiveOp{K: kind, Side: rapid.IntRange(0, 1).Draw(rt, "wside"), S: s, N: big})
			}
		}
		// generated order of the batch
		perm := rapid.Permutation(sc.Ops).Draw(rt, "order")
		sc.Ops = perm
		return sc
	}, c01LiveRun)
}
