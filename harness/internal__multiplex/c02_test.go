package multiplex

import (
	"bytes"
	"fmt"
	"io"
	"testing"

	vk "github.com/cbeuw/Cloak/internal/verifkit"
	"pgregory.net/rapid"
)

// C02 - stream reassembly is independent of arrival order; the closing frame takes effect in sequence order only.

type c02Case struct {
	Base    uint64 // first sequence number expected (white-box nextRecvSeq)
	Sizes   []int  // payload size of frame i (seq Base+i); the closing frame (if any) is the last one
	Closing bool   // last frame is a stream-closing frame
	Order   []int  // arrival order: permutation of 0..n-1
	Drain   []bool // reader drains everything available after arrival k
	Reuse   bool   // the caller reuses one receive buffer for every arriving frame (as switchboard.deplex does)
	// ReadSizes (cyclic) are the reader's buffer sizes: 0 = 64 KiB, -1 = exactly half of what is readable at that
	// moment, -2 = exactly all of it, k > 0 = k bytes
	ReadSizes []int `json:",omitempty"`
}

func c02Payload(i int, size int, base uint64) []byte {
	b := make([]byte, size)
	vFill(b, base+uint64(i)*31+1, 0)
	return b
}

func c02Run(c c02Case) (vk.Result, error) {
	n := len(c.Sizes)
	res := vk.Result{}
	if n == 0 || len(c.Order) != n {
		return res, fmt.Errorf("harness: malformed case")
	}
	identity := true
	for k, i := range c.Order {
		if i != k {
			identity = false
		}
	}
	res.NonTrivial = !identity
	if c.Order[0] != 0 {
		res.Labels = append(res.Labels, "first-arrival-not-lowest")
	}
	if c.Closing {
		res.Labels = append(res.Labels, "with-closing-frame")
		if c.Order[n-1] != n-1 {
			res.Labels = append(res.Labels, "closing-frame-overtakes-data")
		}
	}
	if c.Base > 1<<31 {
		res.Labels = append(res.Labels, "high-base-seq")
	}

	sb := NewStreamBuffer()
	sb.nextRecvSeq = c.Base
	// expected full byte stream
	var want []byte
	payloads := make([][]byte, n)
	for i := 0; i < n; i++ {
		payloads[i] = c02Payload(i, c.Sizes[i], c.Base)
		if !(c.Closing && i == n-1) {
			want = append(want, payloads[i]...)
		}
	}
	arrived := make([]bool, n)
	var got []byte
	next := 0 // model: number of frames handed over so far
	handedBytes := 0
	closedReported := false
	shared := make([]byte, 0, 65536)
	rbuf := make([]byte, 1<<16)
	nReads := 0
	target := func(avail int) []byte {
		if len(c.ReadSizes) == 0 {
			return rbuf
		}
		sz := c.ReadSizes[nReads%len(c.ReadSizes)]
		nReads++
		switch {
		case sz == -1:
			sz = (avail + 1) / 2
		case sz == -2:
			sz = avail
		case sz == 0:
			sz = len(rbuf)
		}
		if sz < 1 {
			sz = 1
		}
		if sz > len(rbuf) {
			rbuf = make([]byte, sz)
		}
		return rbuf[:sz]
	}
	for k, i := range c.Order {
		f := &Frame{StreamID: 1, Seq: c.Base + uint64(i)}
		if c.Closing && i == n-1 {
			f.Closing = closingStream
		}
		if c.Reuse {
			shared = append(shared[:0], payloads[i]...)
			f.Payload = shared
		} else {
			f.Payload = append([]byte(nil), payloads[i]...)
		}
		toBeClosed, err := sb.Write(f)
		if c.Reuse {
			// the receive buffer is overwritten by the next record
			for j := range shared {
				shared[j] = 0xEE
			}
		}
		if err != nil {
			return res, vk.Violatef("arrival %d (frame %d): Write returned error %v", k, i, err)
		}
		arrived[i] = true
		for next < n && arrived[next] && !(c.Closing && next == n-1) {
			handedBytes += c.Sizes[next]
			next++
		}
		wantClose := c.Closing && next == n-1 && arrived[n-1]
		if toBeClosed != (wantClose && !closedReported) {
			return res, vk.Violatef("arrival %d (frame %d): toBeClosed=%v, but model says %v (frames handed over: %d of %d, closing frame arrived: %v)",
				k, i, toBeClosed, wantClose && !closedReported, next, n, arrived[n-1])
		}
		if toBeClosed {
			closedReported = true
			// at this moment every lower payload must be readable
			if avail := sb.buf.buf.Len(); avail != len(want)-len(got) {
				return res, vk.Violatef("close reported while %d of the %d lower-numbered bytes are not readable", len(want)-len(got)-avail, len(want)-len(got))
			}
			sb.Close() // what Stream.recvFrame -> passiveClose does
		}
		if k < len(c.Drain) && c.Drain[k] {
			avail := sb.buf.buf.Len()
			if avail != handedBytes-len(got) {
				return res, vk.Violatef("after arrival %d: %d bytes readable, model expects %d", k, avail, handedBytes-len(got))
			}
			for avail > 0 {
				tb := target(avail)
				if have := sb.buf.buf.Len(); have != avail {
					return res, vk.Violatef("after arrival %d and %d reads: %d bytes readable, model expects %d (bytes handed over must stay readable until read)", k, nReads, have, avail)
				}
				m, err := sb.Read(tb)
				if err != nil {
					return res, vk.Violatef("Read returned %v with %d bytes available", err, avail)
				}
				if m > avail {
					return res, vk.Violatef("Read returned %d bytes, only %d had been handed over", m, avail)
				}
				got = append(got, tb[:m]...)
				avail -= m
			}
			if !bytes.Equal(got, want[:len(got)]) {
				return res, vk.Violatef("after arrival %d: bytes read are not the payloads in sequence order (first difference at %d)", k, firstDiff(got, want))
			}
		}
	}
	// final drain
	avail := sb.buf.buf.Len()
	if avail != len(want)-len(got) {
		return res, vk.Violatef("at the end %d bytes readable, model expects %d", avail, len(want)-len(got))
	}
	for avail > 0 {
		tb := target(avail)
		if have := sb.buf.buf.Len(); have != avail {
			return res, vk.Violatef("final drain after %d reads: %d bytes readable, model expects %d (bytes handed over must stay readable until read)", nReads, have, avail)
		}
		m, err := sb.Read(tb)
		if err != nil {
			return res, vk.Violatef("final Read returned %v", err)
		}
		if m > avail {
			return res, vk.Violatef("final Read returned %d bytes, only %d had been handed over", m, avail)
		}
		got = append(got, tb[:m]...)
		avail -= m
	}
	if !bytes.Equal(got, want) {
		return res, vk.Violatef("reassembled stream differs from payloads concatenated in sequence order (first difference at byte %d of %d)", firstDiff(got, want), len(want))
	}
	if c.Closing {
		if !closedReported {
			return res, vk.Violatef("closing frame never took effect")
		}
		if _, err := sb.Read(rbuf); err != io.EOF {
			return res, vk.Violatef("Read after the close took effect and data was drained returned %v, want EOF", err)
		}
	}
	return res, nil
}

func firstDiff(a, b []byte) int {
	for i := 0; i < len(a) && i < len(b); i++ {
		if a[i] != b[i] {
			return i
		}
	}
	if len(a) < len(b) {
		return len(a)
	}
	return len(b)
}

func permutations(n int, f func([]int) bool) {
	p := make([]int, n)
	for i := range p {
		p[i] = i
	}
	var rec func(k int) bool
	rec = func(k int) bool {
		if k == n {
			return f(p)
		}
		for i := k; i < n; i++ {
			p[k], p[i] = p[i], p[k]
			if !rec(k + 1) {
				return false
			}
			p[k], p[i] = p[i], p[k]
		}
		return true
	}
	rec(0)
}

func TestVerif_C02_Exhaustive(t *testing.T) {
	const prop, sub = "C02", "Exhaustive"
	vk.Direct(t, prop, sub, func(fail func(any, error)) {
		var rc c02Case
		if vk.ReplayScenario(prop, sub, &rc) {
			if _, err := c02Run(rc); err != nil {
				fail(rc, err)
			}
			return
		}
		if vk.InReplay() {
			return
		}
		maxN := vk.Scale(6, 8)
		stop := false
		var sampleKept int
		for n := 1; n <= maxN && !stop; n++ {
			sizes := make([]int, n)
			for i := range sizes {
				sizes[i] = 1 + (i*5)%4
			}
			// for n above 6 the reader schedules are sampled (all-drain / no-drain / alternating), orders stay exhaustive
			var drains [][]bool
			if n <= 6 {
				for mask := 0; mask < 1<<n; mask++ {
					d := make([]bool, n)
					for k := range d {
						d[k] = mask>>k&1 == 1
					}
					drains = append(drains, d)
				}
			} else {
				all, none, alt := make([]bool, n), make([]bool, n), make([]bool, n)
				for k := range all {
					all[k] = true
					alt[k] = k%2 == 0
				}
				drains = [][]bool{all, none, alt}
			}
			permutations(n, func(p []int) bool {
				ident := true
				for k, i := range p {
					if i != k {
						ident = false
					}
				}
				for _, closing := range []bool{false, true} {
					for _, d := range drains {
						c := c02Case{Sizes: sizes, Closing: closing, Order: append([]int(nil), p...), Drain: d, Reuse: true}
						if _, err := c02Run(c); err != nil {
							fail(c, err)
							stop = true
							return false
						}
					}
				}
				key := uint64(n) << 56
				for _, i := range p {
					key = key*9 + uint64(i)
				}
				if ident {
					vk.AddEvals(prop, sub, int64(2*len(drains)), "identity-order")
				} else {
					vk.AddDistinct(prop, sub, key, int64(2*len(drains)), fmt.Sprintf("n=%d", n))
					if sampleKept < 2 && n == 4 {
						sampleKept++
						vk.AddSample(prop, sub, c02Case{Sizes: sizes, Closing: true, Order: append([]int(nil), p...), Drain: drains[len(drains)/3], Reuse: true})
					}
				}
				return true
			})
		}
		vk.SetExhaustive(prop, sub, !stop)
		vk.SetExtra(prop, sub, "exhaustive_up_to_n_frames", maxN)
	})
}

func c02Gen(rt *rapid.T) c02Case {
	var c c02Case
	n := rapid.OneOf(rapid.IntRange(1, 12), rapid.IntRange(1, 200)).Draw(rt, "n")
	c.Base = rapid.SampledFrom([]uint64{0, 0, 1<<32 - uint64((n+1)/2), 1<<63 - uint64((n+1)/2), ^uint64(0) - uint64(n) + 1, 1 << 32, 12345}).Draw(rt, "base")
	c.Closing = rapid.Bool().Draw(rt, "closing")
	c.Reuse = rapid.Bool().Draw(rt, "reuse")
	c.Sizes = make([]int, n)
	big := rapid.IntRange(0, 9).Draw(rt, "bigness")
	for i := range c.Sizes {
		if big == 0 {
			c.Sizes[i] = rapid.SampledFrom([]int{1, 16132, 16131, 8000, 40000}).Draw(rt, "size")
		} else {
			c.Sizes[i] = rapid.IntRange(1, 40).Draw(rt, "size")
		}
	}
	kind := rapid.SampledFrom([]string{"random", "reverse", "nearly-sorted", "rotate", "identity"}).Draw(rt, "orderkind")
	order := make([]int, n)
	for i := range order {
		order[i] = i
	}
	switch kind {
	case "random":
		order = rapid.Permutation(order).Draw(rt, "perm")
	case "reverse":
		for i, j := 0, n-1; i < j; i, j = i+1, j-1 {
			order[i], order[j] = order[j], order[i]
		}
	case "nearly-sorted":
		k := rapid.IntRange(1, 8).Draw(rt, "k")
		for s := 0; s < n; s++ {
			j := s + rapid.IntRange(0, k).Draw(rt, "swap")
			if j < n {
				order[s], order[j] = order[j], order[s]
			}
		}
	case "rotate":
		r := rapid.IntRange(0, n-1).Draw(rt, "rot")
		order = append(order[r:], order[:r]...)
	}
	c.Order = order
	c.Drain = rapid.SliceOfN(rapid.Bool(), n, n).Draw(rt, "drain")
	if rapid.IntRange(0, 2).Draw(rt, "readsizes") > 0 {
		m := rapid.IntRange(1, 4).Draw(rt, "nrs")
		for i := 0; i < m; i++ {
			c.ReadSizes = append(c.ReadSizes, rapid.SampledFrom([]int{0, -1, -1, -2, 1, 100, 4096, 200000}).Draw(rt, "rs"))
		}
	}
	return c
}

func TestVerif_C02_Sampled(t *testing.T) {
	vk.Run(t, "C02", "Sampled", c02Gen, c02Run)
}
