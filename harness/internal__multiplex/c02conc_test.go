package multiplex

import (
	"bytes"
	"fmt"
	"sync"
	"sync/atomic"
	"testing"
	"time"

	vk "github.com/cbeuw/Cloak/internal/verifkit"
	"pgregory.net/rapid"
)

// C02 (3) Concurrent: the same reassembly statement when the frames arrive through several connections, i.e. are
// handed to the buffer by several goroutines at the same time (all on real cores, no virtual clock). A backlog is
// parked first; then the gap-filling frame and the frames that follow the backlog are released together on
// different "connections". Oracle: the reader receives the payloads concatenated in sequence-number order, and the
// closing frame takes effect (the buffer is closed, as Stream.recvFrame does) only after everything below it.

type c02Conc struct {
	Backlog int   // frames 1..Backlog are parked sequentially before the race (frame 0 missing)
	Tail    int   // frames Backlog+1 .. Backlog+Tail arrive during the race
	Conns   int   // goroutines delivering the raced frames (frame 0 is always on connection 0)
	Size    int   // payload size of the backlog frames
	Closing bool  // the last frame is a stream-closing frame
	Assign  []int // connection of raced frame j (j = 0: frame 0, j >= 1: frame Backlog+j)
}

func c02ConcRun(c c02Conc) (vk.Result, error) {
	res := vk.Result{NonTrivial: true}
	n := c.Backlog + c.Tail + 1
	sb := NewStreamBuffer()
	payload := func(i int) []byte {
		sz := c.Size
		if i == 0 || i > c.Backlog {
			sz = 1 + i%7
		}
		return c02Payload(i, sz, 0)
	}
	var want []byte
	for i := 0; i < n; i++ {
		if c.Closing && i == n-1 {
			break
		}
		want = append(want, payload(i)...)
	}
	var mu sync.Mutex
	var firstErr error
	deliver := func(i int) {
		f := &Frame{StreamID: 1, Seq: uint64(i), Payload: payload(i)}
		if c.Closing && i == n-1 {
			f.Closing = closingStream
		}
		toBeClosed, err := sb.Write(f)
		if err != nil {
			mu.Lock()
			if firstErr == nil {
				firstErr = vk.Violatef("frame %d: Write returned %v", i, err)
			}
			mu.Unlock()
		}
		if toBeClosed {
			sb.Close() // Stream.recvFrame -> passiveClose -> recvBuf.Close
		}
	}
	for i := 1; i <= c.Backlog; i++ {
		deliver(i)
	}
	// reader
	var got []byte
	var gotLen atomic.Int64
	rdone := make(chan struct{})
	go func() {
		defer close(rdone)
		buf := make([]byte, 1<<16)
		for len(got) < len(want) {
			m, err := sb.Read(buf)
			got = append(got, buf[:m]...)
			gotLen.Store(int64(len(got)))
			if err != nil {
				return
			}
		}
	}()
	perConn := make([][]int, c.Conns)
	for j := 0; j <= c.Tail; j++ {
		conn := 0
		if j < len(c.Assign) {
			conn = c.Assign[j] % c.Conns
		}
		if j == 0 {
			conn = 0
			perConn[conn] = append(perConn[conn], 0)
		} else {
			perConn[conn] = append(perConn[conn], c.Backlog+j)
		}
	}
	start := make(chan struct{})
	var wg sync.WaitGroup
	for _, frames := range perConn {
		wg.Add(1)
		go func(frames []int) {
			defer wg.Done()
			<-start
			for _, i := range frames {
				deliver(i)
			}
		}(frames)
	}
	close(start)
	wg.Wait()
	if !c.Closing {
		sb.Close()
	}
	// every frame has been delivered exactly once and every Write has returned: the reader must come to its end. It is
	// declared stuck only when nothing was handed over for 2 s AND it is parked in the same place in two goroutine
	// dumps with nothing else inside the code under test able to run
	last, lastChange, begin := int64(-1), time.Now(), time.Now()
waitReader:
	for {
		select {
		case <-rdone:
			break waitReader
		case <-time.After(20 * time.Millisecond):
		}
		if g := gotLen.Load(); g != last {
			last, lastChange = g, time.Now()
			continue
		}
		if time.Since(lastChange) > 2*time.Second {
			if stuck, where := vk.StuckForGood(500 * time.Millisecond); stuck && gotLen.Load() == last {
				go sb.Close() // release the reader
				return res, vk.ViolateSig("tail-never-handed-over", "every one of the %d frames was delivered exactly once (backlog of %d behind a gap, gap filler and %d followers on %d connections, closing frame: %v), but the reader was handed only %d of %d bytes and waits for ever (%s)", n, c.Backlog, c.Tail, c.Conns, c.Closing, last, len(want), where)
			}
			lastChange = time.Now()
		}
		if time.Since(begin) > 5*time.Minute {
			return res, fmt.Errorf("harness: the reader is still going after 5 minutes and is not provably stuck")
		}
	}
	if firstErr != nil {
		return res, firstErr
	}
	if !bytes.Equal(got, want) {
		if len(got) < len(want) && bytes.Equal(got, want[:len(got)]) {
			return res, vk.ViolateSig("early-close", "the reader got end-of-stream after %d of %d bytes: the closing frame took effect before every lower-numbered frame had been handed over (backlog %d frames, gap filler and closing frame on different connections)", len(got), len(want), c.Backlog)
		}
		return res, vk.ViolateSig("order", "the reader did not receive the payloads concatenated in sequence-number order (first difference at byte %d of %d; backlog %d frames, %d frames racing on %d connections)", firstDiff(got, want), len(want), c.Backlog, c.Tail+1, c.Conns)
	}
	res.Labels = append(res.Labels, fmt.Sprintf("conns=%d", c.Conns))
	if c.Closing {
		res.Labels = append(res.Labels, "closing-frame-raced")
	}
	return res, nil
}

func TestVerif_C02_Concurrent(t *testing.T) {
	vk.Run(t, "C02", "Concurrent", func(rt *rapid.T) c02Conc {
		c := c02Conc{Backlog: rapid.SampledFrom([]int{1, 8, 100, 1000, 3000}).Draw(rt, "backlog"), Tail: rapid.IntRange(1, 6).Draw(rt, "tail"), Conns: rapid.IntRange(2, 4).Draw(rt, "conns"),
			Size: rapid.SampledFrom([]int{1, 64, 4096, 16000}).Draw(rt, "size"), Closing: rapid.Bool().Draw(rt, "closing")}
		if c.Backlog*c.Size > 8<<20 {
			c.Size = 4096
		}
		c.Assign = append(c.Assign, 0, 1) // the frame right after the backlog is never on the gap filler's connection
		for j := 2; j <= c.Tail; j++ {
			c.Assign = append(c.Assign, rapid.IntRange(0, c.Conns-1).Draw(rt, "assign"))
		}
		return c
	}, c02ConcRun)
}
