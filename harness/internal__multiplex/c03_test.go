package multiplex

import (
	"fmt"
	"testing"

	vk "github.com/cbeuw/Cloak/internal/verifkit"
	"pgregory.net/rapid"
)

// C03 - closing a stream delivers everything written before it, then end-of-stream; writes fail and blocked
// reads return once closed; bytes that had arrived before a local Close stay readable.

func c03Gen(rt *rapid.T) rigScenario {
	sc := rigScenario{Cfg: genCfg(rt, false)}
	nStreams := 1
	if !sc.Cfg.Singleplex {
		nStreams = rapid.IntRange(1, 3).Draw(rt, "nstreams")
	}
	for i := 0; i < nStreams; i++ {
		sc.Ops = append(sc.Ops, rigOp{K: "open"})
	}
	// per stream: a closer side (0,1 or 2=both), pre-close payloads
	type plan struct{ closer int }
	plans := make([]plan, nStreams)
	for i := range plans {
		plans[i].closer = rapid.SampledFrom([]int{0, 1, 0, 1, 2}).Draw(rt, "closer")
	}
	// make sure the server has accepted each stream: the client writes first and it is delivered
	for i := 0; i < nStreams; i++ {
		if rapid.IntRange(0, 3).Draw(rt, "warm") > 0 {
			sc.Ops = append(sc.Ops, rigOp{K: "write", Side: 0, S: i, N: rapid.SampledFrom([]int{1, 5, 300}).Draw(rt, "n0")})
			for c := 0; c < sc.Cfg.NumConn; c++ {
				sc.Ops = append(sc.Ops, rigOp{K: "deliver", Side: 0, C: c, Mode: 2})
			}
		}
	}
	if sc.Cfg.NumConn >= 2 && rapid.IntRange(0, 9).Draw(rt, "raceshape") < 4 {
		// a tiny first frame, a long run of full frames, the close - nothing delivered yet; then the adaptive
		// delivery that parks the run behind the missing first frame and lets the gap filler race the closing notice
		nr := rapid.IntRange(1, 2).Draw(rt, "nraces")
		for j := 0; j < nr && j < nStreams; j++ {
			side := plans[j].closer
			if side == 2 {
				side = rapid.IntRange(0, 1).Draw(rt, "raceside")
			}
			sc.Ops = append(sc.Ops, rigOp{K: "write", Side: side, S: j, N: 1})
			sc.Ops = append(sc.Ops, rigOp{K: "write", Side: side, S: j, N: rapid.IntRange(3, 12).Draw(rt, "racerun")*vMaxUnit - rapid.IntRange(0, 50).Draw(rt, "raceless")})
			if rapid.Bool().Draw(rt, "racepark") {
				sc.Ops = append(sc.Ops, rigOp{K: "read", Side: 1 - side, S: j, N: 70000})
			}
			sc.Ops = append(sc.Ops, rigOp{K: "close", Side: side, S: j})
			sc.Ops = append(sc.Ops, rigOp{K: "raceclose", Side: side, S: j})
		}
	}
	if rapid.IntRange(0, 199).Draw(rt, "hugebacklog") == 0 {
		// megabytes arrive and stay unread, then the receiving side closes the stream without reading first
		// ("bytes that had already arrived locally remain readable after a local Close")
		side := rapid.IntRange(0, 1).Draw(rt, "hugeside")
		mb := rapid.SampledFrom([]int{5, 5, 1}).Draw(rt, "hugemb")
		for k := 0; k < mb*4; k++ {
			sc.Ops = append(sc.Ops, rigOp{K: "write", Side: side, S: 0, N: 16 * vMaxUnit})
			for c := 0; c < sc.Cfg.NumConn; c++ {
				sc.Ops = append(sc.Ops, rigOp{K: "deliver", Side: side, C: c, Mode: 2})
			}
		}
		sc.Ops = append(sc.Ops, rigOp{K: "write", Side: 1 - side, S: 0, N: 7})
		if plans[0].closer == 2 || plans[0].closer == 1-side {
			sc.Ops = append(sc.Ops, rigOp{K: "close", Side: 1 - side, S: 0})
		}
	}
	nOps := rapid.IntRange(1, 60).Draw(rt, "nops")
	for i := 0; i < nOps; i++ {
		k := rapid.IntRange(0, 99).Draw(rt, "kind")
		s := rapid.IntRange(0, nStreams-1).Draw(rt, "s")
		side := rapid.IntRange(0, 1).Draw(rt, "side")
		switch {
		case k < 30:
			n := rapid.OneOf(rapid.Just(1), rapid.IntRange(2, 400), rapid.SampledFrom([]int{vMaxUnit, vMaxUnit + 1, 3 * vMaxUnit, 5*vMaxUnit + 17})).Draw(rt, "n")
			sc.Ops = append(sc.Ops, rigOp{K: "write", Side: side, S: s, N: n})
		case k < 60:
			sc.Ops = append(sc.Ops, genDeliver(rt, sc.Cfg.NumConn))
		case k < 70:
			sc.Ops = append(sc.Ops, rigOp{K: "read", Side: side, S: s, N: rapid.SampledFrom([]int{1, 64, 5000, 70000}).Draw(rt, "buf")})
		case k < 75:
			// from now on this end is drained the way the relays do it: io.Copy (Stream.WriteTo if there is one)
			sc.Ops = append(sc.Ops, rigOp{K: "readall", Side: side, S: s})
		case k < 88:
			cl := plans[s].closer
			if cl == 2 || cl == side {
				sc.Ops = append(sc.Ops, rigOp{K: "close", Side: side, S: s})
			} else {
				sc.Ops = append(sc.Ops, genDeliver(rt, sc.Cfg.NumConn))
			}
		default:
			// burst: several frames, then the close, then record-by-record deliveries in a generated order
			cl := plans[s].closer
			if cl != 2 && cl != side {
				side = cl
			}
			nf := rapid.IntRange(1, 4).Draw(rt, "burstframes")
			sc.Ops = append(sc.Ops, rigOp{K: "write", Side: side, S: s, N: nf*vMaxUnit - rapid.IntRange(0, 50).Draw(rt, "less")})
			if rapid.Bool().Draw(rt, "parkreader") {
				sc.Ops = append(sc.Ops, rigOp{K: "read", Side: 1 - side, S: s, N: 70000})
			}
			sc.Ops = append(sc.Ops, rigOp{K: "close", Side: side, S: s})
			nd := rapid.IntRange(1, 8).Draw(rt, "burstdeliveries")
			for j := 0; j < nd; j++ {
				sc.Ops = append(sc.Ops, rigOp{K: "deliver", Side: side, C: rapid.IntRange(0, sc.Cfg.NumConn-1).Draw(rt, "bc"), Mode: rapid.SampledFrom([]int{0, 0, 1}).Draw(rt, "bm"), N: 500})
			}
		}
	}
	return sc
}

func c03Invariant(r *rig, phase string, final bool) error {
	for _, s := range r.allStreams() {
		peer := r.peerOf(s)
		_, peerCloseProcessed := r.recvState(s.id, dirOf(1-s.side))
		closedHere := s.closeDone || peerCloseProcessed
		if s.wrAfterCloseOK > 0 {
			return vk.Violatef("%s: stream %d side %d: a Write started after the stream was closed (locally or by a processed peer close) succeeded", phase, s.id, s.side)
		}
		if s.wrErr != nil && !r.sesh[s.side].IsClosed() {
			return vk.Violatef("%s: stream %d side %d: Write on an open stream failed: %v", phase, s.id, s.side, s.wrErr)
		}
		if s.wrBusy || s.closeBusy {
			return vk.Violatef("%s: stream %d side %d: Write/Close did not return", phase, s.id, s.side)
		}
		if closedHere && s.rdBusy {
			return vk.Violatef("%s: stream %d side %d: a Read stays blocked although the stream is closed (local close done=%v, peer close processed=%v)", phase, s.id, s.side, s.closeDone, peerCloseProcessed)
		}
		if s.rdErr != nil {
			if s.rdErr != ErrBrokenStream {
				return vk.Violatef("%s: stream %d side %d: Read returned %v, want the broken-stream error", phase, s.id, s.side, s.rdErr)
			}
			if !s.closeCalled {
				// this side never closed: the error may only come after every byte the peer wrote before closing
				if peer == nil || !peer.closeCalled {
					if !r.sesh[s.side].IsClosed() {
						return vk.Violatef("%s: stream %d side %d: end-of-stream although nobody closed the stream", phase, s.id, s.side)
					}
				} else if s.got != peer.accepted {
					return vk.Violatef("%s: stream %d side %d: end-of-stream after %d bytes, but the peer wrote %d bytes before closing (early end / lost tail)", phase, s.id, s.side, s.got, peer.accepted)
				}
			}
		}
		if s.closeCalled && s.closeDone && final {
			if s.got < s.handedAtClose {
				return vk.Violatef("stream %d side %d: %d bytes had arrived before the local Close but only %d could be read afterwards", s.id, s.side, s.handedAtClose, s.got)
			}
		}
		if final {
			if peer != nil && peer.closeCalled && !s.closeCalled {
				if s.got != peer.accepted {
					return vk.Violatef("stream %d: side %d wrote %d bytes then closed; the non-closing peer read %d", s.id, peer.side, peer.accepted, s.got)
				}
				if s.rdErr != ErrBrokenStream {
					return vk.Violatef("stream %d side %d: after reading everything the reader got %v instead of the broken-stream error", s.id, s.side, s.rdErr)
				}
			}
			if (peer == nil || !peer.closeCalled) && !s.closeCalled && peer != nil && !r.sesh[0].IsClosed() && !r.sesh[1].IsClosed() {
				if s.got != peer.accepted {
					return vk.Violatef("stream %d (never closed): side %d wrote %d bytes, peer read %d", s.id, peer.side, peer.accepted, s.got)
				}
			}
			if s.closeCalled && s.rdErr != ErrBrokenStream {
				return vk.Violatef("stream %d side %d: reads after a local Close ended with %v, want the broken-stream error after the buffered bytes", s.id, s.side, s.rdErr)
			}
		}
	}
	return nil
}

func c03Run(t *testing.T) func(sc rigScenario) (vk.Result, error) {
	return func(sc rigScenario) (vk.Result, error) {
		var res vk.Result
		var verr error
		berr := vk.Bubble(t, func() {
			r, err := newRig(t, sc.Cfg)
			if err != nil {
				verr = fmt.Errorf("harness: %v", err)
				return
			}
			defer r.teardown()
			for i, op := range sc.Ops {
				if verr = r.step(op); verr != nil {
					return
				}
				if verr = c03Invariant(r, fmt.Sprintf("after op %d (%s)", i, op.K), false); verr != nil {
					return
				}
			}
			if verr = r.drain(); verr != nil {
				return
			}
			verr = c03Invariant(r, "after final drain", true)
			res.NonTrivial = r.labels["closing-frame-overtakes-data"]
			for l := range r.labels {
				res.Labels = append(res.Labels, l)
			}
			nClosed, both := 0, 0
			for _, s := range r.allStreams() {
				if s.closeCalled {
					nClosed++
					if p := r.peerOf(s); p != nil && p.closeCalled {
						both++
					}
				}
			}
			if nClosed > 0 {
				res.Labels = append(res.Labels, "stream-closed")
			}
			if both > 0 {
				res.Labels = append(res.Labels, "closed-by-both-sides")
			}
			if sc.Cfg.Singleplex {
				res.Labels = append(res.Labels, "singleplex")
			}
			res.Labels = append(res.Labels, "method="+vMethodNames[sc.Cfg.Method])
		})
		if verr == nil && berr != nil {
			verr = vk.Violatef("goroutines left blocked or crashed: %v", berr)
		}
		return res, verr
	}
}

func TestVerif_C03_Close(t *testing.T) {
	vk.Run(t, "C03", "Close", c03Gen, c03Run(t))
}
