package multiplex

import (
	"bytes"
	"encoding/hex"
	"fmt"
	"runtime"
	"sync"
	"testing"

	vk "github.com/cbeuw/Cloak/internal/verifkit"
	"pgregory.net/rapid"
)

// C04 - frame codec round trip, size limit, wire format (against the independent reference codec in verifkit).

type c04Case struct {
	Method   byte
	Key      string // hex, 32 bytes
	StreamID uint32
	Seq      uint64
	Closing  uint8
	Len      int
	PayTag   uint64
	InPlace  bool
	Limit    int // MsgOnWireSizeLimit
	Repeat   int // number of encodes (samples the random padding)
}

func c04Check(c c04Case) (vk.Result, error) {
	res := vk.Result{NonTrivial: true}
	key := vKey(c.Key)
	obfs, err := MakeObfuscator(c.Method, key)
	if err != nil {
		return res, vk.Violatef("MakeObfuscator(%d): %v", c.Method, err)
	}
	// a server process holds sessions of several users with different methods: obfuscators of the other methods are
	// created after this one and before it is used - they must not influence each other
	for j := range vAllMethods {
		// rotating order, so that each of the other methods is the most recently constructed one in some cases
		if m := vAllMethods[int((uint64(j)+uint64(c.Len)+c.Seq%7)%uint64(len(vAllMethods)))]; m != c.Method {
			var k2 [32]byte
			k2[0] = byte(m)
			MakeObfuscator(m, k2)
		}
	}
	ref, err := vk.NewRefCodec(c.Method, key)
	if err != nil {
		return res, fmt.Errorf("harness: %v", err)
	}
	tagLen := ref.TagLen()
	payload := make([]byte, c.Len)
	vFill(payload, c.PayTag, 0)
	seqClass := "seq>=5"
	if c.Seq < 5 {
		seqClass = "seq<5"
	}
	res.Key = fmt.Sprintf("%d/%d/%s/%v/%d", c.Method, c.Len, seqClass, c.InPlace, c.Closing)
	res.Labels = []string{"method=" + vMethodNames[c.Method], seqClass, fmt.Sprintf("inplace=%v", c.InPlace)}
	rep := c.Repeat
	if rep < 1 {
		rep = 1
	}
	minPad, maxPad := 1<<30, -1
	for it := 0; it < rep; it++ {
		buf := make([]byte, c.Limit)
		f := &Frame{StreamID: c.StreamID, Seq: c.Seq, Closing: c.Closing}
		off := 0
		if c.InPlace {
			copy(buf[frameHeaderLength:], payload)
			f.Payload = buf[frameHeaderLength : frameHeaderLength+c.Len]
			off = frameHeaderLength
		} else {
			f.Payload = append([]byte(nil), payload...)
		}
		n, err := obfs.obfuscate(f, buf, off)
		if err != nil {
			return res, vk.Violatef("obfuscate failed for a legal frame (len %d, limit %d): %v", c.Len, c.Limit, err)
		}
		if n > c.Limit {
			return res, vk.Violatef("encoded message of %d bytes exceeds on-wire limit %d", n, c.Limit)
		}
		wire := append([]byte(nil), buf[:n]...)
		extra := n - frameHeaderLength - c.Len
		if extra < tagLen || extra > 255 {
			return res, vk.Violatef("extra length %d outside [%d,255]", extra, tagLen)
		}
		pad := extra - tagLen
		if pad < minPad {
			minPad = pad
		}
		if pad > maxPad {
			maxPad = pad
		}
		// (i) round trip under the repo's own decoder
		var g Frame
		in := append([]byte(nil), wire...)
		if err := obfs.deobfuscate(&g, in); err != nil {
			return res, vk.Violatef("deobfuscate(obfuscate(f)) failed: %v", err)
		}
		if g.StreamID != c.StreamID || g.Seq != c.Seq || g.Closing != c.Closing || !bytes.Equal(g.Payload, payload) {
			return res, vk.Violatef("round trip changed the frame: got id=%d seq=%d closing=%d len=%d want id=%d seq=%d closing=%d len=%d",
				g.StreamID, g.Seq, g.Closing, len(g.Payload), c.StreamID, c.Seq, c.Closing, c.Len)
		}
		// (ii) repo-encoded message decodes under the reference
		rf, err := ref.Decode(wire)
		if err != nil {
			return res, vk.Violatef("reference decoder rejects repo-encoded message: %v", err)
		}
		if rf.StreamID != c.StreamID || rf.Seq != c.Seq || rf.Closing != c.Closing || !bytes.Equal(rf.Payload, payload) || int(rf.ExtraLen) != extra {
			return res, vk.Violatef("reference decoder reads a different frame: id=%d seq=%d closing=%d len=%d extra=%d", rf.StreamID, rf.Seq, rf.Closing, len(rf.Payload), rf.ExtraLen)
		}
		// (ii') reference-encoded message decodes under the repo
		var tail [8]byte
		copy(tail[:], wire[len(wire)-8:])
		rwire := ref.Encode(vk.RefFrame{StreamID: c.StreamID, Seq: c.Seq, Closing: c.Closing, Payload: payload}, rf.Padding, tail)
		var h Frame
		if err := obfs.deobfuscate(&h, append([]byte(nil), rwire...)); err != nil {
			return res, vk.Violatef("repo decoder rejects reference-encoded message: %v", err)
		}
		if h.StreamID != c.StreamID || h.Seq != c.Seq || h.Closing != c.Closing || !bytes.Equal(h.Payload, payload) {
			return res, vk.Violatef("repo decoder reads a different frame from the reference encoding")
		}
		// (ii'') the same frame as an independent implementation with its OWN padding policy would send it: any padding
		// length the one-byte extra-length field can express, on any sequence number
		for _, pl := range []int{0, 1, 7, 100, 255 - tagLen} {
			if pl == pad {
				continue
			}
			p := make([]byte, pl)
			vFill(p, uint64(c.Len)*131+uint64(pl), 0)
			owire := ref.Encode(vk.RefFrame{StreamID: c.StreamID, Seq: c.Seq, Closing: c.Closing, Payload: payload}, p, tail)
			var o Frame
			if err := obfs.deobfuscate(&o, append([]byte(nil), owire...)); err != nil {
				return res, vk.ViolateSig("foreign-padding-rejected", "repo decoder rejects a valid message of an independent encoder that pads differently (seq %d, payload %d bytes, padding %d bytes, method %s): %v", c.Seq, c.Len, pl, vMethodNames[c.Method], err)
			}
			if o.StreamID != c.StreamID || o.Seq != c.Seq || o.Closing != c.Closing || !bytes.Equal(o.Payload, payload) {
				return res, vk.ViolateSig("foreign-padding-rejected", "repo decoder reads a different frame from an independent encoder's message with %d bytes of padding (seq %d, payload %d bytes)", pl, c.Seq, c.Len)
			}
		}
		// (iii) given the padding bytes (and, for plain, the random tail) the layout is deterministic:
		// byte-for-byte equality with the reference encoding pins nonce derivation, key use and field order
		if !bytes.Equal(rwire, wire) {
			return res, vk.Violatef("wire bytes differ from the reference encoding of the Cloak v2 layout (method %s, len %d, pad %d)", vMethodNames[c.Method], c.Len, pad)
		}
	}
	if maxPad > 255-tagLen {
		return res, vk.Violatef("padding %d exceeds 255-tag", maxPad)
	}
	if maxPad > 0 {
		res.Labels = append(res.Labels, "padded")
	}
	return res, nil
}

// (v) in-place and separate-buffer encodings are equivalent: for deterministic frames identical bytes.
func c04Placement(c c04Case) error {
	if c.Method == EncryptionMethodPlain || c.Seq < 5 {
		return nil
	}
	obfs, _ := MakeObfuscator(c.Method, vKey(c.Key))
	payload := make([]byte, c.Len)
	vFill(payload, c.PayTag, 0)
	b1 := make([]byte, c.Limit)
	copy(b1[frameHeaderLength:], payload)
	f1 := &Frame{StreamID: c.StreamID, Seq: c.Seq, Closing: c.Closing, Payload: b1[frameHeaderLength : frameHeaderLength+c.Len]}
	n1, err1 := obfs.obfuscate(f1, b1, frameHeaderLength)
	b2 := make([]byte, c.Limit)
	f2 := &Frame{StreamID: c.StreamID, Seq: c.Seq, Closing: c.Closing, Payload: payload}
	n2, err2 := obfs.obfuscate(f2, b2, 0)
	if err1 != nil || err2 != nil {
		return vk.Violatef("obfuscate failed: %v / %v", err1, err2)
	}
	if n1 != n2 || !bytes.Equal(b1[:n1], b2[:n2]) {
		return vk.Violatef("in-place and separate-buffer encodings differ (method %s len %d)", vMethodNames[c.Method], c.Len)
	}
	return nil
}

func TestVerif_C04_Lengths(t *testing.T) {
	const prop, sub = "C04", "Lengths"
	vk.Direct(t, prop, sub, func(fail func(any, error)) {
		var rc c04Case
		if vk.ReplayScenario(prop, sub, &rc) {
			if _, err := c04Check(rc); err != nil {
				fail(rc, err)
			} else if err := c04Placement(rc); err != nil {
				fail(rc, err)
			}
			return
		}
		if vk.InReplay() {
			return
		}
		limit := 16401 // what ck-client and ck-server configure (appDataMaxLength)
		sesh := MakeSession(0, SessionConfig{MsgOnWireSizeLimit: limit})
		maxLen := sesh.maxStreamUnitWrite
		sesh.Close()
		if maxLen+frameHeaderLength+maxExtraLen > limit {
			fail(map[string]int{"maxStreamUnitWrite": maxLen, "limit": limit}, vk.Violatef("per-frame payload maximum %d cannot fit the on-wire limit %d with full padding", maxLen, limit))
			return
		}
		type job struct {
			m byte
			l int
		}
		jobs := make(chan job, 256)
		var mu sync.Mutex
		var wg sync.WaitGroup
		stop := false
		for w := 0; w < runtime.NumCPU(); w++ {
			wg.Add(1)
			go func() {
				defer wg.Done()
				for j := range jobs {
					for _, inplace := range []bool{false, true} {
						for _, seq := range []uint64{uint64(j.l % 5), 5 + uint64(j.l)*0x1000193} {
							c := c04Case{Method: j.m, StreamID: uint32(j.l*7 + 1), Seq: seq, Closing: uint8(j.l % 2), Len: j.l, PayTag: uint64(j.l), InPlace: inplace, Limit: limit, Repeat: 1}
							c.Key = fmt.Sprintf("%02x00000000%02x%050x%02x", byte(j.l), byte(j.l>>8), 0, j.m)
							_, err := c04Check(c)
							if err == nil {
								err = c04Placement(c)
							}
							if err != nil {
								mu.Lock()
								if !stop {
									fail(c, err)
								}
								stop = true
								mu.Unlock()
							}
							vk.AddDistinct(prop, sub, uint64(j.m)<<40|uint64(j.l)<<8|seq%5<<1|b2u(inplace), 1, "method="+vMethodNames[j.m])
						}
					}
				}
			}()
		}
		for _, m := range vAllMethods {
			for l := 1; l <= maxLen; l++ {
				jobs <- job{m, l}
			}
		}
		close(jobs)
		wg.Wait()
		vk.SetExhaustive(prop, sub, true)
		vk.SetExtra(prop, sub, "max_payload", maxLen)
		vk.AddSample(prop, sub, c04Case{Method: 1, StreamID: 8, Seq: 6, Len: 1, Limit: limit, Repeat: 1})
		vk.AddSample(prop, sub, c04Case{Method: 2, StreamID: 8, Seq: 2, Len: maxLen, Limit: limit, Repeat: 1, InPlace: true})
		// one above the maximum must still fit or be refused, never overflow the buffer silently
		for _, m := range vAllMethods {
			obfs, _ := MakeObfuscator(m, [32]byte{1})
			buf := make([]byte, limit)
			f := &Frame{StreamID: 1, Seq: 0, Payload: make([]byte, maxLen+1)}
			n, err := obfs.obfuscate(f, buf, 0)
			if err == nil && n > limit {
				fail(c04Case{Method: m, Len: maxLen + 1, Limit: limit}, vk.Violatef("oversize frame encoded beyond the limit"))
			}
		}
	})
}

func b2u(b bool) uint64 {
	if b {
		return 1
	}
	return 0
}

func c04Gen(rt *rapid.T) c04Case {
	var c c04Case
	c.Method = rapid.SampledFrom(vAllMethods).Draw(rt, "method")
	c.Key = hex.EncodeToString(rapid.SliceOfN(rapid.Byte(), 32, 32).Draw(rt, "key"))
	c.StreamID = rapid.OneOf(rapid.Uint32(), rapid.SampledFrom([]uint32{0, 1, 0xffffffff, 0x80000000})).Draw(rt, "sid")
	c.Seq = rapid.OneOf(rapid.Uint64Range(0, 9), rapid.Uint64(), rapid.SampledFrom([]uint64{4, 5, 1 << 32, 1<<64 - 1, 1 << 63})).Draw(rt, "seq")
	c.Closing = rapid.SampledFrom([]uint8{0, 0, 1, 2, 255}).Draw(rt, "closing")
	c.Limit = rapid.SampledFrom([]int{16401, 16640}).Draw(rt, "limit")
	maxLen := c.Limit - frameHeaderLength - maxExtraLen
	c.Len = rapid.OneOf(rapid.IntRange(1, 64), rapid.IntRange(1, maxLen), rapid.SampledFrom([]int{1, maxLen, maxLen - 1, 1500, 8192})).Draw(rt, "len")
	c.PayTag = rapid.Uint64().Draw(rt, "paytag")
	c.InPlace = rapid.Bool().Draw(rt, "inplace")
	c.Repeat = 1
	if c.Seq < 5 {
		c.Repeat = 64
		if c.Len > 2048 {
			c.Repeat = 8
		}
	}
	return c
}

func TestVerif_C04_Random(t *testing.T) {
	vk.Run(t, "C04", "Random", c04Gen, func(c c04Case) (vk.Result, error) {
		res, err := c04Check(c)
		if err == nil {
			err = c04Placement(c)
		}
		res.Key = "" // distinct by full scenario
		return res, err
	})
}
