package multiplex

import (
	"fmt"
	"testing"

	vk "github.com/cbeuw/Cloak/internal/verifkit"
	"pgregory.net/rapid"
)

// C04 (3) OnTheWire: the interoperability half of C04 checked in situ. Whatever two live sessions put on their
// connections during a generated history of opens, writes, stream closes and - at the end - the closure of one of
// the sessions must be Cloak v2 messages under the session key: an independent decoder (kit/refcodec.go) decodes
// every record, the AEAD tag verifies, and the decoded header is one the history explains (a stream that was opened,
// or the session-closing notice). The frame-level checks (1) and (2) only see frames the harness asks the obfuscator
// for; this one sees those the session composes itself - closing frames, the session-closing notice - and the key the
// session uses at that moment.
func TestVerif_C04_OnTheWire(t *testing.T) {
	gen := func(rt *rapid.T) rigScenario {
		sc := c03Gen(rt)
		sc.Cfg.Plain = false
		if rapid.IntRange(0, 2).Draw(rt, "limited") == 0 {
			// a rate-limited user on the server side: its sends - closing notices included - wait for their allowance,
			// so that several of them are in progress at the same time; then the server closes its streams in a burst
			sc.Cfg.RxRate, sc.Cfg.TxRate = 1<<30, int64(rapid.SampledFrom([]int{300, 2000, 20000}).Draw(rt, "txrate"))
			for i := 0; i < 4; i++ {
				sc.Ops = append(sc.Ops, rigOp{K: "close", Side: sideS, S: i})
			}
			sc.Ops = append(sc.Ops, rigOp{K: "sleep", D: 120000})
		}
		sc.Ops = append(sc.Ops, rigOp{K: "sclose", Side: rapid.IntRange(0, 1).Draw(rt, "closingside")})
		return sc
	}
	vk.Run(t, "C04", "OnTheWire", gen, func(sc rigScenario) (vk.Result, error) {
		var res vk.Result
		var verr error
		berr := vk.Bubble(t, func() {
			r, err := newRig(t, sc.Cfg)
			if err != nil {
				verr = fmt.Errorf("harness: %v", err)
				return
			}
			defer r.teardown()
			for _, op := range sc.Ops {
				if verr = r.step(op); verr != nil {
					// content/ordering violations belong to C01/C03 and are reported there
					verr = nil
					return
				}
			}
			r.drain()
			opened := map[uint32]bool{}
			for _, s := range r.allStreams() {
				opened[s.id] = true
			}
			nRec, notice := 0, 0
			for li, l := range r.links {
				for _, d := range []vk.Dir{vk.AtoB, vk.BtoA} {
					recs, _ := vk.SplitTLSRecords(l.Wire(d))
					for k, rec := range recs {
						nRec++
						where := fmt.Sprintf("record %d on connection %d, direction %d (%d bytes)", k, li, d, len(rec.Body))
						f, err := r.ref.Decode(rec.Body)
						if err != nil {
							verr = vk.ViolateSig("wire-undecodable", "%s: a peer holding the session key cannot decode what the session sent: %v", where, err)
							return
						}
						switch {
						case f.StreamID == 0xffffffff && f.Closing == closingSession:
							notice++
						case opened[f.StreamID] && (f.Closing == closingNothing || f.Closing == closingStream):
						default:
							verr = vk.ViolateSig("wire-unexplained", "%s decodes to stream %d seq %d closing %d, which nothing in the history explains", where, f.StreamID, f.Seq, f.Closing)
							return
						}
					}
				}
			}
			res.NonTrivial = notice > 0 && nRec > 3
			if notice > 0 {
				res.Labels = append(res.Labels, "session-closing-notice-on-the-wire")
			}
			res.Labels = append(res.Labels, "method="+vMethodNames[sc.Cfg.Method])
			if sc.Cfg.TxRate > 0 {
				res.Labels = append(res.Labels, "rate-limited-sender:closes-in-a-burst")
			}
		})
		if verr == nil && berr != nil {
			verr = fmt.Errorf("harness: bubble: %v", berr)
		}
		return res, verr
	})
}
