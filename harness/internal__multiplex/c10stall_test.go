package multiplex

import (
	"fmt"
	"sync"
	"testing"
	"time"

	"github.com/cbeuw/Cloak/internal/common"
	vk "github.com/cbeuw/Cloak/internal/verifkit"
	"pgregory.net/rapid"
)

// C10 (4) Stall, virtual clock: one of a session's connections stops draining for a while - its send buffer fills, a
// write stays half-way through a record - and later recovers (no reset, no EOF: congestion). Whatever the session
// does about it meanwhile, every byte it puts on every connection belongs to an application-data record of version
// 3.3 and a length of 1..2^14+256, and (C01) what the streams deliver is what was written. The stalled direction of
// the link behaves like a TCP socket with a full send buffer: a Write hands over what fits and waits with the rest.

type c10Stall struct {
	Method  byte
	Key     string
	Conns   int
	Buffer  int // bytes the stalled connection takes before it blocks
	StallS  int // how long it stays blocked (virtual seconds)
	Streams int
	KB      int // written per stream
}

func c10StallRun(t *testing.T, sc c10Stall) (vk.Result, error) {
	res := vk.Result{}
	var verr error
	berr := vk.Bubble(t, func() {
		key := vKey(sc.Key)
		mk := func() SessionConfig {
			obfs, _ := MakeObfuscator(sc.Method, key)
			return SessionConfig{Obfuscator: obfs, MsgOnWireSizeLimit: 16401, InactivityTimeout: time.Hour}
		}
		cli, srv := MakeSession(3, mk()), MakeSession(3, mk())
		var links []*vk.Link
		for i := 0; i < sc.Conns; i++ {
			l := vk.NewLink(i, true)
			l.SetAuto(vk.BtoA, true)
			if i == 0 {
				// the connection that will stall: nothing is delivered, the send buffer holds sc.Buffer bytes
				l.SetLimit(vk.AtoB, sc.Buffer)
				l.SetPartialWrites(vk.AtoB, true)
			} else {
				l.SetAuto(vk.AtoB, true)
			}
			links = append(links, l)
			cli.AddConnection(common.NewTLSConn(l.A))
			srv.AddConnection(common.NewTLSConn(l.B))
		}
		total := sc.KB << 10
		var mu sync.Mutex
		got := map[uint32][]byte{}
		go func() {
			for {
				c, err := srv.Accept()
				if err != nil {
					return
				}
				st := c.(*Stream)
				go func() {
					buf := make([]byte, 1<<16)
					for {
						n, err := st.Read(buf)
						mu.Lock()
						got[st.id] = append(got[st.id], buf[:n]...)
						mu.Unlock()
						if err != nil {
							return
						}
					}
				}()
			}
		}()
		var streams []*Stream
		var wg sync.WaitGroup
		werrs := make([]error, sc.Streams)
		for i := 0; i < sc.Streams; i++ {
			st, err := cli.OpenStream()
			if err != nil {
				verr = fmt.Errorf("harness: %v", err)
				return
			}
			streams = append(streams, st)
			wg.Add(1)
			go func(i int, st *Stream) {
				defer wg.Done()
				b := make([]byte, 8192)
				for off := 0; off < total; off += len(b) {
					vFill(b, uint64(st.id)+500, uint64(off))
					if _, err := st.Write(b); err != nil {
						werrs[i] = err
						return
					}
				}
			}(i, st)
		}
		time.Sleep(time.Duration(sc.StallS) * time.Second)
		// the congestion clears
		links[0].SetLimit(vk.AtoB, 0)
		links[0].SetAuto(vk.AtoB, true)
		wg.Wait()
		time.Sleep(2 * time.Second)
		// ---- C10: the record stream of every connection, client -> server ----
		for li, l := range links {
			wire := l.Wire(vk.AtoB)
			recs, rest := vk.SplitTLSRecords(wire)
			for ri, rec := range recs {
				if rec.Type != 0x17 || rec.Version != 0x0303 || len(rec.Body) == 0 || len(rec.Body) > 16384+256 {
					verr = vk.ViolateSig("stall-wire", "connection %d (stalled for %d s: %v), client->server: record %d at offset %d has type %d version %04x length %d; every byte on a connection belongs to an application-data record (23, 0303, 1..16640)", li, sc.StallS, li == 0, ri, rec.Off, rec.Type, rec.Version, len(rec.Body))
					return
				}
			}
			if len(rest) >= 5 && (rest[0] != 0x17 || rest[1] != 3 || rest[2] != 3) {
				verr = vk.ViolateSig("stall-wire", "connection %d (stalled for %d s: %v), client->server: after %d well-formed records the bytes % x do not start an application-data record", li, sc.StallS, li == 0, len(recs), rest[:5])
				return
			}
			if len(rest) > 0 && !cli.IsClosed() && !srv.IsClosed() {
				verr = vk.ViolateSig("stall-wire", "connection %d: %d bytes of an unfinished record are left on the wire of a live session after everything was written", li, len(rest))
				return
			}
		}
		// ---- C01: nothing lost, nothing altered ----
		if cli.IsClosed() || srv.IsClosed() {
			verr = vk.ViolateSig("stall-session-closed", "a connection stalled for %d s and recovered - no connection failed, nobody closed anything - but the session closed itself (%q / %q)", sc.StallS, cli.TerminalMsg(), srv.TerminalMsg())
			return
		}
		for i, e := range werrs {
			if e != nil {
				verr = vk.ViolateSig("stall-write-failed", "stream %d: Write failed on a healthy session while one connection was congested: %v", i, e)
				return
			}
		}
		mu.Lock()
		snap := map[uint32][]byte{}
		for id, g := range got {
			snap[id] = g
		}
		mu.Unlock()
		for _, st := range streams {
			g := snap[st.id]
			if len(g) != total {
				verr = vk.ViolateSig("stall-content", "stream %d: %d of %d bytes were delivered after the congestion cleared", st.id, len(g), total)
				return
			}
			for off := 0; off < total; off++ {
				if g[off] != vPRF(uint64(st.id)+500, uint64(off%8192)+uint64(off/8192*8192)) {
					verr = vk.ViolateSig("stall-content", "stream %d: byte %d differs from what was written", st.id, off)
					return
				}
			}
		}
		res.NonTrivial = len(links[0].Wire(vk.AtoB)) > 0
		res.Labels = append(res.Labels, fmt.Sprintf("stall=%ds", sc.StallS), fmt.Sprintf("conns=%d", sc.Conns))
		go cli.Close()
		go srv.Close()
		time.Sleep(time.Second)
		for _, l := range links {
			l.A.Close()
			l.B.Close()
		}
	})
	if verr == nil && berr != nil {
		verr = fmt.Errorf("harness: bubble: %v", berr)
	}
	return res, verr
}

func TestVerif_C10_Stall(t *testing.T) {
	vk.Run(t, "C10", "Stall", func(rt *rapid.T) c10Stall {
		return c10Stall{Method: rapid.SampledFrom(vAllMethods).Draw(rt, "method"), Key: genKey(rt), Conns: rapid.IntRange(1, 4).Draw(rt, "conns"),
			Buffer:  rapid.SampledFrom([]int{1, 3, 100, 3000, 16000, 20000, 70000}).Draw(rt, "buffer"),
			StallS:  rapid.SampledFrom([]int{1, 10, 29, 31, 45, 100, 400}).Draw(rt, "stall"),
			Streams: rapid.IntRange(1, 3).Draw(rt, "streams"), KB: rapid.SampledFrom([]int{8, 64, 200}).Draw(rt, "kb")}
	}, func(sc c10Stall) (vk.Result, error) {
		return vk.Protect(func() (vk.Result, error) { return c10StallRun(t, sc) })
	})
}
