package multiplex

import (
	"bytes"
	"fmt"
	"os"
	"path/filepath"
	"testing"

	vk "github.com/cbeuw/Cloak/internal/verifkit"
	"pgregory.net/rapid"
)

// C11 - forged, foreign or modified frames are rejected under AEAD methods; garbage never crashes a session
// and later valid frames are still processed.
//
// Known finding F-C11 (excluded by construction, see /verif/known_findings.json): wire bytes 12 (closing
// flag) and 13 (extra length) are covered neither by the AEAD nonce nor by the tag, so a modification confined
// to them can be accepted. Those variants are executed, counted and reported as KNOWN-FINDING.

const c11KnownKey = "F-C11-header-bytes-12-13-unauthenticated"

type c11Session struct {
	sesh   *Session
	obfs   Obfuscator
	method byte
	key    [32]byte
	next   uint64 // next seq on the probe stream
	st     *Stream
	off    uint64
}

func newC11Session(method byte, key [32]byte) *c11Session { return newC11SessionMode(method, key, false) }

func newC11SessionMode(method byte, key [32]byte, unordered bool) *c11Session {
	obfs, _ := MakeObfuscator(method, key)
	s := &c11Session{obfs: obfs, method: method, key: key}
	s.sesh = MakeSession(9, SessionConfig{Obfuscator: obfs, MsgOnWireSizeLimit: 16401, Unordered: unordered})
	return s
}

func c11Encode(obfs *Obfuscator, f *Frame) []byte {
	buf := make([]byte, 17000)
	n, err := obfs.obfuscate(f, buf, 0)
	if err != nil {
		panic(err)
	}
	return buf[:n]
}

type c11State struct {
	closed  bool
	streams int
	count   uint32
	queued  int
}

func (s *c11Session) snapshot() c11State {
	s.sesh.streamsM.Lock()
	defer s.sesh.streamsM.Unlock()
	return c11State{s.sesh.IsClosed(), len(s.sesh.streams), s.sesh.streamCount(), len(s.sesh.acceptCh)}
}

// probe sends one valid frame on the probe stream and checks that it is delivered in order and intact.
func (s *c11Session) probe() error {
	payload := make([]byte, 1+int(s.off%97))
	vFill(payload, 0xC11, s.off)
	msg := c11Encode(&s.obfs, &Frame{StreamID: 77, Seq: s.next, Payload: payload})
	s.next++
	if err := s.sesh.recvDataFromRemote(msg); err != nil {
		return vk.Violatef("a valid frame was rejected after garbage had been received: %v", err)
	}
	if s.st == nil {
		select {
		case st := <-s.sesh.acceptCh:
			s.st = st
		default:
			return vk.Violatef("a valid first frame of a new stream did not make the stream acceptable")
		}
		if s.st.id != 77 {
			return vk.Violatef("accepted stream has id %d, want 77 (a forged frame created a stream)", s.st.id)
		}
	}
	got := make([]byte, len(payload)+10)
	n, err := s.st.Read(got)
	if err != nil || !bytes.Equal(got[:n], payload) {
		return vk.Violatef("valid frame after garbage: read %d bytes err %v, want the %d bytes sent", n, err, len(payload))
	}
	s.off += uint64(len(payload))
	return nil
}

type c11Case struct {
	Method  byte
	Key     string
	PayLen  int
	Seq     uint64
	Kind    string // flip | multi | truncate | extend | otherkey | othermethod | garbage
	Pos     []int  // byte positions touched (flip/multi)
	Bit     int
	Mask    []byte
	N       int    // truncate/extend amount
	Garbage string // hex-less raw (as latin1) for garbage; generated from Seed when empty
	Seed    uint64
	GLen    int
	// Live: 0 the modified message is a frame of a stream the session has never seen; 1 it is a modified copy of the
	// next genuine frame of the live probe stream (ordered session) - the genuine frame itself follows; 2 the same on an
	// unordered (datagram) session
	Live int `json:",omitempty"`
}

// c11Mutate builds the variant message for a case from a valid encoded message.
func c11Mutate(c c11Case, valid []byte) (variant []byte, onlyUnauth bool) {
	v := append([]byte(nil), valid...)
	onlyUnauth = false
	switch c.Kind {
	case "flip":
		p := c.Pos[0] % len(v)
		v[p] ^= 1 << uint(c.Bit%8)
		onlyUnauth = p == 12 || p == 13
	case "multi":
		onlyUnauth = true
		changed := false
		for i, p := range c.Pos {
			p = p % len(v)
			m := byte(1)
			if i < len(c.Mask) && c.Mask[i] != 0 {
				m = c.Mask[i]
			}
			v[p] ^= m
		}
		for i := range v {
			if v[i] != valid[i] {
				changed = true
				if i != 12 && i != 13 {
					onlyUnauth = false
				}
			}
		}
		if !changed {
			return nil, false
		}
	case "truncate":
		n := 1 + c.N%64
		if n >= len(v) {
			n = len(v) - 1
		}
		v = v[:len(v)-n]
	case "extend":
		n := 1 + c.N%64
		ext := make([]byte, n)
		vFill(ext, c.Seed, 3)
		v = append(v, ext...)
	}
	return v, onlyUnauth
}

func c11Run(c c11Case) (vk.Result, error) {
	res := vk.Result{NonTrivial: true}
	key := vKey(c.Key)
	s := newC11SessionMode(c.Method, key, c.Live == 2)
	defer s.sesh.Close()
	if err := s.probe(); err != nil {
		return res, err
	}
	if c.Live > 0 && c.Seq >= 5 {
		for s.next < 5+c.Seq%3 {
			if err := s.probe(); err != nil {
				return res, err
			}
		}
	}
	payload := make([]byte, c.PayLen)
	vFill(payload, c.Seed, 0)
	var variant []byte
	onlyUnauth := false
	aead := c.Method != EncryptionMethodPlain
	switch c.Kind {
	case "garbage":
		variant = make([]byte, c.GLen)
		vFill(variant, c.Seed, 11)
	case "otherkey":
		k2 := key
		k2[int(c.Seed%32)] ^= 1 << (c.Seed % 7)
		o2, _ := MakeObfuscator(c.Method, k2)
		variant = c11Encode(&o2, &Frame{StreamID: 5, Seq: c.Seq, Payload: payload})
	case "othermethod":
		m2 := vAEADMethods[c.Seed%3]
		if m2 == c.Method {
			m2 = vAEADMethods[(c.Seed%3+1)%3]
		}
		o2, _ := MakeObfuscator(m2, key)
		variant = c11Encode(&o2, &Frame{StreamID: 5, Seq: c.Seq, Payload: payload})
	default:
		valid := c11Encode(&s.obfs, &Frame{StreamID: 5, Seq: c.Seq, Payload: payload})
		if c.Live > 0 {
			valid = c11Encode(&s.obfs, &Frame{StreamID: 77, Seq: s.next, Payload: payload})
			res.Labels = append(res.Labels, []string{"", "modified-copy-of-a-live-stream's-next-frame", "modified-copy-of-a-live-stream's-next-frame:unordered"}[c.Live])
		}
		variant, onlyUnauth = c11Mutate(c, valid)
		if variant == nil {
			return vk.Result{}, nil
		}
	}
	res.Labels = append(res.Labels, "kind="+c.Kind, "method="+vMethodNames[c.Method])
	res.Key = fmt.Sprintf("%d/%s/%d/%v/%d/%d/%d", c.Method, c.Kind, c.PayLen, c.Pos, c.Bit, c.N, c.Live)
	// (1) codec level
	var f Frame
	derr := s.obfs.deobfuscate(&f, append([]byte(nil), variant...))
	if aead && derr == nil {
		if onlyUnauth {
			if vk.IsKnown("C11", c11KnownKey) {
				res.Known = append(res.Known, c11KnownKey)
				return res, nil // do not feed it to the live session: it may legitimately (per the finding) close it
			}
			return res, vk.ViolateSig(c11KnownKey, "a message modified only in wire byte 12/13 (closing flag / extra length) was accepted under %s: closing=%d len=%d", vMethodNames[c.Method], f.Closing, len(f.Payload))
		}
		return res, vk.ViolateSig("aead-accepts-modified", "a %s message (%s) was accepted under %s: stream=%d seq=%d closing=%d payload=%d bytes", c.Kind, describe(c), vMethodNames[c.Method], f.StreamID, f.Seq, f.Closing, len(f.Payload))
	}
	if aead && onlyUnauth {
		// rejected (e.g. extra length now exceeds the message): fine
		res.Labels = append(res.Labels, "unauth-byte-variant-rejected")
	}
	// (2) session level: dropped without effect, later valid frames still processed
	before := s.snapshot()
	rerr := s.sesh.recvDataFromRemote(append([]byte(nil), variant...))
	if aead {
		if rerr == nil && !onlyUnauth {
			return res, vk.ViolateSig("aead-session-accepts", "the session processed a %s message under %s without error", c.Kind, vMethodNames[c.Method])
		}
		if !onlyUnauth {
			after := s.snapshot()
			if after != before {
				return res, vk.Violatef("a rejected %s message changed the session: before %+v after %+v", c.Kind, before, after)
			}
			if err := s.probe(); err != nil {
				return res, err
			}
		}
	}
	return res, nil
}

func describe(c c11Case) string {
	switch c.Kind {
	case "flip":
		return fmt.Sprintf("bit %d of byte %d flipped", c.Bit%8, c.Pos[0])
	case "multi":
		return fmt.Sprintf("bytes %v modified", c.Pos)
	case "truncate", "extend":
		return fmt.Sprintf("%d bytes", 1+c.N%64)
	}
	return ""
}

func TestVerif_C11_Flips(t *testing.T) {
	const prop, sub = "C11", "Flips"
	vk.Direct(t, prop, sub, func(fail func(any, error)) {
		var rc c11Case
		if vk.ReplayScenario(prop, sub, &rc) {
			if _, err := c11Run(rc); err != nil {
				fail(rc, err)
			}
			return
		}
		if vk.InReplay() {
			return
		}
		small := []int{1, 2, 17, 100, 270}
		large := []int{1500, 16132}
		stop := false
		run := func(c c11Case) {
			if stop {
				return
			}
			res, err := vk.Protect(func() (vk.Result, error) { return c11Run(c) })
			if err != nil {
				fail(c, err)
				stop = true
				return
			}
			for _, k := range res.Known {
				vk.AddKnown(prop, sub, k, 1)
			}
			field := "payload"
			p := c.Pos[0]
			switch {
			case p < 4:
				field = "streamid"
			case p < 12:
				field = "seq"
			case p == 12:
				field = "closing"
			case p == 13:
				field = "extralen"
			}
			vk.AddDistinct(prop, sub, uint64(c.Method)<<56|uint64(c.Live)<<52|uint64(c.PayLen)<<32|uint64(p)<<8|uint64(c.Bit), 1, "field="+field)
		}
		for _, m := range vAEADMethods {
			for _, seq := range []uint64{2, 9} { // with and without padding
				for _, pl := range small {
					// total length unknown in advance because of padding: positions are taken modulo the length,
					// so enumerate up to the maximum possible length
					maxLen := 14 + pl + 255
					if seq >= 5 {
						maxLen = 14 + pl + 16
					}
					for p := 0; p < maxLen; p++ {
						for b := 0; b < 8; b++ {
							run(c11Case{Method: m, Key: "0102030405060708090a0b0c0d0e0f101112131415161718191a1b1c1d1e1f20", PayLen: pl, Seq: seq, Kind: "flip", Pos: []int{p}, Bit: b, Seed: uint64(p)})
							if pl == 17 && (p < 14 || p >= 14+pl) {
								// header and tag bits also on copies of a live stream's own next frame, ordered and unordered
								run(c11Case{Method: m, Key: "0102030405060708090a0b0c0d0e0f101112131415161718191a1b1c1d1e1f20", PayLen: pl, Seq: seq, Kind: "flip", Pos: []int{p}, Bit: b, Seed: uint64(p), Live: 1})
								run(c11Case{Method: m, Key: "0102030405060708090a0b0c0d0e0f101112131415161718191a1b1c1d1e1f20", PayLen: pl, Seq: seq, Kind: "flip", Pos: []int{p}, Bit: b, Seed: uint64(p), Live: 2})
							}
						}
					}
				}
				for _, pl := range large {
					total := 14 + pl + 16
					var ps []int
					for p := 0; p < 14; p++ {
						ps = append(ps, p)
					}
					for p := total - 16; p < total; p++ {
						ps = append(ps, p)
					}
					for k := 0; k < 200; k++ {
						ps = append(ps, 14+(k*7919)%pl)
					}
					for _, p := range ps {
						for b := 0; b < 8; b++ {
							run(c11Case{Method: m, Key: "0102030405060708090a0b0c0d0e0f101112131415161718191a1b1c1d1e1f20", PayLen: pl, Seq: 9, Kind: "flip", Pos: []int{p}, Bit: b, Seed: uint64(p)})
						}
					}
				}
			}
		}
		vk.SetExhaustive(prop, sub, !stop)
		vk.AddSample(prop, sub, c11Case{Method: 1, PayLen: 17, Seq: 9, Kind: "flip", Pos: []int{3}, Bit: 5})
		vk.AddSample(prop, sub, c11Case{Method: 2, PayLen: 16132, Seq: 9, Kind: "flip", Pos: []int{16150}, Bit: 0})
	})
}

func c11Gen(rt *rapid.T) c11Case {
	c := c11Case{Key: genKey(rt), Seed: rapid.Uint64().Draw(rt, "seed")}
	c.Kind = rapid.SampledFrom([]string{"multi", "multi", "truncate", "extend", "otherkey", "othermethod", "garbage", "garbage", "flip"}).Draw(rt, "kind")
	if c.Kind == "garbage" {
		c.Method = rapid.SampledFrom(vAllMethods).Draw(rt, "method")
		c.GLen = rapid.OneOf(rapid.IntRange(0, 64), rapid.IntRange(0, 20480), rapid.SampledFrom([]int{0, 13, 14, 21, 22, 23, 30, 31, 20480})).Draw(rt, "glen")
	} else {
		c.Method = rapid.SampledFrom(vAEADMethods).Draw(rt, "method")
	}
	c.PayLen = rapid.OneOf(rapid.IntRange(1, 64), rapid.IntRange(1, 16132), rapid.SampledFrom([]int{1, 16132})).Draw(rt, "paylen")
	c.Seq = rapid.OneOf(rapid.Uint64Range(0, 9), rapid.Uint64()).Draw(rt, "seq")
	c.N = rapid.IntRange(0, 63).Draw(rt, "n")
	c.Bit = rapid.IntRange(0, 7).Draw(rt, "bit")
	np := rapid.IntRange(1, 6).Draw(rt, "npos")
	for i := 0; i < np; i++ {
		c.Pos = append(c.Pos, rapid.OneOf(rapid.IntRange(0, 13), rapid.IntRange(0, 14+c.PayLen+16)).Draw(rt, "pos"))
		c.Mask = append(c.Mask, rapid.Byte().Draw(rt, "mask"))
	}
	if c.Kind == "flip" || c.Kind == "multi" || c.Kind == "truncate" || c.Kind == "extend" {
		c.Live = rapid.SampledFrom([]int{0, 0, 1, 2}).Draw(rt, "live")
	}
	return c
}

func TestVerif_C11_Random(t *testing.T) {
	vk.Run(t, "C11", "Random", c11Gen, c11Run)
}

// ---- native fuzz target (thorough tier) ----

func FuzzVerifRecvData(f *testing.F) {
	key := vKey("0102030405060708090a0b0c0d0e0f101112131415161718191a1b1c1d1e1f20")
	for _, m := range vAllMethods {
		obfs, _ := MakeObfuscator(m, key)
		for _, pl := range []int{1, 100, 2000} {
			p := make([]byte, pl)
			msg := c11Encode(&obfs, &Frame{StreamID: 5, Seq: 9, Payload: p})
			f.Add(m, byte(0), uint16(0), msg)
			f.Add(m, byte(1), uint16(12), msg)
			f.Add(m, byte(1), uint16(3), msg)
		}
		f.Add(m, byte(0), uint16(0), []byte{})
		f.Add(m, byte(0), uint16(0), bytes.Repeat([]byte{0xff}, 22))
	}
	if dir := os.Getenv("VERIF_CORPUS"); dir != "" {
		files, _ := filepath.Glob(filepath.Join(dir, "C11", "*"))
		for _, fn := range files {
			if b, err := os.ReadFile(fn); err == nil {
				f.Add(byte(1), byte(0), uint16(0), b)
			}
		}
	}
	sessions := map[byte]*c11Session{}
	known := vk.IsKnown("C11", c11KnownKey)
	f.Fuzz(func(t *testing.T, method byte, mode byte, pos uint16, data []byte) {
		method %= 4
		s := sessions[method]
		if s == nil || s.sesh.IsClosed() {
			s = newC11Session(method, key)
			sessions[method] = s
			if err := s.probe(); err != nil {
				t.Fatalf("VERIF-VIOLATION property=C11 sub=fuzz file=- sig=-: %v", err)
			}
		}
		aead := method != EncryptionMethodPlain
		if len(data) > 20480 {
			data = data[:20480]
		}
		variant := append([]byte(nil), data...)
		// mode 0: raw bytes. mode 1: re-encode the decoded frame validly, then xor data's first byte at pos
		authentic := false
		onlyUnauth := false
		if mode%2 == 1 && len(data) >= 2 {
			pl := data[1:]
			if len(pl) > 16132 {
				pl = pl[:16132]
			}
			if len(pl) == 0 {
				pl = []byte{0}
			}
			valid := c11Encode(&s.obfs, &Frame{StreamID: 5, Seq: 100 + uint64(pos), Payload: pl})
			variant = append([]byte(nil), valid...)
			if data[0] != 0 {
				p := int(pos) % len(variant)
				variant[p] ^= data[0]
				onlyUnauth = p == 12 || p == 13
			} else {
				authentic = true
			}
		}
		var fr Frame
		derr := s.obfs.deobfuscate(&fr, append([]byte(nil), variant...))
		if aead && derr == nil && !authentic {
			if onlyUnauth && known {
				return
			}
			if mode%2 == 0 {
				// raw bytes that authenticate under the reference (AEAD opens with the right key and nonce) are a
				// genuine message, possibly modified in the unauthenticated bytes 12/13 (known finding)
				if ref, e := vk.NewRefCodec(method, key); e == nil && ref.Authentic(variant) {
					return
				}
			}
			t.Fatalf("VERIF-VIOLATION property=C11 sub=fuzz file=- sig=aead-accepts-modified: modified/garbage message accepted under method %d", method)
		}
		if aead && !authentic && !onlyUnauth {
			before := s.snapshot()
			_ = s.sesh.recvDataFromRemote(append([]byte(nil), variant...))
			if after := s.snapshot(); after != before && derr != nil {
				t.Fatalf("VERIF-VIOLATION property=C11 sub=fuzz file=- sig=-: rejected message changed the session %+v -> %+v", before, after)
			}
			if err := s.probe(); err != nil {
				t.Fatalf("VERIF-VIOLATION property=C11 sub=fuzz file=- sig=-: %v", err)
			}
		} else if !aead {
			// Without authentication garbage legitimately opens streams: take them off the accept queue as an
			// application would, or the 1025th would park this goroutine for good (back pressure, not a defect)
			for drained := false; !drained; {
				select {
				case <-s.sesh.acceptCh:
				default:
					drained = true
				}
			}
			_ = s.sesh.recvDataFromRemote(append([]byte(nil), variant...)) // must not panic
		}
	})
}
