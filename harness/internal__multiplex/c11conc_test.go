package multiplex

import (
	"fmt"
	"sync"
	"sync/atomic"
	"testing"
	"time"

	vk "github.com/cbeuw/Cloak/internal/verifkit"
	"pgregory.net/rapid"
)

// C11 (4) Concurrent, real time: "rejected messages are dropped without effect and later valid frames are still
// processed" when the session receives on several connections at once. K goroutines (the connections' receiving
// goroutines) hand messages to recvDataFromRemote: the genuine frames of M streams, dealt out over the goroutines,
// interleaved with forgeries - random bytes, genuine frames with flipped bits (never in wire bytes 12/13: known
// finding F-C11), truncated or extended frames, frames sealed under another key. Oracle (AEAD methods): every stream's
// reader receives exactly the bytes of its genuine frames, in order; no forged message creates a stream or data;
// nothing panics. Under the plain method (no authentication) only "no crash" is demanded.

type c11Conc struct {
	Method  byte
	Key     string
	Conns   int
	Streams int
	Frames  int // genuine data frames per stream
	Size    int
	Garbage int // forged messages per genuine frame, in permille
	Seed    uint64
	Before  int // forged messages fed before any genuine frame
}

func c11ConcRun(sc c11Conc) (vk.Result, error) {
	res := vk.Result{NonTrivial: sc.Conns >= 2 && (sc.Garbage > 0 || sc.Before > 0)}
	key := vKey(sc.Key)
	obfs, err := MakeObfuscator(sc.Method, key)
	if err != nil {
		return res, fmt.Errorf("harness: %v", err)
	}
	var other [32]byte
	other[5] = 0xAA
	foreign, _ := MakeObfuscator(sc.Method, other)
	aead := sc.Method != EncryptionMethodPlain
	sesh := MakeSession(3, SessionConfig{Obfuscator: obfs, MsgOnWireSizeLimit: 16401, InactivityTimeout: time.Hour})
	defer func() { go sesh.Close() }()
	rnd := sc.Seed*2862933555777941757 + 3037000493
	next := func(n int) int {
		rnd = rnd*6364136223846793005 + 1442695040888963407
		return int((rnd >> 33) % uint64(n))
	}
	// genuine frames
	type msg struct {
		b       []byte
		genuine bool
	}
	perConn := make([][]msg, sc.Conns)
	want := make([][]byte, sc.Streams+1)
	forge := func(valid []byte) []byte {
		switch next(5) {
		case 0:
			g := make([]byte, 14+next(400))
			vFill(g, rnd, 0)
			return g
		case 1:
			v := append([]byte(nil), valid...)
			p := next(len(v))
			for p == 12 || p == 13 {
				p = next(len(v))
			}
			v[p] ^= 1 << uint(next(8))
			return v
		case 2:
			if len(valid) > 15 {
				return append([]byte(nil), valid[:14+next(len(valid)-14)]...)
			}
			return append([]byte(nil), valid...)
		case 3:
			return append(append([]byte(nil), valid...), byte(next(256)))
		default:
			f := &Frame{StreamID: uint32(1 + next(sc.Streams)), Seq: uint64(next(sc.Frames + 2)), Payload: make([]byte, 1+next(64))}
			return c11Encode(&foreign, f)
		}
	}
	forged := 0
	var firstValid []byte
	for fi := 0; fi < sc.Frames; fi++ {
		for s := 1; s <= sc.Streams; s++ {
			p := make([]byte, 1+(sc.Size+fi*7+s)%sc.Size)
			vFill(p, uint64(s)<<32|uint64(fi), 0)
			want[s] = append(want[s], p...)
			b := c11Encode(&obfs, &Frame{StreamID: uint32(s), Seq: uint64(fi), Payload: p})
			if firstValid == nil {
				firstValid = b
			}
			c := next(sc.Conns)
			if aead && next(1000) < sc.Garbage {
				g := next(sc.Conns)
				perConn[g] = append(perConn[g], msg{forge(b), false})
				forged++
			}
			perConn[c] = append(perConn[c], msg{b, true})
		}
	}
	if aead {
		for i := 0; i < sc.Before; i++ {
			if err := sesh.recvDataFromRemote(forge(firstValid)); err == nil {
				return res, vk.ViolateSig("forgery-accepted", "a forged message was accepted without error before any genuine frame arrived")
			}
			forged++
		}
	}
	// readers
	var progress int64
	w := c01LiveWait{&progress}
	var rmu sync.Mutex
	got := make([][]byte, sc.Streams+1)
	var foreignStream atomic.Int32
	go func() {
		for {
			c, err := sesh.Accept()
			if err != nil {
				return
			}
			st := c.(*Stream)
			if int(st.id) > sc.Streams || st.id == 0 {
				foreignStream.Store(int32(st.id))
				continue
			}
			go func() {
				buf := make([]byte, 70000)
				for {
					n, err := st.Read(buf)
					if n > 0 {
						rmu.Lock()
						got[st.id] = append(got[st.id], buf[:n]...)
						rmu.Unlock()
						atomic.AddInt64(&progress, 1)
					}
					if err != nil {
						return
					}
				}
			}()
		}
	}()
	var wg sync.WaitGroup
	start := make(chan struct{})
	var fed int64
	for _, list := range perConn {
		wg.Add(1)
		go func(list []msg) {
			defer wg.Done()
			<-start
			for _, m := range list {
				sesh.recvDataFromRemote(append([]byte(nil), m.b...))
				atomic.AddInt64(&fed, 1)
				atomic.AddInt64(&progress, 1)
			}
		}(list)
	}
	close(start)
	fdone := make(chan struct{})
	go func() { wg.Wait(); close(fdone) }()
	if err := w.wait("the receiving goroutines to hand over their messages", func() bool {
		select {
		case <-fdone:
			return true
		default:
			return false
		}
	}); err != nil {
		return res, err
	}
	if !aead {
		res.Labels = append(res.Labels, "plain:no-crash-only")
		return res, nil
	}
	complete := func() bool {
		rmu.Lock()
		defer rmu.Unlock()
		for s := 1; s <= sc.Streams; s++ {
			if len(got[s]) < len(want[s]) {
				return false
			}
		}
		return true
	}
	if err := w.wait("the genuine frames' bytes to reach the readers", complete); err != nil {
		if v, ok := err.(*vk.Violation); ok {
			rmu.Lock()
			missing := ""
			for s := 1; s <= sc.Streams; s++ {
				if len(got[s]) < len(want[s]) {
					missing += fmt.Sprintf(" stream %d: %d of %d bytes;", s, len(got[s]), len(want[s]))
				}
			}
			rmu.Unlock()
			v.Sig = "valid-frames-not-processed"
			v.Msg = fmt.Sprintf("every genuine frame was handed to the session (%d connections, %d forged messages in between) but the readers did not get all bytes:%s ", sc.Conns, forged, missing) + v.Msg
		}
		return res, err
	}
	rmu.Lock()
	defer rmu.Unlock()
	for s := 1; s <= sc.Streams; s++ {
		if string(got[s]) != string(want[s]) {
			return res, vk.ViolateSig("stream-corrupted", "stream %d: the reader received bytes that differ from the genuine frames' payloads in sequence order (first difference at byte %d of %d; %d connections receiving at once, %d forged messages in between)", s, firstDiff(got[s], want[s]), len(want[s]), sc.Conns, forged)
		}
	}
	if id := foreignStream.Load(); id != 0 {
		return res, vk.ViolateSig("forgery-accepted", "a stream with id %d was created although no genuine frame carries that id", id)
	}
	res.Labels = append(res.Labels, fmt.Sprintf("conns=%d", sc.Conns), "method="+vMethodNames[sc.Method])
	if forged > 0 {
		res.Labels = append(res.Labels, "forgeries-interleaved")
	}
	return res, nil
}

func TestVerif_C11_Concurrent(t *testing.T) {
	vk.Run(t, "C11", "Concurrent", func(rt *rapid.T) c11Conc {
		return c11Conc{Method: rapid.SampledFrom(vAllMethods).Draw(rt, "method"), Key: genKey(rt), Conns: rapid.IntRange(1, 8).Draw(rt, "conns"), Streams: rapid.IntRange(1, 6).Draw(rt, "streams"),
			Frames: rapid.SampledFrom([]int{20, 200, 1000}).Draw(rt, "frames"), Size: rapid.SampledFrom([]int{1, 50, 700}).Draw(rt, "size"), Garbage: rapid.SampledFrom([]int{0, 10, 100, 500}).Draw(rt, "garbage"),
			Seed: rapid.Uint64().Draw(rt, "seed"), Before: rapid.SampledFrom([]int{0, 1, 5, 50}).Draw(rt, "before")}
	}, func(sc c11Conc) (vk.Result, error) {
		return vk.Protect(func() (vk.Result, error) { return c11ConcRun(sc) })
	})
}
