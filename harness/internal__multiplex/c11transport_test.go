package multiplex

import (
	"encoding/binary"
	"errors"
	"fmt"
	"net"
	"net/http"
	"net/url"
	"testing"
	"testing/synctest"

	"github.com/cbeuw/Cloak/internal/common"
	vk "github.com/cbeuw/Cloak/internal/verifkit"
	"github.com/gorilla/websocket"
)

// C11 (5) Transport: "arbitrary byte strings of length 0..buffer size ... are dropped without effect and later valid
// frames are still processed" - as they arrive in practice: as records on a connection of the direct (TLS-mimicking)
// transport, read by the session's receiving goroutine. For every method and every message length of interest (all
// small ones, the record-size landmarks, every length of the last 64 below the receive buffer size) a genuine frame,
// a garbage record of that length and another genuine frame are sent; the second genuine frame must be delivered and
// the session must stay open (no-crash only under plain).

type c11Transport struct {
	Method byte
	Len    int
	// WS: the connection is of the CDN (WebSocket) transport: a real gorilla upgrade over the link, the three
	// messages are binary WebSocket messages (lengths below the buffer size: a message that fills the buffer
	// exactly cannot be told from one that is too large and is reported as an error by design)
	WS bool `json:",omitempty"`
	// First: the garbage is the first thing the connection ever delivers (a connection that has just joined the
	// session), the two genuine frames follow
	First bool `json:",omitempty"`
}

type c11OneShotListener struct {
	c    net.Conn
	used bool
	done chan struct{}
}

func (l *c11OneShotListener) Accept() (net.Conn, error) {
	if !l.used {
		l.used = true
		return l.c, nil
	}
	<-l.done
	return nil, errors.New("closed")
}
func (l *c11OneShotListener) Close() error   { return nil }
func (l *c11OneShotListener) Addr() net.Addr { return &net.TCPAddr{} }

// c11WSPair performs a real WebSocket upgrade over the link and returns (peer end, session end).
func c11WSPair(l *vk.Link) (*websocket.Conn, *common.WebSocketConn, func(), error) {
	ln := &c11OneShotListener{c: l.B, done: make(chan struct{})}
	srvCh := make(chan *websocket.Conn, 1)
	go http.Serve(ln, http.HandlerFunc(func(w http.ResponseWriter, r *http.Request) {
		up := websocket.Upgrader{}
		c, err := up.Upgrade(w, r, nil)
		if err != nil {
			srvCh <- nil
			return
		}
		srvCh <- c
	}))
	u, _ := url.Parse("ws://example.com/")
	cc, _, err := websocket.NewClient(l.A, u, http.Header{}, 16480, 16480)
	if err != nil {
		close(ln.done)
		return nil, nil, nil, err
	}
	sc := <-srvCh
	if sc == nil {
		close(ln.done)
		return nil, nil, nil, errors.New("upgrade failed")
	}
	return cc, &common.WebSocketConn{Conn: sc}, func() { close(ln.done) }, nil
}

func c11TransportRun(t *testing.T, c c11Transport) error {
	var verr error
	berr := vk.Bubble(t, func() {
		var key [32]byte
		key[1] = 0x42
		obfs, _ := MakeObfuscator(c.Method, key)
		sesh := MakeSession(4, SessionConfig{Obfuscator: obfs, MsgOnWireSizeLimit: 16401})
		defer sesh.Close()
		l := vk.NewLink(0, false)
		l.SetAuto(vk.AtoB, true)
		l.SetAuto(vk.BtoA, true)
		var peer *websocket.Conn
		if c.WS {
			cc, sc, done, err := c11WSPair(l)
			if err != nil {
				verr = fmt.Errorf("harness: websocket upgrade: %v", err)
				return
			}
			defer done()
			peer = cc
			sesh.AddConnection(sc)
		} else {
			sesh.AddConnection(common.NewTLSConn(l.B))
		}
		defer l.A.Close()
		record := func(body []byte) []byte {
			if c.WS {
				return body
			}
			r := make([]byte, 5+len(body))
			r[0], r[1], r[2] = 0x17, 0x03, 0x03
			binary.BigEndian.PutUint16(r[3:5], uint16(len(body)))
			copy(r[5:], body)
			return r
		}
		put := func(msg []byte) {
			if c.WS {
				peer.WriteMessage(websocket.BinaryMessage, msg)
				return
			}
			l.A.Write(msg)
		}
		send := func(seq uint64, b byte) {
			put(record(c11Encode(&obfs, &Frame{StreamID: 1, Seq: seq, Payload: []byte{b, b, b}})))
		}
		garbage := make([]byte, c.Len)
		vFill(garbage, uint64(c.Len)*977+uint64(c.Method), 0)
		if c.First {
			put(record(garbage))
			synctest.Wait()
			send(0, 'a')
		} else {
			send(0, 'a')
			synctest.Wait()
			put(record(garbage))
		}
		synctest.Wait()
		send(1, 'b')
		synctest.Wait()
		if c.Method == EncryptionMethodPlain {
			return // no authentication: only "no crash" is demanded
		}
		if sesh.IsClosed() {
			verr = vk.ViolateSig("garbage-breaks-session", "a %d-byte garbage message on a connection (websocket=%v, method %s) closed the session (%q); it must be dropped without effect", c.Len, c.WS, vMethodNames[c.Method], sesh.TerminalMsg())
			return
		}
		var st *Stream
		select {
		case st = <-sesh.acceptCh:
		default:
			verr = vk.Violatef("the first genuine frame did not open its stream (garbage first on the connection: %v)", c.First)
			return
		}
		buf := make([]byte, 16)
		got := 0
		for got < 6 {
			if st.recvBuf.(*streamBuffer).buf.buf.Len() == 0 {
				break
			}
			n, _ := st.Read(buf[got:])
			got += n
		}
		if string(buf[:got]) != "aaabbb" {
			verr = vk.ViolateSig("valid-frames-not-processed", "after a %d-byte garbage record (method %s) the stream delivered %q, want aaabbb: the genuine frame that followed the garbage was not processed", c.Len, vMethodNames[c.Method], buf[:got])
		}
	})
	if verr == nil && berr != nil {
		verr = fmt.Errorf("harness: bubble: %v", berr)
	}
	return verr
}

func TestVerif_C11_Transport(t *testing.T) {
	const prop, sub = "C11", "Transport"
	vk.Direct(t, prop, sub, func(fail func(any, error)) {
		one := func(c c11Transport) error {
			_, err := vk.Protect(func() (vk.Result, error) { return vk.Result{}, c11TransportRun(t, c) })
			return err
		}
		var rc c11Transport
		if vk.ReplayScenario(prop, sub, &rc) {
			if err := one(rc); err != nil {
				fail(rc, err)
			}
			return
		}
		if vk.InReplay() {
			return
		}
		const bufSize = 20480
		var lens []int
		for n := 0; n <= 48; n++ {
			lens = append(lens, n)
		}
		for _, n := range []int{255, 256, 1000, 16383, 16384, 16385, 16401, 16639, 16640, 16641} {
			lens = append(lens, n)
		}
		for n := bufSize - 64; n <= bufSize; n++ {
			lens = append(lens, n)
		}
		k := uint64(0)
		for _, m := range vAllMethods {
			for _, n := range lens {
				c := c11Transport{Method: m, Len: n}
				if err := one(c); err != nil {
					fail(c, err)
					return
				}
				vk.AddDistinct(prop, sub, k, 1, "method="+vMethodNames[m])
				k++
				c.First = true
				if err := one(c); err != nil {
					fail(c, err)
					return
				}
				vk.AddDistinct(prop, sub, k, 1, "garbage-first-on-a-fresh-connection")
				k++
				c.First = n%2 == 1
				if n < bufSize {
					c.WS = true
					if err := one(c); err != nil {
						fail(c, err)
						return
					}
					vk.AddDistinct(prop, sub, k, 1, "websocket")
					k++
				}
			}
		}
		vk.SetExhaustive(prop, sub, true)
		vk.AddSample(prop, sub, c11Transport{Method: vAllMethods[1], Len: bufSize})
	})
}
