package multiplex

import (
	"fmt"
	"strings"
	"testing"
	"testing/synctest"

	vk "github.com/cbeuw/Cloak/internal/verifkit"
	"pgregory.net/rapid"
)

// C12 - faults tear a session down cleanly: prefixes only, nothing left blocked, all connections closed;
// stream counter equals the number of open streams; inactivity timer only fires without open streams.

type c12Fault struct {
	Kind  string // "reset" | "sclose"
	Side  int    // sclose: which side closes; reset: direction of the partial delivery that precedes it
	C     int    // connection
	Class int    // 0 record boundary, 1 inside the 5-byte record header, 2 inside the frame header, 3 inside payload, 4 inside the tag (last 16 bytes)
	Par   []rigOp
}

type c12Scenario struct {
	Cfg    rigCfg
	Limit  int // >0: bounded link buffers (back pressure)
	Ops    []rigOp
	Faults []c12Fault
	// Only, when >= 0, restricts the enumeration to fault position Only (set when a failure is reported, for replay)
	OnlyPos   int
	OnlyFault int
}

func c12GenBase(rt *rapid.T, unordered bool, maxOps int) (rigCfg, []rigOp, int) {
	cfg := genCfg(rt, unordered)
	nStreams := 1
	if !cfg.Singleplex {
		nStreams = rapid.IntRange(1, 4).Draw(rt, "nstreams")
	}
	var ops []rigOp
	limit := 0
	if rapid.IntRange(0, 4).Draw(rt, "bounded") == 0 {
		limit = rapid.SampledFrom([]int{1, 20000, 40000}).Draw(rt, "limit")
	}
	ops = append(ops, rigOp{K: "open"})
	opened := 1
	nOps := rapid.IntRange(1, maxOps).Draw(rt, "nops")
	busyW := map[[2]int]bool{}
	for i := 0; i < nOps; i++ {
		k := rapid.IntRange(0, 99).Draw(rt, "kind")
		s := rapid.IntRange(0, opened-1).Draw(rt, "s")
		side := rapid.IntRange(0, 1).Draw(rt, "side")
		switch {
		case k < 10 && opened < nStreams:
			ops = append(ops, rigOp{K: "open"})
			opened++
		case k < 10 && cfg.Singleplex:
			// a second OpenStream on a singleplex session: it must be refused and must leave no trace
			ops = append(ops, rigOp{K: "open"})
		case k < 40:
			var n int
			if unordered {
				n = rapid.OneOf(rapid.IntRange(1, 300), rapid.SampledFrom([]int{vMaxUnit, vMaxUnit - 1, 8000})).Draw(rt, "n")
			} else {
				n = genSize(rt)
			}
			if limit > 0 && busyW[[2]int{side, s}] {
				// one writer per stream under back pressure (a parked writer holds the stream's write mutex)
				ops = append(ops, genDeliver(rt, cfg.NumConn))
				continue
			}
			if limit > 0 {
				busyW[[2]int{side, s}] = true
			}
			ops = append(ops, rigOp{K: "write", Side: side, S: s, N: n})
		case k < 70:
			ops = append(ops, genDeliver(rt, cfg.NumConn))
		case k < 88:
			ops = append(ops, rigOp{K: "read", Side: side, S: s, N: rapid.SampledFrom([]int{1, 500, 16132, 70000}).Draw(rt, "buf")})
		default:
			if limit > 0 && busyW[[2]int{side, s}] {
				ops = append(ops, genDeliver(rt, cfg.NumConn))
				continue
			}
			busyW[[2]int{side, s}] = true // no further ops on a stream side after its close
			ops = append(ops, rigOp{K: "close", Side: side, S: s})
		}
	}
	return cfg, ops, limit
}

func c12Gen(rt *rapid.T) c12Scenario {
	unordered := rapid.IntRange(0, 3).Draw(rt, "unordered") == 0
	cfg, ops, limit := c12GenBase(rt, unordered, 30)
	sc := c12Scenario{Cfg: cfg, Ops: ops, Limit: limit, OnlyPos: -1, OnlyFault: -1}
	nf := rapid.IntRange(1, 3).Draw(rt, "nfaults")
	for i := 0; i < nf; i++ {
		f := c12Fault{Kind: rapid.SampledFrom([]string{"reset", "reset", "sclose", "reset-noticed-by-closer-first"}).Draw(rt, "fkind"), Side: rapid.IntRange(0, 1).Draw(rt, "fside"),
			C: rapid.IntRange(0, cfg.NumConn-1).Draw(rt, "fconn"), Class: rapid.IntRange(0, 4).Draw(rt, "fclass")}
		if f.Kind == "sclose" && limit == 0 {
			// session Close racing with other calls in the same step
			np := rapid.IntRange(0, 3).Draw(rt, "npar")
			for j := 0; j < np; j++ {
				pk := rapid.SampledFrom([]string{"open", "write", "read", "close", "deliver", "sclose"}).Draw(rt, "pk")
				op := rigOp{K: pk, Side: rapid.IntRange(0, 1).Draw(rt, "pside"), S: rapid.IntRange(0, 3).Draw(rt, "ps"), N: rapid.SampledFrom([]int{1, 300, vMaxUnit}).Draw(rt, "pn"), C: rapid.IntRange(0, cfg.NumConn-1).Draw(rt, "pc"), Mode: 2}
				if unordered && op.N > vMaxUnit {
					op.N = vMaxUnit
				}
				f.Par = append(f.Par, op)
			}
		}
		sc.Faults = append(sc.Faults, f)
	}
	return sc
}

// partialFor delivers a part of the head record of link li in direction d so that the cut falls in the wanted class.
func (r *rig) partialFor(li int, d vk.Dir, class int) bool {
	h := r.links[li].HeadChunk(d)
	if len(h) == 0 || class == 0 {
		return false
	}
	var k int
	switch class {
	case 1:
		k = 1 + len(h)%4 // 1..4 bytes: inside the TLS record header
	case 2:
		k = 5 + 1 + len(h)%13 // inside the masked frame header
	case 3:
		k = 5 + 14 + (len(h)-5-14-16)/2
	default:
		k = len(h) - 1 - len(h)%15 // inside the last 16 bytes
	}
	if k < 1 || k >= len(h) {
		return false
	}
	before := r.delivered[d][li]
	m := r.links[li].DeliverBytes(d, k)
	r.delivered[d][li] = before + int64(m)
	r.splits++
	return m > 0
}

func c12LiveInvariant(r *rig, phase string) error {
	for side := 0; side < 2; side++ {
		if r.sesh[side].IsClosed() {
			continue
		}
		want, exact := r.modelOpen(side)
		if !exact {
			continue
		}
		if got := int(r.sesh[side].streamCount()); got != want {
			return vk.ViolateSig("streamcount", "%s: side %d counts %d active streams but %d streams are open", phase, side, got, want)
		}
	}
	return nil
}

func c12PostFault(r *rig, phase string) error {
	if err := r.drain(); err != nil {
		return err
	}
	// a few extra quiescence rounds so that both sides observe the teardown
	for i := 0; i < 3; i++ {
		r.deliverEverything()
		synctest.Wait()
		if err := r.poll(); err != nil {
			return err
		}
	}
	for side := 0; side < 2; side++ {
		if !r.sesh[side].IsClosed() {
			return vk.Violatef("%s: session on side %d is still open after the fault was observed by both ends", phase, side)
		}
		if _, err := r.sesh[side].OpenStream(); err == nil {
			return vk.Violatef("%s: OpenStream succeeded on side %d after the session was torn down", phase, side)
		}
		r.mu.Lock()
		exited := r.acceptExited[side]
		r.mu.Unlock()
		if !exited {
			return vk.Violatef("%s: a goroutine blocked in Accept on side %d did not return", phase, side)
		}
	}
	for _, s := range r.allStreams() {
		if s.rdBusy {
			return vk.Violatef("%s: stream %d side %d: a blocked Read did not return", phase, s.id, s.side)
		}
		if s.wrBusy {
			return vk.Violatef("%s: stream %d side %d: a blocked Write did not return", phase, s.id, s.side)
		}
		if s.closeBusy {
			return vk.Violatef("%s: stream %d side %d: Stream.Close did not return", phase, s.id, s.side)
		}
		if s.rdErr == nil {
			return vk.Violatef("%s: stream %d side %d: reads never reported an error after the session died", phase, s.id, s.side)
		}
	}
	for li, l := range r.links {
		if l.A.CloseCalls == 0 || l.B.CloseCalls == 0 {
			return vk.Violatef("%s: connection %d was not closed by both sessions (client end closed %d times, server end %d times)", phase, li, l.A.CloseCalls, l.B.CloseCalls)
		}
	}
	return nil
}

func c12RunOne(t *testing.T, sc c12Scenario, pos int, f c12Fault) (labels []string, nontrivial bool, verr error) {
	berr := vk.Bubble(t, func() {
		r, err := newRig(t, sc.Cfg)
		if err != nil {
			verr = fmt.Errorf("harness: %v", err)
			return
		}
		defer r.teardown()
		if sc.Limit > 0 {
			r.start(rigOp{K: "limit", N: sc.Limit})
		}
		for i := 0; i < pos && i < len(sc.Ops); i++ {
			if verr = r.step(sc.Ops[i]); verr != nil {
				return
			}
			if verr = c12LiveInvariant(r, fmt.Sprintf("after op %d (%s)", i, sc.Ops[i].K)); verr != nil {
				return
			}
		}
		// what is parked right now?
		parkedR, parkedW, ooo := false, false, false
		for _, s := range r.allStreams() {
			parkedR = parkedR || s.rdBusy
			parkedW = parkedW || s.wrBusy
			if h, _ := r.recvState(s.id, dirOf(1-s.side)); h >= 0 {
				// frames parked out of order: some complete record beyond the contiguous prefix
				_ = h
			}
		}
		if r.overtakes > 0 {
			ooo = true
		}
		inside := false
		switch f.Kind {
		case "reset":
			li := f.C % len(r.links)
			inside = r.partialFor(li, dirOf(f.Side), f.Class)
			synctest.Wait()
			if verr = r.poll(); verr != nil {
				return
			}
			verr = r.step(rigOp{K: "reset", C: li})
		case "reset-noticed-by-closer-first":
			// the connection(s) were reset, and the first to notice is a Session.Close whose closing notice fails to be
			// written; the receiving goroutines (and the peer) see the reset a moment later. Class even: every
			// connection of the session was reset (the path died), odd: only connection C
			var lis []int
			for li := range r.links {
				if f.Class%2 == 0 || li == f.C%len(r.links) {
					lis = append(lis, li)
				}
			}
			for _, li := range lis {
				r.links[li].BreakWrites(dirOf(f.Side))
			}
			if verr = r.step(rigOp{K: "sclose", Side: f.Side}); verr != nil {
				return
			}
			for _, li := range lis {
				if verr = r.step(rigOp{K: "reset", C: li}); verr != nil {
					return
				}
			}
		default:
			verr = r.step(rigOp{K: "sclose", Side: f.Side, Par: f.Par})
		}
		if verr != nil {
			return
		}
		verr = c12PostFault(r, fmt.Sprintf("fault %s at position %d", f.Kind, pos))
		nontrivial = inside || ooo || parkedR || parkedW
		if inside {
			labels = append(labels, fmt.Sprintf("fault-inside-record-class-%d", f.Class))
		}
		if parkedR {
			labels = append(labels, "reader-parked-at-fault")
		}
		if parkedW {
			labels = append(labels, "writer-parked-at-fault")
		}
		if ooo {
			labels = append(labels, "frames-arrived-out-of-order-before-fault")
		}
		labels = append(labels, "fault="+f.Kind)
		if len(f.Par) > 0 {
			labels = append(labels, "close-racing-with-calls")
		}
		if sc.Cfg.Unordered {
			labels = append(labels, "unordered")
		}
	})
	if verr == nil && berr != nil {
		verr = vk.Violatef("goroutines left blocked for ever (or crashed) after the fault: %v", firstLine(berr.Error()))
	}
	return
}

func firstLine(s string) string {
	if i := strings.IndexByte(s, '\n'); i >= 0 {
		return s[:i]
	}
	return s
}

func c12Run(t *testing.T) func(sc c12Scenario) (vk.Result, error) {
	return func(sc c12Scenario) (vk.Result, error) {
		res := vk.Result{}
		labels := map[string]bool{}
		for pos := 0; pos <= len(sc.Ops); pos++ {
			if sc.OnlyPos >= 0 && pos != sc.OnlyPos {
				continue
			}
			for fi, f := range sc.Faults {
				if sc.OnlyFault >= 0 && fi != sc.OnlyFault {
					continue
				}
				ls, nt, err := c12RunOne(t, sc, pos, f)
				if err != nil {
					if v, ok := err.(*vk.Violation); ok {
						v.Msg = fmt.Sprintf("[fault #%d at op position %d] %s", fi, pos, v.Msg)
					}
					return res, err
				}
				res.Count++
				if nt {
					res.NonTrivial = true
				}
				for _, l := range ls {
					labels[l] = true
				}
			}
		}
		for l := range labels {
			res.Labels = append(res.Labels, l)
		}
		return res, nil
	}
}

func TestVerif_C12_Faults(t *testing.T) {
	vk.Run(t, "C12", "Faults", c12Gen, c12Run(t))
}

// ---- inactivity timer phases (virtual clock) ----

func c12IdleGen(rt *rapid.T) rigScenario {
	sc := rigScenario{Cfg: genCfg(rt, rapid.IntRange(0, 3).Draw(rt, "unordered") == 0)}
	nStreams := 1
	if !sc.Cfg.Singleplex {
		nStreams = rapid.IntRange(1, 3).Draw(rt, "nstreams")
	}
	opened := 0
	nOps := rapid.IntRange(1, 25).Draw(rt, "nops")
	closedSide := map[[2]int]bool{}
	for i := 0; i < nOps; i++ {
		k := rapid.IntRange(0, 99).Draw(rt, "kind")
		switch {
		case (k < 15 || opened == 0) && opened < nStreams:
			if rapid.IntRange(0, 2).Draw(rt, "sleepfirst") == 0 {
				sc.Ops = append(sc.Ops, rigOp{K: "sleep", D: rapid.SampledFrom([]int{1000, 29000, 29999, 30000, 30001, 35000}).Draw(rt, "d0")})
			}
			sc.Ops = append(sc.Ops, rigOp{K: "open"})
			opened++
		case opened == 0:
			sc.Ops = append(sc.Ops, rigOp{K: "sleep", D: rapid.SampledFrom([]int{1000, 29999, 30000, 30001, 61000}).Draw(rt, "d")})
		case k < 35:
			s, side := rapid.IntRange(0, opened-1).Draw(rt, "s"), rapid.IntRange(0, 1).Draw(rt, "side")
			if closedSide[[2]int{side, s}] {
				continue
			}
			n := rapid.SampledFrom([]int{1, 100, vMaxUnit}).Draw(rt, "n")
			sc.Ops = append(sc.Ops, rigOp{K: "write", Side: side, S: s, N: n})
		case k < 55:
			if rapid.Bool().Draw(rt, "all") {
				for c := 0; c < sc.Cfg.NumConn; c++ {
					sc.Ops = append(sc.Ops, rigOp{K: "deliver", Side: 0, C: c, Mode: 2}, rigOp{K: "deliver", Side: 1, C: c, Mode: 2})
				}
			} else {
				sc.Ops = append(sc.Ops, genDeliver(rt, sc.Cfg.NumConn))
			}
		case k < 65:
			sc.Ops = append(sc.Ops, rigOp{K: "read", Side: rapid.IntRange(0, 1).Draw(rt, "side"), S: rapid.IntRange(0, opened-1).Draw(rt, "s"), N: 70000})
		case k < 78:
			s, side := rapid.IntRange(0, opened-1).Draw(rt, "s"), rapid.IntRange(0, 1).Draw(rt, "side")
			closedSide[[2]int{side, s}] = true
			sc.Ops = append(sc.Ops, rigOp{K: "close", Side: side, S: s})
		default:
			sc.Ops = append(sc.Ops, rigOp{K: "sleep", D: rapid.SampledFrom([]int{1, 1000, 15000, 29999, 30000, 30001, 31000, 45000, 61000, 200000}).Draw(rt, "d")})
		}
	}
	return sc
}

func c12IdleRun(t *testing.T) func(sc rigScenario) (vk.Result, error) {
	return func(sc rigScenario) (vk.Result, error) {
		var res vk.Result
		var verr error
		berr := vk.Bubble(t, func() {
			r, err := newRig(t, sc.Cfg)
			if err != nil {
				verr = fmt.Errorf("harness: %v", err)
				return
			}
			defer r.teardown()
			anyClosed := false
			sleptWithOpen, timedOut := false, false
			for i, op := range sc.Ops {
				var before [2]int
				var exact [2]bool
				for side := 0; side < 2; side++ {
					before[side], exact[side] = r.modelOpen(side)
				}
				if verr = r.step(op); verr != nil {
					return
				}
				phase := fmt.Sprintf("after op %d (%s %d)", i, op.K, op.D)
				if !anyClosed {
					for side := 0; side < 2; side++ {
						if !r.sesh[side].IsClosed() {
							continue
						}
						anyClosed = true
						msg := r.sesh[side].TerminalMsg()
						after, _ := r.modelOpen(side)
						switch {
						case msg == "timeout":
							timedOut = true
							if op.K != "sleep" {
								verr = vk.Violatef("%s: session on side %d closed by its inactivity timer although no time passed", phase, side)
							} else if exact[side] && before[side] > 0 {
								verr = vk.Violatef("%s: session on side %d closed itself on the inactivity timer while %d stream(s) were open", phase, side, before[side])
							}
						case sc.Cfg.Singleplex && after == 0 && op.K != "sleep":
							// singleplex session closes with its stream
						default:
							// the other side may have caused it: allowed only if that side closed for a legitimate reason
							other := 1 - side
							if r.sesh[other].IsClosed() {
								omsg := r.sesh[other].TerminalMsg()
								oafter, _ := r.modelOpen(other)
								if omsg == "timeout" && (before[other] == 0 || !exact[other]) {
									timedOut = true
									break
								}
								if sc.Cfg.Singleplex && oafter == 0 {
									break
								}
							}
							verr = vk.Violatef("%s: session on side %d closed (%q) although all connections are healthy and nobody closed it", phase, side, msg)
						}
						if verr != nil {
							return
						}
					}
				}
				if op.K == "sleep" && !anyClosed {
					if before[0] > 0 || before[1] > 0 {
						sleptWithOpen = true
					}
				}
				if !anyClosed {
					if verr = c12LiveInvariant(r, phase); verr != nil {
						return
					}
					if sc.Cfg.Singleplex {
						for _, s := range r.allStreams() {
							_, pc := r.recvState(s.id, dirOf(1-s.side))
							if (s.closeDone || pc) && !r.sesh[s.side].IsClosed() {
								verr = vk.Violatef("%s: singleplex session on side %d stays open although its single stream is closed", phase, s.side)
								return
							}
						}
					}
				}
			}
			if anyClosed {
				verr = c12PostFault(r, "after self-closure")
			}
			res.NonTrivial = sleptWithOpen || timedOut
			if sleptWithOpen {
				res.Labels = append(res.Labels, "idle-period-with-open-stream")
			}
			if timedOut {
				res.Labels = append(res.Labels, "inactivity-timer-fired")
			}
			if sc.Cfg.Singleplex {
				res.Labels = append(res.Labels, "singleplex")
			}
		})
		if verr == nil && berr != nil {
			verr = vk.Violatef("goroutines left blocked or crashed: %v", firstLine(berr.Error()))
		}
		return res, verr
	}
}

func TestVerif_C12_Inactivity(t *testing.T) {
	vk.Run(t, "C12", "Inactivity", c12IdleGen, c12IdleRun(t))
}

// ---- OpenStream racing with session closure, through the schedule point openStream.beforeRegister ----

type c12OpenRace struct {
	Cfg       rigCfg
	Pre       []rigOp
	CloseKind string // "local" (Session.Close on the opener's side) | "reset" | "remote" (peer closes, notice delivered)
}

func c12OpenRaceRun(t *testing.T) func(sc c12OpenRace) (vk.Result, error) {
	return func(sc c12OpenRace) (vk.Result, error) {
		res := vk.Result{NonTrivial: true, Labels: []string{"close=" + sc.CloseKind}}
		var verr error
		berr := vk.Bubble(t, func() {
			r, err := newRig(t, sc.Cfg)
			if err != nil {
				verr = fmt.Errorf("harness: %v", err)
				return
			}
			defer r.teardown()
			for _, op := range sc.Pre {
				if verr = r.step(op); verr != nil {
					return
				}
			}
			if r.sesh[sideC].IsClosed() {
				return
			}
			h := vArm("openStream.beforeRegister")
			defer h.Release()
			type openRes struct {
				st  *Stream
				err error
			}
			och := make(chan openRes, 1)
			go func() {
				st, err := r.sesh[sideC].OpenStream()
				och <- openRes{st, err}
			}()
			synctest.Wait()
			if !h.IsReached() {
				// OpenStream returned before the point (e.g. singleplex refusal): nothing to race
				h.Release()
				return
			}
			// the session dies while the opener is between its closed-check and the registration of the stream
			switch sc.CloseKind {
			case "local":
				done := make(chan struct{})
				go func() { r.sesh[sideC].Close(); close(done) }()
				synctest.Wait()
			case "reset":
				r.links[0].Reset()
				synctest.Wait()
			default:
				go r.sesh[sideS].Close()
				synctest.Wait()
				r.deliverEverything()
				synctest.Wait()
			}
			if !r.sesh[sideC].IsClosed() {
				verr = vk.Violatef("client session still open after %s closure", sc.CloseKind)
				return
			}
			h.Release()
			synctest.Wait()
			var o openRes
			select {
			case o = <-och:
			default:
				verr = vk.Violatef("OpenStream did not return after the session was closed")
				return
			}
			if o.err != nil {
				res.Labels = append(res.Labels, "open-refused")
				return
			}
			// a stream was handed out on a dead session: it must behave as a dead stream
			rch := make(chan error, 1)
			go func() {
				_, err := o.st.Read(make([]byte, 16))
				rch <- err
			}()
			synctest.Wait()
			select {
			case err := <-rch:
				if err == nil {
					verr = vk.Violatef("Read on a stream of a closed session returned data")
				}
				res.Labels = append(res.Labels, "open-succeeded-stream-dead")
			default:
				verr = vk.ViolateSig("open-after-close-leaks-stream", "OpenStream racing with %s session closure returned a stream whose Read blocks for ever: the stream was registered after the session had closed every stream", sc.CloseKind)
				o.st.recvBuf.Close() // let the parked reader go so that the bubble can end
			}
		})
		if verr == nil && berr != nil {
			verr = vk.Violatef("goroutines left blocked or crashed: %v", firstLine(berr.Error()))
		}
		return res, verr
	}
}

func TestVerif_C12_OpenRace(t *testing.T) {
	vk.Run(t, "C12", "OpenRace", func(rt *rapid.T) c12OpenRace {
		cfg, ops, _ := c12GenBase(rt, rapid.Bool().Draw(rt, "unordered"), 8)
		if cfg.Singleplex {
			ops = nil // a singleplex session refuses a second stream anyway: race the very first OpenStream
		}
		return c12OpenRace{Cfg: cfg, Pre: ops, CloseKind: rapid.SampledFrom([]string{"local", "reset", "remote"}).Draw(rt, "closekind")}
	}, c12OpenRaceRun(t))
}
