package multiplex

import (
	"fmt"
	"sync"
	"testing"
	"time"

	"github.com/cbeuw/Cloak/internal/common"
	vk "github.com/cbeuw/Cloak/internal/verifkit"
	"pgregory.net/rapid"
)

// C12 (10) AddConnRace, real time: "either side closes the session ... all of the session's connections end up closed"
// when connections are still being added at that moment (the client's parallel connection attempts, a server-side
// handshake that completes late). Per round a fresh session gets 1-3 connections, then one goroutine closes it (Close, or
// a reset of one of its connections) while 1-4 others add further connections at generated offsets. When every call has
// returned nothing else is going to happen to that session: every connection handed to it - before, during or after the
// teardown - must have been closed by it (patience only covers goroutine scheduling).

type c12AddRace struct {
	Method  byte
	Key     string
	Rounds  int
	Initial int
	Adders  int
	Offsets []int // microseconds: adder k of round r waits Offsets[(r*Adders+k)%len] (negative: the closer waits instead)
	ByReset bool  // the teardown is a connection reset instead of Session.Close
}

func c12AddRaceRun(sc c12AddRace) (vk.Result, error) {
	res := vk.Result{NonTrivial: true}
	key := vKey(sc.Key)
	for r := 0; r < sc.Rounds; r++ {
		obfs, _ := MakeObfuscator(sc.Method, key)
		sesh := MakeSession(uint32(r), SessionConfig{Obfuscator: obfs, MsgOnWireSizeLimit: 16401, InactivityTimeout: time.Hour})
		var links []*vk.Link
		mk := func() *vk.Link {
			l := vk.NewLink(len(links), false)
			l.SetAuto(vk.AtoB, true)
			l.SetAuto(vk.BtoA, true)
			return l
		}
		for i := 0; i < sc.Initial; i++ {
			l := mk()
			links = append(links, l)
			sesh.AddConnection(common.NewTLSConn(l.A))
		}
		late := make([]*vk.Link, sc.Adders)
		for k := range late {
			late[k] = mk()
			links = append(links, late[k])
		}
		start := make(chan struct{})
		var wg sync.WaitGroup
		closerDelay := 0
		for k := 0; k < sc.Adders; k++ {
			off := sc.Offsets[(r*sc.Adders+k)%len(sc.Offsets)]
			if off < 0 && -off > closerDelay {
				closerDelay = -off
			}
			wg.Add(1)
			go func(k, off int) {
				defer wg.Done()
				<-start
				if off > 0 {
					time.Sleep(time.Duration(off) * time.Microsecond)
				}
				sesh.AddConnection(common.NewTLSConn(late[k].A))
			}(k, off)
		}
		wg.Add(1)
		go func() {
			defer wg.Done()
			<-start
			if closerDelay > 0 {
				time.Sleep(time.Duration(closerDelay) * time.Microsecond)
			}
			if sc.ByReset {
				links[0].Reset()
			} else {
				sesh.Close()
			}
		}()
		close(start)
		wg.Wait()
		deadline := time.Now().Add(5 * time.Second)
		for {
			open := -1
			for i, l := range links {
				if !l.A.IsClosed() {
					open = i
				}
			}
			if open < 0 && sesh.IsClosed() {
				break
			}
			if time.Now().After(deadline) {
				if open < 0 {
					return res, vk.ViolateSig("teardown-incomplete", "round %d: every connection is closed but the session does not count as closed", r)
				}
				kind := "Session.Close"
				if sc.ByReset {
					kind = "a reset of connection 0"
				}
				return res, vk.ViolateSig("late-connection-left-open", "round %d: %s and %d AddConnection calls overlapped, all of them have returned (session closed=%v), but connection %d of %d - %s - is still open: the session never closed it and nothing else will", r, kind, sc.Adders, sesh.IsClosed(), open, len(links), map[bool]string{true: "added during the teardown", false: "one of the initial connections"}[open >= sc.Initial])
			}
			time.Sleep(200 * time.Microsecond)
		}
	}
	res.Count = int64(sc.Rounds)
	res.Labels = append(res.Labels, fmt.Sprintf("adders=%d", sc.Adders), fmt.Sprintf("by-reset=%v", sc.ByReset))
	return res, nil
}

func TestVerif_C12_AddConnRace(t *testing.T) {
	vk.Run(t, "C12", "AddConnRace", func(rt *rapid.T) c12AddRace {
		sc := c12AddRace{Method: rapid.SampledFrom(vAllMethods).Draw(rt, "method"), Key: genKey(rt), Rounds: rapid.SampledFrom([]int{100, 300, 600}).Draw(rt, "rounds"),
			Initial: rapid.IntRange(1, 3).Draw(rt, "initial"), Adders: rapid.IntRange(1, 4).Draw(rt, "adders"), ByReset: rapid.IntRange(0, 3).Draw(rt, "byreset") == 0}
		for i := 0; i < 12; i++ {
			sc.Offsets = append(sc.Offsets, rapid.SampledFrom([]int{0, 0, 0, 1, 2, 5, 10, 30, -1, -3, -10}).Draw(rt, "off"))
		}
		return sc
	}, func(sc c12AddRace) (vk.Result, error) {
		return vk.Protect(func() (vk.Result, error) { return c12AddRaceRun(sc) })
	})
}
