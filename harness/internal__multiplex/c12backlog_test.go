package multiplex

import (
	"fmt"
	"net"
	"strings"
	"sync"
	"sync/atomic"
	"testing"
	"time"

	"github.com/cbeuw/Cloak/internal/common"
	vk "github.com/cbeuw/Cloak/internal/verifkit"
	"pgregory.net/rapid"
)

// C12 (4) AcceptBacklog, real time: the session is closed - by Close on either side, or by a connection fault - while
// the peer's newly opened streams are arriving and nobody is taking them from the accept queue (the application is
// busy, e.g. dialling). Streams beyond the queue's capacity park the connection's receiving goroutine. The teardown
// must still complete: Close returns, both sessions end up closed, the connections are closed, a late Accept returns,
// and nothing panics. Verdict only from a stalled progress counter plus two identical goroutine dumps.

const c12KnownKey = "F-C12f-peer-teardown-unnoticed-while-accept-queue-full"

var c12KnownOnce sync.Once

type c12Backlog struct {
	Method  byte
	Key     string
	Streams int    // streams the peer opens (the accept queue holds 1024)
	Taken   int    // streams the application had accepted before it got busy
	Trigger string // "close-receiver" | "close-opener" | "reset" | "late-accept-then-close" | "accept-all-then-close"
	Conns   int
	Frames  int `json:",omitempty"` // extra frames each opened stream sends right away (spread over the connections)
}

func c12BacklogRun(sc c12Backlog) (vk.Result, error) {
	res := vk.Result{NonTrivial: sc.Streams-sc.Taken > acceptBacklog}
	key := vKey(sc.Key)
	mk := func() SessionConfig {
		obfs, _ := MakeObfuscator(sc.Method, key)
		return SessionConfig{Obfuscator: obfs, MsgOnWireSizeLimit: 16401, InactivityTimeout: time.Hour}
	}
	opener, receiver := MakeSession(9, mk()), MakeSession(9, mk())
	var links []*vk.Link
	for i := 0; i < sc.Conns; i++ {
		l := vk.NewLink(i, false)
		l.SetAuto(vk.AtoB, true)
		l.SetAuto(vk.BtoA, true)
		links = append(links, l)
		opener.AddConnection(common.NewTLSConn(l.A))
		receiver.AddConnection(common.NewTLSConn(l.B))
	}
	var progress int64
	w := c01LiveWait{&progress}
	// every stream the peer opened is handed to Accept at most once
	var accMu sync.Mutex
	accepted := map[uint32]bool{}
	var dupErr error
	acceptOne := func() (net.Conn, error) {
		c, err := receiver.Accept()
		if err == nil {
			id := c.(*Stream).id
			accMu.Lock()
			if accepted[id] && dupErr == nil {
				dupErr = vk.ViolateSig("stream-accepted-twice", "Accept handed out a second stream object for stream id %d (%d streams opened over %d connections, %d frames each, accept queue holds %d): both number their frames from 0 under one key", id, sc.Streams, sc.Conns, sc.Frames+1, acceptBacklog)
			}
			accepted[id] = true
			accMu.Unlock()
		}
		return c, err
	}
	var sent int64
	go func() {
		for i := 0; i < sc.Streams; i++ {
			st, err := opener.OpenStream()
			if err != nil {
				return
			}
			for k := 0; k <= sc.Frames; k++ {
				if _, err := st.Write([]byte{byte(i)}); err != nil {
					return
				}
			}
			atomic.AddInt64(&sent, 1)
			atomic.AddInt64(&progress, 1)
		}
	}()
	for i := 0; i < sc.Taken; i++ {
		if _, err := acceptOne(); err != nil {
			return res, vk.Violatef("Accept on a healthy session failed: %v", err)
		}
	}
	if err := w.wait("the peer's first frames to be sent", func() bool { return atomic.LoadInt64(&sent) == int64(sc.Streams) }); err != nil {
		return res, err
	}
	time.Sleep(20 * time.Millisecond) // let the receiving goroutines reach the accept queue
	if sc.Trigger == "accept-all-then-close" {
		// the application catches up on a healthy session: every stream the peer opened comes out of Accept exactly once
		go func() {
			for {
				if _, err := acceptOne(); err != nil {
					return
				}
				atomic.AddInt64(&progress, 1)
			}
		}()
		if err := w.wait("the application to accept every stream the peer opened", func() bool {
			accMu.Lock()
			defer accMu.Unlock()
			return len(accepted) == sc.Streams || dupErr != nil
		}); err != nil {
			return res, err
		}
		time.Sleep(50 * time.Millisecond) // a second object for an id already accepted would surface now
		accMu.Lock()
		derr := dupErr
		accMu.Unlock()
		if derr != nil {
			return res, derr
		}
		res.Labels = append(res.Labels, "every-stream-accepted-once")
	}
	closeRet := make(chan struct{})
	switch sc.Trigger {
	case "close-opener":
		go func() { opener.Close(); atomic.AddInt64(&progress, 1); close(closeRet) }()
	case "reset":
		links[0].Reset()
		close(closeRet)
	default:
		go func() { receiver.Close(); atomic.AddInt64(&progress, 1); close(closeRet) }()
	}
	if sc.Trigger == "late-accept-then-close" {
		// an Accept that is already waiting / arrives while the session closes
		go func() {
			for {
				if _, err := acceptOne(); err != nil {
					return
				}
				atomic.AddInt64(&progress, 1)
			}
		}()
	}
	what := fmt.Sprintf("the teardown (%s) with %d un-accepted streams", sc.Trigger, sc.Streams-sc.Taken)
	tornDown := func() bool {
		select {
		case <-closeRet:
		default:
			return false
		}
		if !opener.IsClosed() || !receiver.IsClosed() {
			return false
		}
		for _, l := range links {
			if l.A.CloseCalls == 0 || l.B.CloseCalls == 0 {
				return false
			}
		}
		return true
	}
	describe := func(err error) error {
		if v, ok := err.(*vk.Violation); ok {
			v.Sig = "teardown-stuck"
			v.Msg = fmt.Sprintf("the session cannot be torn down while streams wait in a full accept queue (%d opened, %d accepted, trigger %s; opener closed=%v, receiver closed=%v): ", sc.Streams, sc.Taken, sc.Trigger, opener.IsClosed(), receiver.IsClosed()) + v.Msg
		}
		return err
	}
	// Known finding F-C12f (see known_findings.json): when the teardown starts at the peer (its Close, or a connection
	// fault) while every receiving goroutine of this side is parked on the full accept queue, nobody reads the closing
	// notice / notices the dead connection until the application accepts a stream again. Those cases are excluded by
	// construction: the application resumes accepting (it must then see the teardown at once). One such case per
	// process is run without that help, to report whether the finding still reproduces.
	peerInitiated := sc.Trigger == "close-opener" || sc.Trigger == "reset"
	overflow := sc.Streams-sc.Taken > acceptBacklog
	if peerInitiated && overflow {
		reproduce := false
		if sc.Streams-sc.Taken-acceptBacklog >= 30 { // enough overflow to park the receiving goroutine of every connection
			c12KnownOnce.Do(func() { reproduce = true })
		}
		if reproduce {
			err := w.wait(what, tornDown)
			if err != nil {
				v, ok := err.(*vk.Violation)
				if !ok {
					return res, err
				}
				if !(opener.IsClosed() && !receiver.IsClosed() && strings.Contains(v.Msg, "recvDataFromRemote") && !strings.Contains(v.Msg, "closeSession")) {
					return res, describe(err)
				}
				if !vk.IsKnown("C12", c12KnownKey) {
					v.Sig = c12KnownKey
					return res, describe(err)
				}
				res.Known = append(res.Known, c12KnownKey)
			}
		}
		res.Labels = append(res.Labels, "peer-initiated-teardown-with-full-queue(application-resumes-accepting)")
		go func() {
			for {
				if _, err := acceptOne(); err != nil {
					return
				}
				atomic.AddInt64(&progress, 1)
			}
		}()
	}
	if err := w.wait(what, tornDown); err != nil {
		return res, describe(err)
	}
	// a late Accept returns (with a stream that was queued, or the broken-session error) instead of blocking
	acc := make(chan struct{})
	go func() {
		for {
			if _, err := acceptOne(); err != nil {
				close(acc)
				return
			}
		}
	}()
	if err := w.wait("Accept on the closed session", func() bool {
		select {
		case <-acc:
			return true
		default:
			return false
		}
	}); err != nil {
		return res, err
	}
	if _, err := receiver.OpenStream(); err == nil {
		return res, vk.Violatef("OpenStream succeeded after the session was torn down")
	}
	accMu.Lock()
	derr := dupErr
	accMu.Unlock()
	if derr != nil {
		return res, derr
	}
	res.Labels = append(res.Labels, "trigger="+sc.Trigger)
	if sc.Streams-sc.Taken > acceptBacklog {
		res.Labels = append(res.Labels, "accept-queue-overflowed")
	}
	return res, nil
}

func TestVerif_C12_AcceptBacklog(t *testing.T) {
	vk.Run(t, "C12", "AcceptBacklog", func(rt *rapid.T) c12Backlog {
		sc := c12Backlog{Method: rapid.SampledFrom(vAllMethods).Draw(rt, "method"), Key: genKey(rt), Conns: rapid.IntRange(1, 3).Draw(rt, "conns"),
			Trigger: rapid.SampledFrom([]string{"close-receiver", "close-receiver", "close-opener", "reset", "late-accept-then-close", "accept-all-then-close", "accept-all-then-close"}).Draw(rt, "trigger"),
			Taken:   rapid.SampledFrom([]int{0, 0, 1, 7}).Draw(rt, "taken"), Frames: rapid.SampledFrom([]int{0, 0, 2, 5}).Draw(rt, "frames")}
		sc.Streams = sc.Taken + rapid.SampledFrom([]int{1, 100, acceptBacklog - 1, acceptBacklog, acceptBacklog + 1, acceptBacklog + 1, acceptBacklog + 3, acceptBacklog + 40}).Draw(rt, "beyond")
		if sc.Trigger == "accept-all-then-close" && rapid.IntRange(0, 3).Draw(rt, "shape") > 0 {
			// the shape this trigger is for: more streams than the queue holds, several frames each, several connections
			sc.Conns = rapid.IntRange(2, 3).Draw(rt, "conns2")
			sc.Frames = rapid.SampledFrom([]int{2, 5}).Draw(rt, "frames2")
			sc.Streams = sc.Taken + acceptBacklog + rapid.SampledFrom([]int{1, 3, 40}).Draw(rt, "beyond2")
		}
		return sc
	}, func(sc c12Backlog) (vk.Result, error) {
		return vk.Protect(func() (vk.Result, error) { return c12BacklogRun(sc) })
	})
}
