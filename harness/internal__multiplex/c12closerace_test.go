package multiplex

import (
	"fmt"
	"sync"
	"testing"
	"time"

	"github.com/cbeuw/Cloak/internal/common"
	vk "github.com/cbeuw/Cloak/internal/verifkit"
	"pgregory.net/rapid"
)

// C12 (5) CloseRace, real time: "at every quiescent moment of a live session the count of active streams equals the
// number of open streams" when a stream is closed from both ends at the same moment, again and again: the local
// Stream.Close races with the processing of the peer's closing notice for the same stream. A canary stream stays
// open throughout. After every batch the system is allowed to settle (both Close calls returned, nothing in
// flight); then both sessions must count exactly the canary, and the session must still be open.

type c12CloseRace struct {
	Method  byte
	Key     string
	Conns   int
	Batches int
	PerB    int
	Stagger int // microseconds between the two closes (0: same instant)
}

func c12CloseRaceRun(sc c12CloseRace) (vk.Result, error) {
	res := vk.Result{NonTrivial: true}
	key := vKey(sc.Key)
	mk := func() SessionConfig {
		obfs, _ := MakeObfuscator(sc.Method, key)
		return SessionConfig{Obfuscator: obfs, MsgOnWireSizeLimit: 16401, InactivityTimeout: time.Hour}
	}
	cli, srv := MakeSession(11, mk()), MakeSession(11, mk())
	defer func() { go cli.Close(); go srv.Close() }()
	for i := 0; i < sc.Conns; i++ {
		l := vk.NewLink(i, false)
		l.SetAuto(vk.AtoB, true)
		l.SetAuto(vk.BtoA, true)
		cli.AddConnection(common.NewTLSConn(l.A))
		srv.AddConnection(common.NewTLSConn(l.B))
	}
	open := func() (*Stream, *Stream, error) {
		c, err := cli.OpenStream()
		if err != nil {
			return nil, nil, err
		}
		if _, err := c.Write([]byte{1}); err != nil {
			return nil, nil, err
		}
		a, err := srv.Accept()
		if err != nil {
			return nil, nil, err
		}
		return c, a.(*Stream), nil
	}
	if _, _, err := open(); err != nil { // the canary
		return res, vk.Violatef("cannot open the canary stream on a fresh session: %v", err)
	}
	settle := func(phase string) error {
		deadline := time.Now().Add(20 * time.Second)
		for {
			cc, sc2 := cli.streamCount(), srv.streamCount()
			if cc == 1 && sc2 == 1 {
				return nil
			}
			if cli.IsClosed() || srv.IsClosed() {
				return vk.ViolateSig("session-closed", "%s: the session closed itself although the canary stream is open and every connection healthy (client closed=%v, server closed=%v)", phase, cli.IsClosed(), srv.IsClosed())
			}
			if time.Now().After(deadline) {
				return vk.ViolateSig("streamcount", "%s: every Close has returned and nothing is in flight, one stream (the canary) is open, but the client counts %d and the server %d active streams", phase, cc, sc2)
			}
			time.Sleep(2 * time.Millisecond)
		}
	}
	for b := 0; b < sc.Batches; b++ {
		for k := 0; k < sc.PerB; k++ {
			c, a, err := open()
			if err != nil {
				return res, vk.Violatef("batch %d: opening a stream on the live session failed: %v", b, err)
			}
			var wg sync.WaitGroup
			start := make(chan struct{})
			wg.Add(2)
			go func() { defer wg.Done(); <-start; c.Close() }()
			go func() {
				defer wg.Done()
				<-start
				if sc.Stagger > 0 {
					time.Sleep(time.Duration(sc.Stagger) * time.Microsecond)
				}
				a.Close()
			}()
			close(start)
			wg.Wait()
		}
		if err := settle(fmt.Sprintf("after batch %d (%d streams closed from both ends at once)", b, (b+1)*sc.PerB)); err != nil {
			return res, err
		}
	}
	res.Labels = append(res.Labels, fmt.Sprintf("conns=%d", sc.Conns), fmt.Sprintf("stagger=%dus", sc.Stagger))
	res.Count = int64(sc.Batches * sc.PerB)
	return res, nil
}

func TestVerif_C12_CloseRace(t *testing.T) {
	vk.Run(t, "C12", "CloseRace", func(rt *rapid.T) c12CloseRace {
		return c12CloseRace{Method: rapid.SampledFrom(vAllMethods).Draw(rt, "method"), Key: genKey(rt), Conns: rapid.IntRange(1, 3).Draw(rt, "conns"),
			Batches: rapid.IntRange(2, 6).Draw(rt, "batches"), PerB: rapid.SampledFrom([]int{50, 200, 500}).Draw(rt, "perb"), Stagger: rapid.SampledFrom([]int{0, 0, 5, 20, 60}).Draw(rt, "stagger")}
	}, func(sc c12CloseRace) (vk.Result, error) {
		return vk.Protect(func() (vk.Result, error) { return c12CloseRaceRun(sc) })
	})
}
