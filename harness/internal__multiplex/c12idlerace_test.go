package multiplex

import (
	"bytes"
	"fmt"
	"io"
	"sync"
	"testing"
	"time"

	"github.com/cbeuw/Cloak/internal/common"
	vk "github.com/cbeuw/Cloak/internal/verifkit"
	log "github.com/sirupsen/logrus"
	"pgregory.net/rapid"
)

// C12 (9) IdleRace, real time: "the inactivity timeout closes a session only while it has no open stream" when the
// session's last stream is closed at the very moment the next one is opened (a proxy client that reconnects at once):
// the stream count passes through zero, or not, depending on who is first, and whatever the session arms or cancels at
// that moment must not cost the new stream its session later. Many independent session pairs do one such handover each
// at generated offsets; then every pair keeps its new stream open and stays silent for longer than the inactivity
// timeout; then every session must still be open and the new stream must still carry data both ways.
//
// To widen the windows inside the code under test every log statement is a scheduling point here: logging is enabled at
// trace level into a sink and a hook pauses the calling goroutine for a few microseconds (the pause only moves
// goroutines relative to one another; no oracle depends on it).
//
// Soundness: a session may legitimately be closed by a timer that fires while it has no stream. The handovers of all
// pairs therefore have to be over well within one timeout period (measured; otherwise the case is not judged): a timer
// armed during a handover fires when the new stream has been open for a long time. The timer every session arms when it
// is made is waited out before the handovers start (first version of this check did not, and raised a false alarm on
// the unchanged tree in 1 of ~20 runs, on a heavily loaded machine where setting the pairs up took about one timeout
// period: that timer met the instant between close and open).

type c12IdleRace struct {
	Method  byte
	Key     string
	Conns   int
	Pairs   int
	Offsets []int  // per pair: microseconds by which the opener lags behind the closer (negative: it leads)
	Who     []byte // per pair: 0 the client closes the old stream, 1 the server does, 2 both
}

type vYieldHook struct{}

func (vYieldHook) Levels() []log.Level { return log.AllLevels }
func (vYieldHook) Fire(*log.Entry) error {
	time.Sleep(15 * time.Microsecond)
	return nil
}

var c12IdleHookOnce sync.Once

func c12IdleRaceRun(sc c12IdleRace) (vk.Result, error) {
	res := vk.Result{NonTrivial: true}
	c12IdleHookOnce.Do(func() {
		log.SetOutput(io.Discard)
		log.SetLevel(log.TraceLevel)
		log.AddHook(vYieldHook{})
	})
	const timeout = 700 * time.Millisecond
	key := vKey(sc.Key)
	mk := func() SessionConfig {
		obfs, _ := MakeObfuscator(sc.Method, key)
		return SessionConfig{Obfuscator: obfs, MsgOnWireSizeLimit: 16401, InactivityTimeout: timeout}
	}
	type pair struct {
		cli, srv   *Session
		oldC, oldS *Stream
		newC, newS *Stream
		err        error
	}
	pairs := make([]*pair, sc.Pairs)
	defer func() {
		for _, p := range pairs {
			if p != nil {
				go p.cli.Close()
				go p.srv.Close()
			}
		}
	}()
	openOn := func(p *pair) (*Stream, *Stream, error) {
		c, err := p.cli.OpenStream()
		if err != nil {
			return nil, nil, err
		}
		if _, err := c.Write([]byte{1}); err != nil {
			return nil, nil, err
		}
		a, err := p.srv.Accept()
		if err != nil {
			return nil, nil, err
		}
		b := make([]byte, 1)
		if _, err := io.ReadFull(a, b); err != nil {
			return nil, nil, err
		}
		return c, a.(*Stream), nil
	}
	for i := range pairs {
		p := &pair{cli: MakeSession(uint32(20+i), mk()), srv: MakeSession(uint32(20+i), mk())}
		pairs[i] = p
		for k := 0; k < sc.Conns; k++ {
			l := vk.NewLink(i*8+k, false)
			l.SetAuto(vk.AtoB, true)
			l.SetAuto(vk.BtoA, true)
			p.cli.AddConnection(common.NewTLSConn(l.A))
			p.srv.AddConnection(common.NewTLSConn(l.B))
		}
		var err error
		if p.oldC, p.oldS, err = openOn(p); err != nil {
			return res, vk.Violatef("cannot open the first stream on a fresh session: %v", err)
		}
	}
	// every session armed a timer when it was made; those must have fired (and found the first stream open) before
	// the handovers begin, or one of them could legitimately meet the instant between the close and the open
	time.Sleep(2 * timeout)
	t0 := time.Now()
	var wg sync.WaitGroup
	for i, p := range pairs {
		off := time.Duration(sc.Offsets[i%len(sc.Offsets)]) * time.Microsecond
		who := sc.Who[i%len(sc.Who)]
		start := make(chan struct{})
		wg.Add(2)
		go func() {
			defer wg.Done()
			<-start
			if off < 0 {
				time.Sleep(-off)
			}
			if who == 0 || who == 2 {
				p.oldC.Close()
			}
			if who == 1 || who == 2 {
				p.oldS.Close()
			}
		}()
		go func() {
			defer wg.Done()
			<-start
			if off > 0 {
				time.Sleep(off)
			}
			p.newC, p.newS, p.err = openOn(p)
		}()
		close(start)
	}
	wg.Wait()
	handover := time.Since(t0)
	for i, p := range pairs {
		if p.err != nil {
			return res, vk.Violatef("pair %d: opening a stream on a live session while its other stream was being closed failed: %v", i, p.err)
		}
	}
	if handover > timeout/3 {
		// too slow (loaded machine): a timer armed early in the handover phase could fire while a later pair still has
		// no stream; nothing is concluded from this case
		res.NonTrivial = false
		res.Labels = append(res.Labels, "not-judged:handover-phase-took-too-long")
		return res, nil
	}
	time.Sleep(timeout + timeout/2)
	for i, p := range pairs {
		if p.cli.IsClosed() || p.srv.IsClosed() {
			return res, vk.ViolateSig("idle-closed-with-open-stream", "pair %d (%d connections, opener offset %d us): the session closed itself %v after its last stream was closed, although another stream had been opened at that moment and is still open (client closed=%v %q, counts %d; server closed=%v %q, counts %d; inactivity timeout %v, handover phase %v) - the timeout may close a session only while it has no open stream", i, sc.Conns, sc.Offsets[i%len(sc.Offsets)], time.Since(t0), p.cli.IsClosed(), p.cli.TerminalMsg(), p.cli.streamCount(), p.srv.IsClosed(), p.srv.TerminalMsg(), p.srv.streamCount(), timeout, handover)
		}
		msg := []byte(fmt.Sprintf("still-alive-%d", i))
		if _, err := p.newC.Write(msg); err != nil {
			return res, vk.ViolateSig("idle-closed-with-open-stream", "pair %d: write on the open stream of the idle session failed: %v", i, err)
		}
		got := make([]byte, len(msg))
		p.newS.SetReadDeadline(time.Now().Add(10 * time.Second))
		if _, err := io.ReadFull(p.newS, got); err != nil || !bytes.Equal(got, msg) {
			return res, vk.ViolateSig("idle-closed-with-open-stream", "pair %d: the open stream of the idle session no longer carries data: %v", i, err)
		}
		if _, err := p.newS.Write(msg); err != nil {
			return res, vk.ViolateSig("idle-closed-with-open-stream", "pair %d: write on the open stream of the idle session (server side) failed: %v", i, err)
		}
		p.newC.SetReadDeadline(time.Now().Add(10 * time.Second))
		if _, err := io.ReadFull(p.newC, got); err != nil || !bytes.Equal(got, msg) {
			return res, vk.ViolateSig("idle-closed-with-open-stream", "pair %d: the open stream of the idle session no longer carries data towards the client: %v", i, err)
		}
	}
	res.Labels = append(res.Labels, fmt.Sprintf("conns=%d", sc.Conns))
	res.Count = int64(sc.Pairs)
	return res, nil
}

func TestVerif_C12_IdleRace(t *testing.T) {
	vk.Run(t, "C12", "IdleRace", func(rt *rapid.T) c12IdleRace {
		sc := c12IdleRace{Method: rapid.SampledFrom(vAllMethods).Draw(rt, "method"), Key: genKey(rt), Conns: rapid.IntRange(1, 3).Draw(rt, "conns"),
			Pairs: rapid.IntRange(16, 48).Draw(rt, "pairs")}
		for i := 0; i < 16; i++ {
			sc.Offsets = append(sc.Offsets, rapid.IntRange(-40, 250).Draw(rt, "offset"))
			sc.Who = append(sc.Who, byte(rapid.IntRange(0, 2).Draw(rt, "who")))
		}
		return sc
	}, func(sc c12IdleRace) (vk.Result, error) {
		return vk.Protect(func() (vk.Result, error) { return c12IdleRaceRun(sc) })
	})
}
