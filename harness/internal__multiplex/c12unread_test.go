package multiplex

import (
	"fmt"
	"sync/atomic"
	"testing"
	"time"

	"github.com/cbeuw/Cloak/internal/common"
	vk "github.com/cbeuw/Cloak/internal/verifkit"
	"pgregory.net/rapid"
)

// C12 (6) UnreadBacklog, real time: the session ends - a reset, either side's Close - while one stream holds a large
// backlog its application has stopped reading (megabytes: a stalled consumer behind a fast sender) and a reader is
// parked on another, idle stream. Every blocked call must return, the backlog's reader gets a prefix of what was
// written and then an error, new streams are refused and every connection ends up closed. Verdict only from a
// stalled progress counter plus two identical goroutine dumps.

type c12Unread struct {
	Method  byte
	Key     string
	Conns   int
	MiB     int    // written to the stream nobody reads
	Trigger string // "reset" | "close-receiver" | "close-sender"
}

func c12UnreadRun(sc c12Unread) (vk.Result, error) {
	res := vk.Result{NonTrivial: sc.MiB >= 8}
	key := vKey(sc.Key)
	mk := func() SessionConfig {
		obfs, _ := MakeObfuscator(sc.Method, key)
		return SessionConfig{Obfuscator: obfs, MsgOnWireSizeLimit: 16401, InactivityTimeout: time.Hour}
	}
	sender, receiver := MakeSession(11, mk()), MakeSession(11, mk())
	defer func() {
		go sender.Close()
		go receiver.Close()
	}()
	var links []*vk.Link
	for i := 0; i < sc.Conns; i++ {
		l := vk.NewLink(i, false)
		l.SetAuto(vk.AtoB, true)
		l.SetAuto(vk.BtoA, true)
		links = append(links, l)
		sender.AddConnection(common.NewTLSConn(l.A))
		receiver.AddConnection(common.NewTLSConn(l.B))
	}
	var progress int64
	w := c01LiveWait{&progress}
	total := int64(sc.MiB) << 20
	a, err := sender.OpenStream()
	if err != nil {
		return res, fmt.Errorf("harness: %v", err)
	}
	b, err := sender.OpenStream()
	if err != nil {
		return res, fmt.Errorf("harness: %v", err)
	}
	a.Write([]byte{0xA0})
	b.Write([]byte{0xB0})
	ra, err := receiver.Accept()
	if err != nil {
		return res, vk.Violatef("Accept on a healthy session failed: %v", err)
	}
	rb, err := receiver.Accept()
	if err != nil {
		return res, vk.Violatef("Accept on a healthy session failed: %v", err)
	}
	if ra.(*Stream).id != a.id {
		ra, rb = rb, ra
	}
	one := make([]byte, 1)
	rb.Read(one)
	// the idle stream's reader parks
	var bDone atomic.Bool
	go func() {
		buf := make([]byte, 100)
		for {
			if _, err := rb.Read(buf); err != nil {
				bDone.Store(true)
				atomic.AddInt64(&progress, 1)
				return
			}
		}
	}()
	// the fast sender: total bytes on stream A, which nobody reads
	var written int64
	var wDone atomic.Bool
	go func() {
		chunk := make([]byte, 64<<10)
		for off := int64(1); off < total; {
			n := int64(len(chunk))
			if total-off < n {
				n = total - off
			}
			for i := int64(0); i < n; i++ {
				chunk[i] = vPRF(77, uint64(off+i))
			}
			m, err := a.Write(chunk[:n])
			off += int64(m)
			atomic.StoreInt64(&written, off)
			atomic.AddInt64(&progress, 1)
			if err != nil {
				break
			}
		}
		wDone.Store(true)
		atomic.AddInt64(&progress, 1)
	}()
	// everything written is with the receiver (the links deliver at once) or the writer is held back by the receiver
	if err := w.wait(fmt.Sprintf("%d MiB to be written to a stream whose reader has stalled", sc.MiB), func() bool { return wDone.Load() }); err != nil {
		if v, ok := err.(*vk.Violation); ok {
			v.Sig = "unread-backlog-stalls-session"
		}
		return res, err
	}
	time.Sleep(10 * time.Millisecond)
	closeRet := make(chan struct{})
	switch sc.Trigger {
	case "reset":
		links[0].Reset()
		close(closeRet)
	case "close-sender":
		go func() { sender.Close(); atomic.AddInt64(&progress, 1); close(closeRet) }()
	default:
		go func() { receiver.Close(); atomic.AddInt64(&progress, 1); close(closeRet) }()
	}
	what := fmt.Sprintf("the teardown (%s) with %d MiB unread on one stream", sc.Trigger, sc.MiB)
	if err := w.wait(what, func() bool {
		select {
		case <-closeRet:
		default:
			return false
		}
		if !sender.IsClosed() || !receiver.IsClosed() || !bDone.Load() {
			return false
		}
		for _, l := range links {
			if l.A.CloseCalls == 0 || l.B.CloseCalls == 0 {
				return false
			}
		}
		return true
	}); err != nil {
		if v, ok := err.(*vk.Violation); ok {
			v.Sig = "teardown-stuck-behind-unread-backlog"
			v.Msg = fmt.Sprintf("with %d MiB received but unread on one stream the session cannot be torn down (%s): sender closed=%v receiver closed=%v, reader of the idle stream released=%v: ", sc.MiB, sc.Trigger, sender.IsClosed(), receiver.IsClosed(), bDone.Load()) + v.Msg
		}
		return res, err
	}
	// the stalled application wakes up: a prefix of what was written, then an error
	var got int64 = 0
	var rdErr error
	rdone := make(chan struct{})
	go func() {
		defer close(rdone)
		buf := make([]byte, 1<<20)
		for {
			n, err := ra.Read(buf)
			for i := 0; i < n; i++ {
				want := vPRF(77, uint64(got)+uint64(i))
				if got+int64(i) == 0 {
					want = 0xA0
				}
				if buf[i] != want {
					rdErr = vk.ViolateSig("content-after-teardown", "byte %d read from the backlog after the teardown differs from what was written", got+int64(i))
					return
				}
			}
			got += int64(n)
			atomic.AddInt64(&progress, 1)
			if err != nil {
				return
			}
		}
	}()
	if err := w.wait("the reader of the backlog to reach the end after the teardown", func() bool {
		select {
		case <-rdone:
			return true
		default:
			return false
		}
	}); err != nil {
		return res, err
	}
	if rdErr != nil {
		return res, rdErr
	}
	if got > atomic.LoadInt64(&written) {
		return res, vk.Violatef("the reader got %d bytes, more than the %d written", got, written)
	}
	if _, err := receiver.OpenStream(); err == nil {
		return res, vk.Violatef("OpenStream succeeded after the session was torn down")
	}
	res.Labels = append(res.Labels, "trigger="+sc.Trigger, fmt.Sprintf("unread-MiB=%d", sc.MiB))
	return res, nil
}

func TestVerif_C12_UnreadBacklog(t *testing.T) {
	vk.Run(t, "C12", "UnreadBacklog", func(rt *rapid.T) c12Unread {
		return c12Unread{Method: rapid.SampledFrom(vAllMethods).Draw(rt, "method"), Key: genKey(rt), Conns: rapid.IntRange(1, 3).Draw(rt, "conns"),
			MiB:     rapid.SampledFrom([]int{1, 8, 20, 40, 70}).Draw(rt, "mib"),
			Trigger: rapid.SampledFrom([]string{"reset", "close-receiver", "close-sender"}).Draw(rt, "trigger")}
	}, func(sc c12Unread) (vk.Result, error) {
		return vk.Protect(func() (vk.Result, error) { return c12UnreadRun(sc) })
	})
}
