package multiplex

import (
	"encoding/binary"
	"fmt"
	"io"
	"net"
	"sort"
	"sync"
	"sync/atomic"
	"testing"
	"time"

	vk "github.com/cbeuw/Cloak/internal/verifkit"
	"pgregory.net/rapid"
)

// C13 - per-stream sequence numbers on the wire are unique, gap-free and in write order; the closing frame is
// numbered after every frame of the writes completed before the close. Oracle = wire tap decoded with the
// independent reference codec.

func c13Gen(rt *rapid.T) rigScenario {
	sc := rigScenario{Cfg: genCfg(rt, false)}
	nStreams := 1
	if !sc.Cfg.Singleplex {
		nStreams = rapid.IntRange(1, 4).Draw(rt, "nstreams")
	}
	sc.Ops = append(sc.Ops, rigOp{K: "open"})
	opened := 1
	if rapid.IntRange(0, 9).Draw(rt, "acceptorcloses") < 3 {
		// the accepting side closes a stream on which it has not written anything (sequence number 0 is its closing frame)
		sc.Ops = append(sc.Ops, rigOp{K: "write", Side: 0, S: 0, N: rapid.SampledFrom([]int{1, 300, vMaxUnit + 5}).Draw(rt, "acw")})
		for c := 0; c < sc.Cfg.NumConn; c++ {
			sc.Ops = append(sc.Ops, rigOp{K: "deliver", Side: 0, C: c, Mode: 2})
		}
		if rapid.Bool().Draw(rt, "acread") {
			sc.Ops = append(sc.Ops, rigOp{K: "read", Side: 1, S: 0, N: 70000})
		}
		sc.Ops = append(sc.Ops, rigOp{K: "close", Side: 1, S: 0})
	}
	nOps := rapid.IntRange(1, 50).Draw(rt, "nops")
	for i := 0; i < nOps; i++ {
		k := rapid.IntRange(0, 99).Draw(rt, "kind")
		s := rapid.IntRange(0, opened-1).Draw(rt, "s")
		side := rapid.IntRange(0, 1).Draw(rt, "side")
		switch {
		case k < 8 && opened < nStreams:
			sc.Ops = append(sc.Ops, rigOp{K: "open"})
			opened++
		case k < 35:
			sc.Ops = append(sc.Ops, rigOp{K: "write", Side: side, S: s, N: genSize(rt)})
		case k < 55:
			nc := rapid.IntRange(1, 5).Draw(rt, "nchunks")
			var l []int
			for j := 0; j < nc; j++ {
				l = append(l, rapid.OneOf(rapid.IntRange(1, 200), rapid.SampledFrom([]int{vMaxUnit, vMaxUnit + 1, 2*vMaxUnit + 3, 8000})).Draw(rt, "chunk"))
			}
			sc.Ops = append(sc.Ops, rigOp{K: "readfrom", Side: side, S: s, L: l})
		case k < 85:
			sc.Ops = append(sc.Ops, genDeliver(rt, sc.Cfg.NumConn))
		case k < 99:
			sc.Ops = append(sc.Ops, rigOp{K: "close", Side: side, S: s})
		default:
			sc.Ops = append(sc.Ops, rigOp{K: "reset", C: rapid.IntRange(0, sc.Cfg.NumConn-1).Draw(rt, "rc")})
		}
	}
	return sc
}

type c13Frame struct {
	seq     uint64
	closing uint8
	payload []byte
}

// c13Tap decodes everything the sender of direction d put on the wire and checks the numbering.
func c13Tap(r *rig) (frames int, multiFrameWrites bool, err error) {
	for _, d := range []vk.Dir{vk.AtoB, vk.BtoA} {
		writerSide := sideC
		if d == vk.BtoA {
			writerSide = sideS
		}
		byStream := map[uint32][]c13Frame{}
		notices := 0
		for li, l := range r.links {
			wire := l.Wire(d)
			recs, rest := vk.SplitTLSRecords(wire)
			if len(rest) != 0 {
				return 0, false, vk.Violatef("link %d: trailing partial record on the wire", li)
			}
			for _, rec := range recs {
				f, derr := r.ref.Decode(rec.Body)
				if derr != nil {
					return 0, false, vk.Violatef("link %d: a message on the wire does not decode under the session key: %v", li, derr)
				}
				if f.Closing == closingSession {
					// the session-closing notice travels as (stream id 0xffffffff, sequence number 0): a second one from
					// the same endpoint is a second message under the same key and nonce
					if notices++; notices > 1 {
						return 0, false, vk.ViolateSig("seq-reuse", "side %d put %d session-closing notices on the wire: they share (stream id %#x, sequence number %d) under one session key (nonce reuse)", writerSide, notices, f.StreamID, f.Seq)
					}
					continue
				}
				byStream[f.StreamID] = append(byStream[f.StreamID], c13Frame{f.Seq, f.Closing, f.Payload})
				frames++
			}
		}
		for sid, fs := range byStream {
			sort.Slice(fs, func(i, j int) bool { return fs[i].seq < fs[j].seq })
			for i := 1; i < len(fs); i++ {
				if fs[i].seq == fs[i-1].seq {
					return 0, false, vk.ViolateSig("seq-reuse", "stream %d side %d: sequence number %d used by two messages under one session key (nonce reuse)", sid, writerSide, fs[i].seq)
				}
			}
			if !r.faulted {
				for i, f := range fs {
					if f.seq != uint64(i) {
						return 0, false, vk.Violatef("stream %d side %d: sequence numbers are not 0..n-1 (position %d carries %d) although no send failed", sid, writerSide, i, f.seq)
					}
				}
			}
			// payloads in sequence order are the bytes in the order the writes were accepted
			tag := rigTag(sid, writerSide)
			var off uint64
			for i, f := range fs {
				if f.closing == closingStream {
					if i != len(fs)-1 {
						return 0, false, vk.Violatef("stream %d side %d: closing frame numbered %d but data frame(s) of earlier writes carry higher numbers", sid, writerSide, f.seq)
					}
					continue
				}
				for j, b := range f.payload {
					if b != vPRF(tag, off+uint64(j)) {
						return 0, false, vk.Violatef("stream %d side %d: frame seq %d does not carry the bytes written at stream offset %d (frames not in write order)", sid, writerSide, f.seq, off+uint64(j))
					}
				}
				off += uint64(len(f.payload))
			}
			r.mu.Lock()
			s := r.streams[writerSide][sid]
			r.mu.Unlock()
			if s != nil && !r.faulted {
				if int64(off) != s.accepted {
					return 0, false, vk.Violatef("stream %d side %d: %d payload bytes on the wire but %d bytes were accepted by Write/ReadFrom", sid, writerSide, off, s.accepted)
				}
				if s.closeDone && s.closeErr == nil {
					if len(fs) == 0 || fs[len(fs)-1].closing != closingStream {
						return 0, false, vk.Violatef("stream %d side %d: Close returned but no closing frame is on the wire after the data", sid, writerSide)
					}
				}
				if s.accepted > int64(vMaxUnit) {
					multiFrameWrites = true
				}
			}
		}
		// streams that put nothing on the wire in this direction: a completed Close must still have sent its closing frame
		if !r.faulted {
			r.mu.Lock()
			var mine []*rigStream
			for _, s := range r.streams[writerSide] {
				mine = append(mine, s)
			}
			r.mu.Unlock()
			for _, s := range mine {
				if s.closeDone && s.closeErr == nil && len(byStream[s.id]) == 0 {
					return 0, false, vk.Violatef("stream %d side %d: Close returned but nothing at all is on the wire for this direction - not even the closing frame (it must be numbered 0 when nothing was written)", s.id, writerSide)
				}
			}
		}
	}
	return frames, multiFrameWrites, nil
}

func c13Run(t *testing.T) func(sc rigScenario) (vk.Result, error) {
	return func(sc rigScenario) (vk.Result, error) {
		var res vk.Result
		var verr error
		berr := vk.Bubble(t, func() {
			r, err := newRig(t, sc.Cfg)
			if err != nil {
				verr = fmt.Errorf("harness: %v", err)
				return
			}
			defer r.teardown()
			for _, op := range sc.Ops {
				if verr = r.step(op); verr != nil {
					return
				}
			}
			frames, multi, e := c13Tap(r)
			verr = e
			res.NonTrivial = frames >= 3
			if multi {
				res.Labels = append(res.Labels, "write-split-into-several-frames")
			}
			if r.faulted {
				res.Labels = append(res.Labels, "with-failed-sends")
			}
			if r.closedAny {
				res.Labels = append(res.Labels, "with-close")
			}
			for _, op := range sc.Ops {
				if op.K == "readfrom" {
					res.Labels = append(res.Labels, "with-readfrom")
					break
				}
			}
		})
		if verr == nil && berr != nil {
			verr = fmt.Errorf("harness: bubble: %v", firstLine(berr.Error()))
		}
		return res, verr
	}
}

// C13 (5) SessionClose: several callers close one session at overlapping times (the inactivity timer, the user's
// termination, the serving goroutine's error path) while the sender is rate limited, so that the first caller's notice
// is still waiting for its allowance when the others arrive. Same tap oracle: in particular no second message with the
// notice's (stream id, sequence number).
func TestVerif_C13_SessionClose(t *testing.T) {
	vk.Run(t, "C13", "SessionClose", func(rt *rapid.T) rigScenario {
		sc := rigScenario{Cfg: genCfg(rt, false)}
		sc.Cfg.Plain = false
		sc.Cfg.RxRate, sc.Cfg.TxRate = 1<<30, int64(rapid.SampledFrom([]int{300, 2000, 20000}).Draw(rt, "txrate"))
		sc.Ops = append(sc.Ops, rigOp{K: "open"}, rigOp{K: "write", Side: sideC, S: 0, N: rapid.IntRange(1, 3000).Draw(rt, "cw")})
		for c := 0; c < sc.Cfg.NumConn; c++ {
			sc.Ops = append(sc.Ops, rigOp{K: "deliver", Side: sideC, C: c, Mode: 2})
		}
		if rapid.Bool().Draw(rt, "sw") {
			sc.Ops = append(sc.Ops, rigOp{K: "write", Side: sideS, S: 0, N: rapid.IntRange(1, 600).Draw(rt, "swn")}, rigOp{K: "sleep", D: rapid.SampledFrom([]int{0, 100, 5000, 60000}).Draw(rt, "gap")})
		}
		op := rigOp{K: "sclose", Side: sideS}
		for k, n := 0, rapid.IntRange(1, 3).Draw(rt, "others"); k < n; k++ {
			op.Par = append(op.Par, rigOp{K: "sclose", Side: sideS})
		}
		sc.Ops = append(sc.Ops, op, rigOp{K: "sleep", D: 120000})
		return sc
	}, func(sc rigScenario) (vk.Result, error) {
		res, err := c13Run(t)(sc)
		res.NonTrivial = true
		res.Labels = append(res.Labels, "overlapping-session-closes")
		return res, err
	})
}

func TestVerif_C13_Scenarios(t *testing.T) {
	vk.Run(t, "C13", "Scenarios", c13Gen, c13Run(t))
}

// ---- stress: real concurrency on one stream ----

type sinkConn struct {
	mu     sync.Mutex
	msgs   [][]byte
	closed chan struct{}
	once   sync.Once
}

func newSinkConn() *sinkConn { return &sinkConn{closed: make(chan struct{})} }
func (c *sinkConn) Write(p []byte) (int, error) {
	select {
	case <-c.closed:
		return 0, net.ErrClosed
	default:
	}
	b := append([]byte(nil), p...)
	c.mu.Lock()
	c.msgs = append(c.msgs, b)
	c.mu.Unlock()
	return len(p), nil
}
func (c *sinkConn) Read(p []byte) (int, error)       { <-c.closed; return 0, io.EOF }
func (c *sinkConn) Close() error                     { c.once.Do(func() { close(c.closed) }); return nil }
func (c *sinkConn) LocalAddr() net.Addr              { return &net.TCPAddr{} }
func (c *sinkConn) RemoteAddr() net.Addr             { return &net.TCPAddr{} }
func (c *sinkConn) SetDeadline(time.Time) error      { return nil }
func (c *sinkConn) SetReadDeadline(time.Time) error  { return nil }
func (c *sinkConn) SetWriteDeadline(time.Time) error { return nil }

type c13Stress struct {
	Method  byte
	Key     string
	Conns   int
	Writers []c13Writer
	// CloseAfter > 0: a closer goroutine calls Close once that many writes (over all writers) have completed
	CloseAfter int
	Streams    int  // >1: additional streams opened concurrently (ids must be distinct)
	Unordered  bool `json:",omitempty"` // datagram-mode session (a Write is one frame; larger writes are refused)
}

type c13Writer struct {
	ReadFrom bool
	Sizes    []int
}

type slowChunks struct {
	g      int
	k      *int32
	sizes  []int
	i      int
	done   *int64
	isDone func()
}

func c13Fill(b []byte, g, k int) {
	// 8-byte marker then PRF
	if len(b) >= 8 {
		binary.BigEndian.PutUint32(b[0:4], uint32(g)|0xC1300000)
		binary.BigEndian.PutUint32(b[4:8], uint32(k))
		vFill(b[8:], uint64(g)<<32|uint64(k), 8)
	}
}

type c13Reader struct {
	g     int
	sizes []int
	i     int
	after func()
}

func (c *c13Reader) Read(p []byte) (int, error) {
	if c.i > 0 && c.after != nil {
		c.after() // the previous chunk has been sent
	}
	if c.i >= len(c.sizes) {
		return 0, io.EOF
	}
	n := c.sizes[c.i]
	if n > len(p) {
		n = len(p)
	}
	c13Fill(p[:n], c.g, c.i)
	c.i++
	return n, nil
}

func c13StressRun(sc c13Stress) (vk.Result, error) {
	res := vk.Result{}
	key := vKey(sc.Key)
	obfs, err := MakeObfuscator(sc.Method, key)
	if err != nil {
		return res, fmt.Errorf("harness: %v", err)
	}
	ref, _ := vk.NewRefCodec(sc.Method, key)
	sesh := MakeSession(1, SessionConfig{Obfuscator: obfs, MsgOnWireSizeLimit: 16401, Unordered: sc.Unordered})
	var sinks []*sinkConn
	for i := 0; i < sc.Conns; i++ {
		c := newSinkConn()
		sinks = append(sinks, c)
		sesh.AddConnection(c)
	}
	// concurrent OpenStream: ids must be distinct
	nst := sc.Streams
	if nst < 1 {
		nst = 1
	}
	sts := make([]*Stream, nst)
	var owg sync.WaitGroup
	for i := 0; i < nst; i++ {
		owg.Add(1)
		go func(i int) {
			defer owg.Done()
			sts[i], _ = sesh.OpenStream()
		}(i)
	}
	owg.Wait()
	ids := map[uint32]bool{}
	for _, s := range sts {
		if s == nil {
			return res, vk.Violatef("OpenStream failed on a healthy session")
		}
		if ids[s.id] {
			return res, vk.Violatef("two concurrent OpenStream calls returned the same stream id %d", s.id)
		}
		ids[s.id] = true
	}
	st := sts[0]
	var completed int64
	doneBy := make([]int32, len(sc.Writers)) // number of completed writes per writer
	var closeSnap []int32
	var closeCalled int32
	var wg sync.WaitGroup
	start := make(chan struct{})
	closeNow := make(chan struct{})
	var closeOnce sync.Once
	bump := func(g int) {
		atomic.AddInt32(&doneBy[g], 1)
		if n := atomic.AddInt64(&completed, 1); sc.CloseAfter > 0 && int(n) == sc.CloseAfter {
			closeOnce.Do(func() { close(closeNow) })
		}
	}
	failedWrites := int32(0)
	for g, w := range sc.Writers {
		wg.Add(1)
		go func(g int, w c13Writer) {
			defer wg.Done()
			<-start
			if w.ReadFrom {
				rd := &c13Reader{g: g, sizes: w.Sizes, after: func() { bump(g) }}
				_, err := st.ReadFrom(rd)
				if err != io.EOF {
					atomic.AddInt32(&failedWrites, 1)
				}
				return
			}
			for k, n := range w.Sizes {
				if sc.Unordered && n > vMaxUnit {
					n = vMaxUnit
				}
				b := make([]byte, n)
				c13Fill(b, g, k)
				if _, err := st.Write(b); err != nil {
					atomic.AddInt32(&failedWrites, 1)
					return
				}
				bump(g)
			}
		}(g, w)
	}
	if sc.CloseAfter > 0 {
		wg.Add(1)
		go func() {
			defer wg.Done()
			select {
			case <-closeNow:
			case <-time.After(20 * time.Second):
				return
			}
			snap := make([]int32, len(doneBy))
			for i := range snap {
				snap[i] = atomic.LoadInt32(&doneBy[i])
			}
			closeSnap = snap
			atomic.StoreInt32(&closeCalled, 1)
			st.Close()
		}()
	}
	close(start)
	wg.Wait()
	sesh.Close()

	// decode the tap
	type fr struct {
		seq     uint64
		closing uint8
		payload []byte
	}
	var fs []fr
	for _, c := range sinks {
		c.mu.Lock()
		for _, m := range c.msgs {
			f, derr := ref.Decode(m)
			if derr != nil {
				c.mu.Unlock()
				return res, vk.Violatef("a message on the wire does not decode under the session key: %v", derr)
			}
			if f.Closing == closingSession || f.StreamID != st.id {
				continue
			}
			fs = append(fs, fr{f.Seq, f.Closing, f.Payload})
		}
		c.mu.Unlock()
	}
	sort.Slice(fs, func(i, j int) bool { return fs[i].seq < fs[j].seq })
	for i := range fs {
		if i > 0 && fs[i].seq == fs[i-1].seq {
			return res, vk.ViolateSig("seq-reuse", "sequence number %d used by two messages of one stream under one session key (nonce reuse)", fs[i].seq)
		}
		if fs[i].seq != uint64(i) {
			return res, vk.Violatef("sequence numbers are not gap-free: position %d carries %d (no send failed)", i, fs[i].seq)
		}
	}
	// parse the writes back
	next := make([]int, len(sc.Writers))
	lastSeqOf := map[[2]int]uint64{}
	closingSeq, haveClosing := uint64(0), false
	for i := 0; i < len(fs); {
		f := fs[i]
		if f.closing == closingStream {
			closingSeq, haveClosing = f.seq, true
			i++
			continue
		}
		if len(f.payload) < 8 || binary.BigEndian.Uint32(f.payload[0:4])&0xFFFF0000 != 0xC1300000 {
			return res, vk.Violatef("frame seq %d does not start a write although the previous write was complete: frames of different writes are interleaved", f.seq)
		}
		g := int(binary.BigEndian.Uint32(f.payload[0:4]) & 0xFFFF)
		k := int(binary.BigEndian.Uint32(f.payload[4:8]))
		if g >= len(sc.Writers) || k >= len(sc.Writers[g].Sizes) {
			return res, vk.Violatef("frame seq %d carries an unknown write marker", f.seq)
		}
		if k != next[g] {
			return res, vk.Violatef("writer %d: write #%d appears on the wire where write #%d was expected (writes of one goroutine out of order or duplicated)", g, k, next[g])
		}
		next[g]++
		wantLen := sc.Writers[g].Sizes[k]
		if sc.Unordered && wantLen > vMaxUnit {
			wantLen = vMaxUnit
		}
		want := make([]byte, wantLen)
		c13Fill(want, g, k)
		off := 0
		for off < len(want) {
			if i >= len(fs) || fs[i].closing != closingNothing {
				return res, vk.Violatef("writer %d write #%d: only %d of %d bytes on the wire before another write/close begins", g, k, off, len(want))
			}
			p := fs[i].payload
			if off+len(p) > len(want) || string(p) != string(want[off:off+len(p)]) {
				return res, vk.Violatef("writer %d write #%d: frame seq %d does not continue this write at offset %d (frames of concurrent writes interleaved or reordered)", g, k, fs[i].seq, off)
			}
			off += len(p)
			lastSeqOf[[2]int{g, k}] = fs[i].seq
			i++
		}
	}
	nClosing, firstClosing := 0, uint64(0)
	for _, f := range fs {
		if f.closing == closingStream {
			if nClosing == 0 {
				firstClosing = f.seq
			}
			nClosing++
		}
	}
	if nClosing > 1 {
		return res, vk.Violatef("%d messages of the stream carry the closing flag (the first is numbered %d, the last %d) although Close was called once: messages were put on the wire after the closing frame - a write was accepted on the closed stream and the peer drops what follows the first of them", nClosing, firstClosing, closingSeq)
	}
	if haveClosing {
		for _, f := range fs {
			if f.closing == closingNothing && f.seq > closingSeq {
				return res, vk.Violatef("a data frame numbered %d is on the wire after the closing frame (%d): a write was accepted on the closed stream - the closing frame is not numbered after every frame, and the peer drops what follows it", f.seq, closingSeq)
			}
		}
	}
	if atomic.LoadInt32(&closeCalled) == 1 {
		if !haveClosing {
			return res, vk.Violatef("Close was called and returned but no closing frame is on the wire")
		}
		for g := range closeSnap {
			for k := 0; k < int(closeSnap[g]); k++ {
				if ls, ok := lastSeqOf[[2]int{g, k}]; !ok || ls > closingSeq {
					return res, vk.Violatef("closing frame numbered %d, but write #%d of writer %d completed before Close was called and its last frame is numbered %d (present=%v)", closingSeq, k, g, ls, ok)
				}
			}
		}
		res.Labels = append(res.Labels, "racing-close")
	} else {
		for g := range sc.Writers {
			if next[g] != len(sc.Writers[g].Sizes) {
				return res, vk.Violatef("writer %d: %d of %d accepted writes are on the wire", g, next[g], len(sc.Writers[g].Sizes))
			}
		}
	}
	res.NonTrivial = len(sc.Writers) >= 2
	res.Count = 1
	res.Labels = append(res.Labels, fmt.Sprintf("writers=%d", len(sc.Writers)))
	if sc.Unordered {
		res.Labels = append(res.Labels, "unordered")
	}
	return res, nil
}

func c13StressGen(rt *rapid.T) c13Stress {
	sc := c13Stress{Method: rapid.SampledFrom(vAllMethods).Draw(rt, "method"), Key: genKey(rt), Conns: rapid.IntRange(1, 4).Draw(rt, "conns")}
	nw := rapid.IntRange(2, 16).Draw(rt, "writers")
	total := 0
	for g := 0; g < nw; g++ {
		w := c13Writer{ReadFrom: rapid.IntRange(0, 2).Draw(rt, "rf") == 0}
		n := rapid.IntRange(20, 300).Draw(rt, "nwrites")
		for k := 0; k < n; k++ {
			var sz int
			if w.ReadFrom {
				sz = rapid.IntRange(8, 64).Draw(rt, "sz")
			} else {
				sz = rapid.SampledFrom([]int{8, 9, 40, 40, 40, 100, vMaxUnit + 9, 2*vMaxUnit + 1}).Draw(rt, "sz")
			}
			w.Sizes = append(w.Sizes, sz)
		}
		total += n
		sc.Writers = append(sc.Writers, w)
	}
	if rapid.Bool().Draw(rt, "withclose") {
		sc.CloseAfter = rapid.IntRange(1, total).Draw(rt, "closeafter")
	}
	sc.Streams = rapid.IntRange(1, 16).Draw(rt, "streams")
	sc.Unordered = rapid.IntRange(0, 2).Draw(rt, "unordered") == 0
	return sc
}

func TestVerif_C13_Stress(t *testing.T) {
	vk.Run(t, "C13", "Stress", c13StressGen, c13StressRun)
}

type c13Open struct {
	Goroutines int
	PerG       int
}

func TestVerif_C13_OpenIDs(t *testing.T) {
	vk.Run(t, "C13", "OpenIDs", func(rt *rapid.T) c13Open {
		return c13Open{Goroutines: rapid.IntRange(2, 32).Draw(rt, "g"), PerG: rapid.IntRange(50, 400).Draw(rt, "k")}
	}, func(sc c13Open) (vk.Result, error) {
		res := vk.Result{NonTrivial: true}
		obfs, _ := MakeObfuscator(EncryptionMethodPlain, [32]byte{})
		sesh := MakeSession(1, SessionConfig{Obfuscator: obfs})
		defer sesh.Close()
		ids := make([][]uint32, sc.Goroutines)
		var wg sync.WaitGroup
		start := make(chan struct{})
		for g := 0; g < sc.Goroutines; g++ {
			wg.Add(1)
			go func(g int) {
				defer wg.Done()
				<-start
				for k := 0; k < sc.PerG; k++ {
					st, err := sesh.OpenStream()
					if err != nil {
						return
					}
					ids[g] = append(ids[g], st.id)
				}
			}(g)
		}
		close(start)
		wg.Wait()
		seen := map[uint32]bool{}
		n := 0
		for _, l := range ids {
			for _, id := range l {
				if seen[id] {
					return res, vk.ViolateSig("streamid-reuse", "stream id %d handed out twice by concurrent OpenStream calls (two streams would share (stream id, seq) nonces)", id)
				}
				seen[id] = true
				n++
			}
		}
		if n != sc.Goroutines*sc.PerG {
			return res, vk.Violatef("OpenStream failed on a healthy session")
		}
		return res, nil
	})
}
