package multiplex

import (
	"bytes"
	"fmt"
	"testing"

	vk "github.com/cbeuw/Cloak/internal/verifkit"
	"pgregory.net/rapid"
)

// C14 - datagram (unordered) mode keeps message boundaries and stream isolation; oversize datagrams are
// refused at the sender; a short read buffer reports an error without consuming or truncating.

func c14Gen(rt *rapid.T) rigScenario {
	sc := rigScenario{Cfg: genCfg(rt, true)}
	nStreams := 1
	if !sc.Cfg.Singleplex {
		nStreams = rapid.IntRange(1, 4).Draw(rt, "nstreams")
	}
	sc.Ops = append(sc.Ops, rigOp{K: "open"})
	opened := 1
	nOps := rapid.IntRange(1, 60).Draw(rt, "nops")
	var sizes []int
	for i := 0; i < nOps; i++ {
		k := rapid.IntRange(0, 99).Draw(rt, "kind")
		s := rapid.IntRange(0, opened-1).Draw(rt, "s")
		side := rapid.IntRange(0, 1).Draw(rt, "side")
		switch {
		case k < 8 && opened < nStreams:
			sc.Ops = append(sc.Ops, rigOp{K: "open"})
			opened++
		case k < 40:
			n := rapid.OneOf(rapid.IntRange(1, 50), rapid.IntRange(51, 2000), rapid.SampledFrom([]int{vMaxUnit - 1, vMaxUnit, vMaxUnit + 1, vMaxUnit + 2, 2 * vMaxUnit, 8192})).Draw(rt, "n")
			sizes = append(sizes, n)
			sc.Ops = append(sc.Ops, rigOp{K: "write", Side: side, S: s, N: n})
		case k < 48:
			// the relay path: datagrams from a message-oriented source through ReadFrom, sizes up to one frame's capacity
			nd := rapid.IntRange(1, 4).Draw(rt, "ndg")
			var l []int
			for j := 0; j < nd; j++ {
				n := rapid.OneOf(rapid.IntRange(1, 2000), rapid.IntRange(vMaxUnit-20, vMaxUnit), rapid.SampledFrom([]int{vMaxUnit, vMaxUnit - 1, 8192, 1})).Draw(rt, "dgn")
				sizes = append(sizes, n)
				l = append(l, n)
			}
			sc.Ops = append(sc.Ops, rigOp{K: "dgfrom", Side: side, S: s, L: l})
		case k < 68:
			sc.Ops = append(sc.Ops, genDeliver(rt, sc.Cfg.NumConn))
		case k < 95:
			// read buffers around the sizes in flight
			buf := 70000
			if len(sizes) > 0 && rapid.IntRange(0, 2).Draw(rt, "tight") > 0 {
				base := rapid.SampledFrom(sizes).Draw(rt, "base")
				buf = base + rapid.SampledFrom([]int{-1, 0, 1, -1, 0}).Draw(rt, "delta")
				if buf < 1 {
					buf = 1
				}
			}
			sc.Ops = append(sc.Ops, rigOp{K: "read", Side: side, S: s, N: buf})
		default:
			sc.Ops = append(sc.Ops, rigOp{K: "close", Side: side, S: s})
		}
	}
	return sc
}

func c14Final(r *rig) (interleaved bool, err error) {
	// wire: exactly the accepted datagrams, one frame each; refused datagrams never appear
	for _, d := range []vk.Dir{vk.AtoB, vk.BtoA} {
		writerSide := sideC
		if d == vk.BtoA {
			writerSide = sideS
		}
		onWire := map[uint32][][]byte{}
		for _, l := range r.links {
			recs, _ := vk.SplitTLSRecords(l.Wire(d))
			streamsOnLink := map[uint32]bool{}
			for _, rec := range recs {
				f, derr := r.ref.Decode(rec.Body)
				if derr != nil {
					return false, vk.Violatef("undecodable message on the wire: %v", derr)
				}
				if f.Closing != closingNothing {
					continue
				}
				onWire[f.StreamID] = append(onWire[f.StreamID], f.Payload)
				streamsOnLink[f.StreamID] = true
			}
			if len(streamsOnLink) >= 2 {
				interleaved = true
			}
		}
		r.mu.Lock()
		var ss []*rigStream
		for _, s := range r.streams[writerSide] {
			ss = append(ss, s)
		}
		r.mu.Unlock()
		for _, s := range ss {
			refused := map[int]bool{}
			for _, i := range s.dgRefusedIdx {
				refused[i] = true
			}
			wire := append([][]byte(nil), onWire[s.id]...)
			for i, sent := range s.dgSent {
				idx := -1
				for j, w := range wire {
					if bytes.Equal(w, sent) {
						idx = j
						break
					}
				}
				if s.dgMaybe[i] {
					if idx >= 0 {
						wire = append(wire[:idx], wire[idx+1:]...)
					}
					continue
				}
				if refused[i] {
					if idx >= 0 {
						return false, vk.Violatef("stream %d side %d: a datagram of %d bytes was refused by Write but is on the wire", s.id, s.side, len(sent))
					}
					continue
				}
				if len(sent) > vMaxUnit {
					return false, vk.Violatef("stream %d side %d: a datagram of %d bytes (larger than one frame can carry: %d) was accepted", s.id, s.side, len(sent), vMaxUnit)
				}
				if idx < 0 {
					return false, vk.Violatef("stream %d side %d: an accepted datagram of %d bytes is not on the wire as one whole frame", s.id, s.side, len(sent))
				}
				wire = append(wire[:idx], wire[idx+1:]...)
			}
			if len(wire) != 0 {
				return false, vk.Violatef("stream %d side %d: %d data frame(s) on the wire that are not datagrams written by the application (split or duplicated)", s.id, s.side, len(wire))
			}
		}
	}
	// exactly once for streams that stayed open
	for _, s := range r.allStreams() {
		if n := len(r.dgQ[s.side][s.id]); n != 0 && !s.rdBusy {
			if s.rdErr == nil {
				return interleaved, vk.Violatef("stream %d side %d: %d datagram(s) arrived but could not be read", s.id, s.side, n)
			}
			return interleaved, vk.Violatef("stream %d side %d: reads ended with %v while %d arrived datagram(s) were still unread", s.id, s.side, s.rdErr, n)
		}
		peer := r.peerOf(s)
		if peer == nil || s.closeCalled || peer.closeCalled || r.sesh[0].IsClosed() || r.sesh[1].IsClosed() {
			continue
		}
		refused := map[int]bool{}
		for _, i := range s.dgRefusedIdx {
			refused[i] = true
		}
		for i := range s.dgSent {
			if !refused[i] && !s.dgMaybe[i] && !s.dgMatched[i] {
				return interleaved, vk.Violatef("stream %d: datagram #%d (%d bytes) written by side %d was never delivered although the stream stayed open and the session healthy", s.id, i, len(s.dgSent[i]), s.side)
			}
		}
	}
	return interleaved, nil
}

func c14Run(t *testing.T) func(sc rigScenario) (vk.Result, error) {
	return func(sc rigScenario) (vk.Result, error) {
		var res vk.Result
		var verr error
		berr := vk.Bubble(t, func() {
			r, err := newRig(t, sc.Cfg)
			if err != nil {
				verr = fmt.Errorf("harness: %v", err)
				return
			}
			defer r.teardown()
			for i, op := range sc.Ops {
				if verr = r.step(op); verr != nil {
					return
				}
				for _, s := range r.allStreams() {
					if s.wrErr != nil && !s.closeCalled {
						if _, pc := r.recvState(s.id, dirOf(1-s.side)); !pc {
							verr = vk.Violatef("after op %d: Write of a legal datagram failed on an open stream: %v", i, s.wrErr)
							return
						}
					}
				}
			}
			if verr = r.drain(); verr != nil {
				return
			}
			inter, e := c14Final(r)
			verr = e
			short := 0
			for _, s := range r.allStreams() {
				short += s.shortBuf
			}
			res.NonTrivial = short > 0 || inter || r.overtakes > 0
			if short > 0 {
				res.Labels = append(res.Labels, "short-buffer-read")
			}
			if inter {
				res.Labels = append(res.Labels, "streams-interleaved-on-one-connection")
			}
			for _, s := range r.allStreams() {
				if s.dgRefused > 0 {
					res.Labels = append(res.Labels, "oversize-refused")
					break
				}
			}
			res.Labels = append(res.Labels, "method="+vMethodNames[sc.Cfg.Method])
		})
		if verr == nil && berr != nil {
			verr = vk.Violatef("goroutines left blocked or crashed: %v", firstLine(berr.Error()))
		}
		return res, verr
	}
}

func TestVerif_C14_Datagrams(t *testing.T) {
	vk.Run(t, "C14", "Datagrams", c14Gen, c14Run(t))
}
