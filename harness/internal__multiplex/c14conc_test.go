package multiplex

import (
	"bytes"
	"fmt"
	"sync"
	"sync/atomic"
	"testing"
	"time"

	"github.com/cbeuw/Cloak/internal/common"
	vk "github.com/cbeuw/Cloak/internal/verifkit"
	"pgregory.net/rapid"
)

// C14 (3) Concurrent, real time: "concurrent senders on several streams". Several streams of an unordered session
// send datagrams at the same time - through Write and through the relay path (ReadFrom from a message-oriented
// source, which may also hand over an EMPTY datagram: that one is refused and ends that relay) - over connections
// with small buffers, so that sends overlap inside the session. Every reader must receive only whole datagrams that
// were sent on ITS stream, each at most once, and - streams open, session healthy - all of them.

type c14Conc struct {
	Method   byte
	Key      string
	Conns    int
	Streams  int
	PerS     int   // datagrams per stream
	Sizes    []int // cycled
	Relay    []bool
	EmptyOn  int // a stream (index) whose relay source first hands over an empty datagram; -1: none
	SlowConn bool
}

func c14ConcRun(sc c14Conc) (vk.Result, error) {
	res := vk.Result{NonTrivial: sc.Streams >= 2}
	key := vKey(sc.Key)
	mk := func() SessionConfig {
		obfs, _ := MakeObfuscator(sc.Method, key)
		return SessionConfig{Obfuscator: obfs, MsgOnWireSizeLimit: 16401, Unordered: true, InactivityTimeout: time.Hour}
	}
	snd, rcv := MakeSession(5, mk()), MakeSession(5, mk())
	defer func() { go snd.Close(); go rcv.Close() }()
	var links []*vk.Link
	for i := 0; i < sc.Conns; i++ {
		l := vk.NewLink(i, false)
		links = append(links, l)
		l.SetAuto(vk.BtoA, true)
		if sc.SlowConn {
			l.SetLimit(vk.AtoB, 20000)
			l.StartPump(vk.AtoB, []time.Duration{100 * time.Microsecond}, nil)
		} else {
			l.SetAuto(vk.AtoB, true)
		}
		snd.AddConnection(common.NewTLSConn(l.A))
		rcv.AddConnection(common.NewTLSConn(l.B))
	}
	var progress int64
	w := c01LiveWait{&progress}
	payload := func(s, k int) []byte {
		n := sc.Sizes[(s+k)%len(sc.Sizes)]
		b := make([]byte, n)
		vFill(b, uint64(s)<<32|uint64(k)|1<<60, 0)
		if n >= 6 {
			b[0], b[1], b[2], b[3], b[4], b[5] = byte(s), byte(k>>16), byte(k>>8), byte(k), 0xC1, 0x4C
		}
		return b
	}
	// receiver: every accepted stream is read until it breaks
	var mu sync.Mutex
	got := map[uint32][][]byte{}
	go func() {
		for {
			c, err := rcv.Accept()
			if err != nil {
				return
			}
			st := c.(*Stream)
			go func() {
				buf := make([]byte, 70000)
				for {
					n, err := st.Read(buf)
					if n > 0 {
						mu.Lock()
						got[st.id] = append(got[st.id], append([]byte(nil), buf[:n]...))
						mu.Unlock()
						atomic.AddInt64(&progress, 1)
					}
					if err != nil {
						return
					}
				}
			}()
		}
	}()
	streams := make([]*Stream, sc.Streams)
	for i := range streams {
		st, err := snd.OpenStream()
		if err != nil {
			return res, fmt.Errorf("harness: OpenStream: %v", err)
		}
		streams[i] = st
	}
	// the empty datagram first (alone): it is refused and ends that relay; the stream stays usable for Write
	if sc.EmptyOn >= 0 && sc.EmptyOn < sc.Streams {
		_, err := streams[sc.EmptyOn].ReadFrom(&dgReader{msgs: [][]byte{{}, payload(sc.EmptyOn, 1<<20)}})
		if err == nil {
			return res, vk.Violatef("a relay whose source handed over an empty datagram ended without error")
		}
		res.Labels = append(res.Labels, "empty-datagram-refused-first")
	}
	sent := make([][][]byte, sc.Streams)
	var wg sync.WaitGroup
	start := make(chan struct{})
	var sendErr atomic.Value
	for i := range streams {
		for k := 0; k < sc.PerS; k++ {
			sent[i] = append(sent[i], payload(i, k))
		}
		wg.Add(1)
		go func(i int) {
			defer wg.Done()
			<-start
			if i < len(sc.Relay) && sc.Relay[i] && i != sc.EmptyOn {
				msgs := make([][]byte, len(sent[i]))
				copy(msgs, sent[i])
				if _, err := streams[i].ReadFrom(&dgReader{msgs: msgs}); err != nil && err.Error() != "EOF" {
					sendErr.Store(fmt.Errorf("stream %d: relay failed: %v", i, err))
				}
				atomic.AddInt64(&progress, 1)
				return
			}
			for _, m := range sent[i] {
				if _, err := streams[i].Write(m); err != nil {
					sendErr.Store(fmt.Errorf("stream %d: Write of a legal datagram failed: %v", i, err))
					return
				}
				atomic.AddInt64(&progress, 1)
			}
		}(i)
	}
	close(start)
	done := make(chan struct{})
	go func() { wg.Wait(); close(done) }()
	if err := w.wait("the senders", func() bool {
		select {
		case <-done:
			return true
		default:
			return false
		}
	}); err != nil {
		return res, err
	}
	if e := sendErr.Load(); e != nil {
		return res, vk.Violatef("%v", e)
	}
	all := func() bool {
		mu.Lock()
		defer mu.Unlock()
		for i, st := range streams {
			if len(got[st.id]) < len(sent[i]) {
				return false
			}
		}
		return true
	}
	// Every sender has returned. Once the wire is drained (nothing pending on a link, nothing unread by the receiving
	// goroutines) and the readers have not been handed anything for 5 s, what is missing will never come: that is
	// evaluated below as a loss, without waiting for the goroutine-dump criterion.
	drained := func() bool {
		for _, l := range links {
			if l.PendingBytes(vk.AtoB) != 0 || l.Unread(vk.AtoB) != 0 {
				return false
			}
		}
		return true
	}
	lastP, lastChange := atomic.LoadInt64(&progress), time.Now()
	lost := false
	werr := w.wait("every datagram to reach its stream's reader", func() bool {
		if all() {
			return true
		}
		if p := atomic.LoadInt64(&progress); p != lastP || !drained() {
			lastP, lastChange = p, time.Now()
		} else if time.Since(lastChange) > 5*time.Second {
			lost = true
			return true
		}
		return false
	})
	if lost {
		werr = vk.Violatef("the wire is drained and the readers have not been handed anything for 5 s")
	}
	mu.Lock()
	defer mu.Unlock()
	for i, st := range streams {
		remaining := append([][]byte(nil), sent[i]...)
		for _, d := range got[st.id] {
			idx := -1
			for j, m := range remaining {
				if bytes.Equal(m, d) {
					idx = j
					break
				}
			}
			if idx < 0 {
				whose := "no stream's"
				for j := range sent {
					for _, m := range sent[j] {
						if bytes.Equal(m, d) {
							whose = fmt.Sprintf("stream %d's (or a second copy)", j)
						}
					}
				}
				return res, vk.ViolateSig("datagram-mixed", "the reader of stream %d received a %d-byte message that is not one of the datagrams sent on that stream and not yet delivered: it is %s datagram (%d streams sending at the same time over %d connections)", i, len(d), whose, sc.Streams, sc.Conns)
			}
			remaining = append(remaining[:idx], remaining[idx+1:]...)
		}
		if len(remaining) > 0 && werr != nil {
			if v, ok := werr.(*vk.Violation); ok {
				v.Sig = "datagram-lost"
				v.Msg = fmt.Sprintf("stream %d: %d of %d datagrams accepted by the sender never reached the reader although the stream is open and the session healthy; ", i, len(remaining), len(sent[i])) + v.Msg
			}
			return res, werr
		}
	}
	if werr != nil {
		return res, werr
	}
	res.Labels = append(res.Labels, fmt.Sprintf("streams=%d", sc.Streams))
	if sc.SlowConn {
		res.Labels = append(res.Labels, "sends-overlap-under-back-pressure")
	}
	return res, nil
}

func TestVerif_C14_Concurrent(t *testing.T) {
	vk.Run(t, "C14", "Concurrent", func(rt *rapid.T) c14Conc {
		sc := c14Conc{Method: rapid.SampledFrom(vAllMethods).Draw(rt, "method"), Key: genKey(rt), Conns: rapid.IntRange(1, 3).Draw(rt, "conns"), Streams: rapid.IntRange(2, 6).Draw(rt, "streams"),
			PerS: rapid.SampledFrom([]int{20, 100, 300}).Draw(rt, "pers"), SlowConn: rapid.Bool().Draw(rt, "slow"), EmptyOn: rapid.SampledFrom([]int{-1, -1, 0, 1}).Draw(rt, "emptyon")}
		for i, n := 0, rapid.IntRange(1, 4).Draw(rt, "nsizes"); i < n; i++ {
			sc.Sizes = append(sc.Sizes, rapid.SampledFrom([]int{6, 7, 100, 1200, 8000, vMaxUnit}).Draw(rt, "size"))
		}
		for i := 0; i < sc.Streams; i++ {
			sc.Relay = append(sc.Relay, rapid.Bool().Draw(rt, "relay"))
		}
		return sc
	}, func(sc c14Conc) (vk.Result, error) {
		return vk.Protect(func() (vk.Result, error) { return c14ConcRun(sc) })
	})
}
