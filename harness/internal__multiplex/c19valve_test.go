package multiplex

import (
	"fmt"
	"sort"
	"sync"
	"testing"
	"time"

	vk "github.com/cbeuw/Cloak/internal/verifkit"
	"pgregory.net/rapid"
)

// C19 (2) Valve: the limiter itself over the whole range of configurable rates. The session-level check (Rates, in the
// server package) moves real bytes and therefore stays at rates up to 10 MB/s; here nothing is copied: 1-4 goroutines
// ask the user's valve (MakeValve, as the user panel builds it) for admission of message-sized amounts for a stretch
// of virtual time, at rates from 1 kB/s to 4 GB/s - round ones and ones that do not divide a second evenly. Over every
// interval the admitted volume must not exceed 1.01 x rate x interval + one second of burst + one message per caller.

type c19Valve struct {
	RxRate, TxRate int64
	Callers        int
	Sizes          []int // cyclic message sizes
	Ms             int   // virtual duration
	StartIdleMs    int   // the valve is idle that long first (the bucket is full anyway; more must not accumulate)
}

type c19vEv struct {
	t time.Duration
	n int
}

func c19vCheck(what string, rate int64, evs []c19vEv, callers int) error {
	sort.SliceStable(evs, func(i, j int) bool { return evs[i].t < evs[j].t })
	maxMsg := 0
	for _, e := range evs {
		if e.n > maxMsg {
			maxMsg = e.n
		}
	}
	rho := 1.01 * float64(rate)
	K := float64(rate) + float64(callers)*float64(maxMsg) + 1
	var S float64
	minG, first := 0.0, true
	var minT time.Duration
	for _, e := range evs {
		ts := e.t.Seconds()
		g := S - rho*ts
		if first || g < minG {
			minG, minT, first = g, e.t, false
		}
		S += float64(e.n)
		if f := S - rho*ts; f-minG > K {
			dt := (e.t - minT).Seconds()
			return vk.ViolateSig("valve-rate-exceeded", "%s: the valve admitted %.0f bytes between t=%v and t=%v (%.6fs) at a configured rate of %d B/s: allowed 1.01 x rate x interval + one second of burst + %d message(s) of %d bytes = %.0f", what, f-minG+rho*dt, minT, e.t, dt, rate, callers, maxMsg, K+rho*dt)
		}
	}
	return nil
}

func c19ValveRun(t *testing.T, sc c19Valve) (vk.Result, error) {
	res := vk.Result{NonTrivial: true}
	var verr error
	berr := vk.Bubble(t, func() {
		v := MakeValve(sc.RxRate, sc.TxRate)
		time.Sleep(time.Duration(sc.StartIdleMs) * time.Millisecond)
		t0 := time.Now()
		end := t0.Add(time.Duration(sc.Ms) * time.Millisecond)
		var mu sync.Mutex
		var rx, tx []c19vEv
		var wg sync.WaitGroup
		for g := 0; g < sc.Callers; g++ {
			for dir := 0; dir < 2; dir++ {
				wg.Add(1)
				go func(g, dir int) {
					defer wg.Done()
					for k := 0; k < 6000 && time.Now().Before(end); k++ {
						n := sc.Sizes[(k+g)%len(sc.Sizes)]
						if dir == 0 {
							v.rxWait(n)
						} else {
							v.txWait(n)
						}
						e := c19vEv{time.Since(t0), n}
						mu.Lock()
						if dir == 0 {
							rx = append(rx, e)
						} else {
							tx = append(tx, e)
						}
						mu.Unlock()
					}
				}(g, dir)
			}
		}
		wg.Wait()
		if verr = c19vCheck("client->server (rx)", sc.RxRate, rx, sc.Callers); verr == nil {
			verr = c19vCheck("server->client (tx)", sc.TxRate, tx, sc.Callers)
		}
		res.Labels = append(res.Labels, fmt.Sprintf("rate>=1e%d", c19vMag(sc.TxRate)))
	})
	if verr == nil && berr != nil {
		verr = fmt.Errorf("harness: bubble: %v", berr)
	}
	return res, verr
}

func c19vMag(r int64) int {
	m := 0
	for r >= 10 {
		r /= 10
		m++
	}
	return m
}

func TestVerif_C19_Valve(t *testing.T) {
	rate := func(rt *rapid.T, l string) int64 {
		mag := rapid.IntRange(3, 9).Draw(rt, l+"mag")
		base := int64(1)
		for i := 0; i < mag; i++ {
			base *= 10
		}
		switch rapid.IntRange(0, 3).Draw(rt, l+"kind") {
		case 0:
			return base * int64(rapid.SampledFrom([]int{1, 2, 4, 5}).Draw(rt, l+"round"))
		case 1:
			return base*int64(rapid.IntRange(1, 9).Draw(rt, l+"lead")) + int64(rapid.IntRange(0, 999).Draw(rt, l+"odd"))
		default:
			r := rapid.Int64Range(base, base*10-1).Draw(rt, l+"any")
			if r > 4_000_000_000 {
				r = 4_000_000_000
			}
			return r
		}
	}
	vk.Run(t, "C19", "Valve", func(rt *rapid.T) c19Valve {
		sc := c19Valve{RxRate: rate(rt, "rx"), TxRate: rate(rt, "tx"), Callers: rapid.IntRange(1, 4).Draw(rt, "callers"),
			Ms: rapid.SampledFrom([]int{50, 300, 1500, 4000}).Draw(rt, "ms"), StartIdleMs: rapid.SampledFrom([]int{0, 0, 700, 5000}).Draw(rt, "idle")}
		n := rapid.IntRange(1, 4).Draw(rt, "nsizes")
		for i := 0; i < n; i++ {
			sc.Sizes = append(sc.Sizes, rapid.SampledFrom([]int{1, 60, 1400, 16401, 16401}).Draw(rt, "size"))
		}
		return sc
	}, func(sc c19Valve) (vk.Result, error) { return c19ValveRun(t, sc) })
}
