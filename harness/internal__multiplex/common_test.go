package multiplex

import (
	"encoding/hex"
	"io"

	log "github.com/sirupsen/logrus"
)

func init() {
	log.SetOutput(io.Discard)
	log.SetLevel(log.PanicLevel)
}

var vMethodNames = map[byte]string{
	EncryptionMethodPlain:           "plain",
	EncryptionMethodAES256GCM:       "aes-256-gcm",
	EncryptionMethodChaha20Poly1305: "chacha20-poly1305",
	EncryptionMethodAES128GCM:       "aes-128-gcm",
}

var vAllMethods = []byte{EncryptionMethodPlain, EncryptionMethodAES256GCM, EncryptionMethodChaha20Poly1305, EncryptionMethodAES128GCM}
var vAEADMethods = []byte{EncryptionMethodAES256GCM, EncryptionMethodChaha20Poly1305, EncryptionMethodAES128GCM}

// vPRF is a cheap deterministic byte generator: byte o of stream tag.
func vPRF(tag uint64, off uint64) byte {
	x := tag*0x9E3779B97F4A7C15 + off*0xBF58476D1CE4E5B9 + 0x94D049BB133111EB
	x ^= x >> 31
	x *= 0xD6E8FEB86659FD93
	x ^= x >> 29
	return byte(x)
}

func vFill(b []byte, tag uint64, off uint64) {
	for i := range b {
		b[i] = vPRF(tag, off+uint64(i))
	}
}

func vKey(h string) (k [32]byte) {
	b, _ := hex.DecodeString(h)
	copy(k[:], b)
	return
}
