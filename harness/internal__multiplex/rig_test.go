package multiplex

import (
	"bytes"
	"errors"
	"fmt"
	"io"
	"math/rand/v2"
	"net"
	"sync"
	"sync/atomic"
	"testing"
	"testing/synctest"
	"time"

	"github.com/cbeuw/Cloak/internal/common"
	vk "github.com/cbeuw/Cloak/internal/verifkit"
)

// L1 rig: a client Session and a server Session wired through the adversarial in-memory network, inside a
// synctest bubble. The scenario (plain data) decides every write, every delivery (per connection, whole
// record / part of a record / everything), every read, close, reset and sleep; after each step the
// interpreter waits for quiescence (synctest.Wait), so the observable state is a function of the scenario.

type rigCfg struct {
	Method     byte
	NumConn    int
	Singleplex bool
	Unordered  bool
	Seed       uint64
	Key        string
	RxRate     int64 // server-side valve (bytes/s); 0 = no valve
	TxRate     int64
	Plain      bool // no TLS record layer around the links (raw message boundaries = Write boundaries)
}

type rigOp struct {
	K    string  `json:"k"`             // open write deliver read close reset sclose sleep readfrom addconn
	Side int     `json:"side"`          // 0 client, 1 server
	S    int     `json:"s,omitempty"`   // stream index (0-based, client stream id = S+1)
	N    int     `json:"n,omitempty"`   // write size / read buffer size / partial permille
	C    int     `json:"c,omitempty"`   // connection index
	Mode int     `json:"m,omitempty"`   // deliver: 0 one record, 1 N permille of the head record, 2 everything pending on conn
	D    int     `json:"d,omitempty"`   // sleep ms
	L    []int   `json:"l,omitempty"`   // readfrom chunk sizes
	Par  []rigOp `json:"par,omitempty"` // operations started in the same step, before quiescence is awaited
}

type rigScenario struct {
	Cfg rigCfg
	Ops []rigOp
}

const (
	sideC = 0
	sideS = 1
)

type ioRes struct {
	n   int
	err error
	buf []byte
}

type rigStream struct {
	id   uint32
	side int
	st   *Stream

	// set by the operation goroutines when the call has returned (read by the wedge oracle from outside the bubble)
	rdFin, wrFin, clFin atomic.Bool

	rdBusy bool
	rdCh   chan ioRes
	// "readall": the stream is drained with io.Copy, which uses Stream.WriteTo when there is one (as common.Copy in
	// RouteTCP and serveSession does) and a Read loop otherwise; the chunks it hands over are queued here
	copyMu sync.Mutex
	copied [][]byte
	got    int64
	rdErr  error // first error returned by Read
	rdErrs int

	wrBusy         bool
	wrCh           chan ioRes
	wrSize         int
	wrFrom         bool  // in-flight op is a ReadFrom
	accepted       int64 // bytes of completed, successful writes
	attempted      int64 // bytes handed to Write calls (completed or not)
	wrErr          error
	wrExpectFail   bool  // the in-flight write was started after a local close or a processed peer close
	wrAfterCloseOK int   // writes that succeeded although started after close
	handedAtClose  int64 // bytes handed to this side's receive buffer when it called Close

	closeBusy       bool
	closeCh         chan error
	closeCalled     bool // Close() was issued locally
	closeDone       bool
	closeErr        error
	closeAtAccepted int64

	// datagram mode
	dgSent       [][]byte
	dgMatched    []bool
	dgGot        [][]byte
	shortBuf     int
	lastShort    bool
	dgRefused    int
	dgRefusedIdx []int
	// datagrams handed to a ReadFrom that has not (or not successfully) finished: they may or may not have been sent
	dgMaybe   map[int]bool
	dgFromIdx []int
}

type rigRecord struct {
	sid     uint32
	seq     uint64
	closing uint8
	end     int64 // end offset in the wire stream of its link/direction
	ok      bool
	plen    int // payload length
}

type rig struct {
	recCache map[[2]int]*rigRecCache
	t        *testing.T
	cfg      rigCfg
	links    []*vk.Link
	sesh     [2]*Session
	key      [32]byte
	ref      *vk.RefCodec

	mu      sync.Mutex
	streams [2]map[uint32]*rigStream
	accepts int

	delivered [2][]int64 // per dir per link: bytes delivered so far
	faulted   bool       // a reset or session close was injected
	closedAny bool
	labels    map[string]bool
	overtakes int
	splits    int
	nOpsDone  int

	openErrs     int
	acceptExited [2]bool

	// datagram-mode model: per receiving side and stream, the multiset of datagrams that must be readable
	dgQ        [2]map[uint32][][]byte
	dgDead     [2]map[uint32]bool // the receiver's stream no longer accepts frames (closing frame arrived / closed locally)
	dgLost     int                // datagrams that arrived on a dead stream (dropped legitimately)
	dgSessDead [2]bool            // the receiving session was closed before the frame arrived
	// bogusAccept describes the first accepted stream that the peer never opened
	bogusAccept string
	// racing: operations of one step are being started (no quiescence between them); dgRaced: datagrams that arrived
	// during such a step for a stream or session whose close was started in it - they may or may not become readable
	racing  bool
	dgRaced [2]map[uint32][][]byte
}

// modelOpen is the number of open streams a side must be counting, derived from the operations and the tap.
// exact is false while a Stream.Close call is still in flight on that side (the counter changes inside it).
func (r *rig) modelOpen(side int) (n int, exact bool) {
	exact = true
	r.mu.Lock()
	for _, s := range r.streams[side] {
		if s.closeBusy {
			exact = false
		}
	}
	r.mu.Unlock()
	if side == sideC {
		r.mu.Lock()
		var ss []*rigStream
		for _, s := range r.streams[sideC] {
			ss = append(ss, s)
		}
		r.mu.Unlock()
		for _, s := range ss {
			_, pc := r.recvState(s.id, vk.BtoA)
			if !s.closeCalled && !pc {
				n++
			}
		}
		return n, exact
	}
	seen := map[uint32]bool{}
	for li := range r.links {
		for _, rec := range r.records(li, vk.AtoB) {
			if rec.ok && rec.closing != closingSession && rec.end <= r.delivered[vk.AtoB][li] {
				seen[rec.sid] = true
			}
		}
	}
	for sid := range seen {
		_, pc := r.recvState(sid, vk.AtoB)
		r.mu.Lock()
		s := r.streams[sideS][sid]
		r.mu.Unlock()
		if pc || (s != nil && s.closeCalled) {
			continue
		}
		n++
	}
	return n, exact
}

func (r *rig) label(l string) { r.labels[l] = true }

func rigTag(id uint32, writerSide int) uint64 { return uint64(id)*2 + uint64(writerSide) + 0x1000 }

type lockedSrc struct {
	mu  sync.Mutex
	src rand.Source
}

func (l *lockedSrc) Uint64() uint64 {
	l.mu.Lock()
	defer l.mu.Unlock()
	return l.src.Uint64()
}

func newRig(t *testing.T, cfg rigCfg) (*rig, error) {
	r := &rig{t: t, cfg: cfg, labels: map[string]bool{}}
	r.key = vKey(cfg.Key)
	var err error
	r.ref, err = vk.NewRefCodec(cfg.Method, r.key)
	if err != nil {
		return nil, err
	}
	r.streams[0] = map[uint32]*rigStream{}
	r.streams[1] = map[uint32]*rigStream{}
	for i := 0; i < 2; i++ {
		r.dgQ[i] = map[uint32][][]byte{}
		r.dgDead[i] = map[uint32]bool{}
		r.dgRaced[i] = map[uint32][][]byte{}
	}
	n := cfg.NumConn
	if n < 1 {
		n = 1
	}
	for side := 0; side < 2; side++ {
		obfs, err := MakeObfuscator(cfg.Method, r.key)
		if err != nil {
			return nil, err
		}
		sc := SessionConfig{Obfuscator: obfs, Unordered: cfg.Unordered, Singleplex: cfg.Singleplex, MsgOnWireSizeLimit: 16401}
		if side == sideS && (cfg.RxRate > 0 || cfg.TxRate > 0) {
			sc.Valve = MakeValve(cfg.RxRate, cfg.TxRate)
		}
		s := MakeSession(uint32(7), sc)
		shared := rand.New(&lockedSrc{src: rand.NewPCG(cfg.Seed, uint64(side)+1)})
		s.sb.randPool = sync.Pool{New: func() interface{} { return shared }}
		r.sesh[side] = s
	}
	for i := 0; i < n; i++ {
		r.addLink()
	}
	go r.acceptLoop(sideS)
	go r.acceptLoop(sideC)
	synctest.Wait()
	// consulted only if the bubble ends up permanently stuck on a lock (see kit/run.go); judges only scenarios
	// with an injected fault or session close
	vk.SetWedgeCheck(r.wedgeOracle)
	return r, nil
}

func (r *rig) addLink() *vk.Link {
	l := vk.NewLink(len(r.links), true)
	r.links = append(r.links, l)
	r.delivered[0] = append(r.delivered[0], 0)
	r.delivered[1] = append(r.delivered[1], 0)
	var a, b net.Conn = l.A, l.B
	if !r.cfg.Plain {
		a, b = common.NewTLSConn(l.A), common.NewTLSConn(l.B)
	}
	r.sesh[sideC].AddConnection(a)
	r.sesh[sideS].AddConnection(b)
	return l
}

func (r *rig) acceptLoop(side int) {
	for {
		c, err := r.sesh[side].Accept()
		if err != nil {
			r.mu.Lock()
			r.acceptExited[side] = true
			r.mu.Unlock()
			return
		}
		st := c.(*Stream)
		r.mu.Lock()
		r.accepts++
		if side == sideC || r.streams[sideC][st.id] == nil {
			// nothing but the peer's whole messages travels on the links: a stream the peer never opened can only come
			// from bytes that were processed although they are not one of its messages (a record cut short by a fault)
			if r.bogusAccept == "" {
				r.bogusAccept = fmt.Sprintf("Accept on side %d returned a stream with id %d, which the peer never opened", side, st.id)
			}
		}
		r.streams[side][st.id] = &rigStream{id: st.id, side: side, st: st}
		r.mu.Unlock()
	}
}

func (r *rig) stream(side int, idx int) *rigStream {
	r.mu.Lock()
	defer r.mu.Unlock()
	return r.streams[side][uint32(idx+1)]
}

func dirOf(writerSide int) vk.Dir {
	if writerSide == sideC {
		return vk.AtoB
	}
	return vk.BtoA
}

// records parses the tap of one link/direction into frame metadata. The tap only grows, so the parse is incremental
// (a multi-megabyte wire would otherwise be re-parsed after every operation).
func (r *rig) records(li int, d vk.Dir) []rigRecord {
	if r.cfg.Plain {
		wire := r.links[li].Wire(d)
		var out []rigRecord
		for _, e := range r.links[li].Events(d) {
			msg := wire[e.Off : e.Off+int64(e.Len)]
			sid, seq, cl, ex, ok := r.ref.PeekHeader(msg)
			out = append(out, rigRecord{sid, seq, cl, e.Off + int64(e.Len), ok, len(msg) - 14 - int(ex)})
		}
		return out
	}
	if r.recCache == nil {
		r.recCache = map[[2]int]*rigRecCache{}
	}
	k := [2]int{li, int(d)}
	c := r.recCache[k]
	if c == nil {
		c = &rigRecCache{}
		r.recCache[k] = c
	}
	if c.upTo < r.links[li].WireLen(d) {
		tail := r.links[li].WireFrom(d, c.upTo)
		recs, _ := vk.SplitTLSRecords(tail)
		for _, rec := range recs {
			sid, seq, cl, ex, ok := r.ref.PeekHeader(rec.Body)
			end := c.upTo + rec.Off + 5 + len(rec.Body)
			c.recs = append(c.recs, rigRecord{sid, seq, cl, int64(end), ok, len(rec.Body) - 14 - int(ex)})
		}
		if n := len(recs); n > 0 {
			c.upTo += recs[n-1].Off + 5 + len(recs[n-1].Body)
		}
	}
	return c.recs
}

type rigRecCache struct {
	upTo int
	recs []rigRecord
}

// noteDelivery updates the non-triviality counters after bytes were delivered on link li in direction d.
func (r *rig) noteDelivery(li int, d vk.Dir, before, after int64) {
	if after == before {
		return
	}
	recs := r.records(li, d)
	if r.cfg.Unordered {
		r.dgArrivals(li, d, before, after)
	}
	for _, rec := range recs {
		if rec.end > before && rec.end <= after && rec.ok && rec.closing != closingSession {
			// record completed by this delivery: is a lower-numbered frame of the same stream still undelivered elsewhere?
			for lj := range r.links {
				if lj == li {
					continue
				}
				for _, o := range r.records(lj, d) {
					if o.ok && o.sid == rec.sid && o.seq < rec.seq && o.end > r.delivered[d][lj] {
						r.overtakes++
						if rec.closing == closingStream {
							r.label("closing-frame-overtakes-data")
						}
					}
				}
			}
		}
	}
	// a record was split if 'after' is strictly inside a record
	for _, rec := range recs {
		if rec.end > after {
			// find start
			var start int64
			for _, p := range recs {
				if p.end < rec.end && p.end > start {
					start = p.end
				}
			}
			if after > start {
				r.splits++
			}
			break
		}
	}
}

func (r *rig) deliver(d vk.Dir, li int, mode int, permille int) {
	if li >= len(r.links) {
		li = li % len(r.links)
	}
	l := r.links[li]
	before := r.delivered[d][li]
	r.markSessDead()
	moved := 0
	switch mode {
	case 0:
		moved = l.DeliverChunk(d)
	case 1:
		h := l.HeadChunk(d)
		if len(h) == 0 {
			return
		}
		k := len(h) * permille / 1000
		if k < 1 {
			k = 1
		}
		if k >= len(h) {
			k = len(h) - 1
		}
		if k < 1 {
			k = 1
		}
		moved = l.DeliverBytes(d, k)
	default:
		moved = l.DeliverAll(d)
	}
	r.delivered[d][li] = before + int64(moved)
	r.noteDelivery(li, d, before, before+int64(moved))
}

// headPending returns the first record of link li / direction d that has not been delivered completely.
func (r *rig) headPending(li int, d vk.Dir) (rigRecord, bool) {
	for _, rec := range r.records(li, d) {
		if rec.end > r.delivered[d][li] {
			return rec, true
		}
	}
	return rigRecord{}, false
}

// raceClose arranges the arrival order C03 is about and then lets two connections race: of everything side `side`
// has sent on stream idx, the lowest-numbered data frame still in flight (on connection la) and the closing notice
// (on connection lb != la) are held back while all other records are delivered one at a time - the frames in between
// get parked in the receiver's reorder buffer. Then connection la (gap filler first) and the closing notice are
// delivered in the same step, so that one connection's goroutine is flushing the backlog while another's processes
// the close. Falls back to delivering nothing when the wire does not have that shape.
func (r *rig) raceClose(side, idx int) {
	s := r.stream(side, idx)
	if s == nil || len(r.links) < 2 {
		return
	}
	d := dirOf(side)
	la, lb := -1, -1
	var first, closing rigRecord
	for li := range r.links {
		for _, rec := range r.records(li, d) {
			if rec.end <= r.delivered[d][li] || !rec.ok || rec.sid != s.id {
				continue
			}
			if rec.closing == closingStream {
				lb, closing = li, rec
			} else if rec.closing == closingNothing && (la < 0 || rec.seq < first.seq) {
				la, first = li, rec
			}
		}
	}
	if la < 0 || lb < 0 || la == lb {
		return
	}
	for li := range r.links {
		for guard := 0; guard < 10000; guard++ {
			h, ok := r.headPending(li, d)
			if !ok || (li == la && h.end == first.end) || (li == lb && h.end == closing.end) {
				break
			}
			r.deliver(d, li, 0, 0)
			synctest.Wait()
		}
	}
	if h, ok := r.headPending(la, d); !ok || h.end != first.end {
		return
	}
	if h, ok := r.headPending(lb, d); !ok || h.end != closing.end {
		return
	}
	r.deliver(d, la, 2, 0)
	r.deliver(d, lb, 0, 0)
	r.label("closing-notice-raced-with-backlog-flush")
}

func (r *rig) deliverEverything() bool {
	any := false
	for li, l := range r.links {
		for _, d := range []vk.Dir{vk.AtoB, vk.BtoA} {
			before := r.delivered[d][li]
			r.markSessDead()
			m := l.DeliverAll(d)
			if m > 0 {
				any = true
				r.delivered[d][li] = before + int64(m)
				if r.cfg.Unordered {
					r.dgArrivals(li, d, before, before+int64(m))
					synctest.Wait() // one connection at a time, so that arrival order across connections is defined
				}
			}
		}
	}
	return any
}

// markSessDead records (at a quiescent moment, before a delivery) which sessions are already closed.
func (r *rig) markSessDead() {
	for side := 0; side < 2; side++ {
		if r.sesh[side].IsClosed() {
			r.dgSessDead[side] = true
		}
	}
}

// dgArrivals feeds the datagram model with the records completed by a delivery.
func (r *rig) dgArrivals(li int, d vk.Dir, before, after int64) {
	recvSide := sideS
	if d == vk.BtoA {
		recvSide = sideC
	}
	wire := r.links[li].Wire(d)
	recs, _ := vk.SplitTLSRecords(wire)
	for _, rec := range recs {
		end := int64(rec.Off + 5 + len(rec.Body))
		if end <= before || end > after {
			continue
		}
		f, err := r.ref.Decode(rec.Body)
		if err != nil {
			continue
		}
		if f.Closing == closingSession {
			r.dgSessDead[recvSide] = true
			continue
		}
		if r.dgSessDead[recvSide] {
			if r.racing && f.Closing == closingNothing {
				r.dgRaced[recvSide][f.StreamID] = append(r.dgRaced[recvSide][f.StreamID], f.Payload)
			}
			continue
		}
		if r.dgDead[recvSide][f.StreamID] {
			if f.Closing == closingNothing {
				r.dgLost++
				if r.racing {
					r.dgRaced[recvSide][f.StreamID] = append(r.dgRaced[recvSide][f.StreamID], f.Payload)
				}
			}
			continue
		}
		if f.Closing == closingStream {
			r.dgDead[recvSide][f.StreamID] = true
			continue
		}
		r.dgQ[recvSide][f.StreamID] = append(r.dgQ[recvSide][f.StreamID], f.Payload)
	}
}

// poll collects finished asynchronous operations. It returns an error on an oracle violation that is
// independent of the property-specific rules (content corruption).
func (r *rig) poll() error {
	r.mu.Lock()
	if r.bogusAccept != "" {
		msg := r.bogusAccept
		r.mu.Unlock()
		return vk.ViolateSig("stream-nobody-opened", "%s: bytes that are not a whole message of the peer were processed as one", msg)
	}
	var all []*rigStream
	for side := 0; side < 2; side++ {
		for _, s := range r.streams[side] {
			all = append(all, s)
		}
	}
	r.mu.Unlock()
	for _, s := range all {
		s.copyMu.Lock()
		chunks := s.copied
		s.copied = nil
		s.copyMu.Unlock()
		for _, c := range chunks {
			if err := r.onRead(s, ioRes{len(c), nil, c}); err != nil {
				return err
			}
		}
		if s.rdBusy {
			select {
			case res := <-s.rdCh:
				s.rdBusy = false
				if err := r.onRead(s, res); err != nil {
					return err
				}
			default:
			}
		}
		if s.wrBusy {
			select {
			case res := <-s.wrCh:
				s.wrBusy = false
				r.onWrite(s, res)
			default:
			}
		}
		if s.closeBusy {
			select {
			case err := <-s.closeCh:
				s.closeBusy = false
				s.closeDone = true
				s.closeErr = err
			default:
			}
		}
	}
	return nil
}

func (r *rig) peerOf(s *rigStream) *rigStream {
	r.mu.Lock()
	defer r.mu.Unlock()
	return r.streams[1-s.side][s.id]
}

func (r *rig) onRead(s *rigStream, res ioRes) error {
	if res.n > 0 {
		if r.cfg.Unordered {
			d := append([]byte(nil), res.buf[:res.n]...)
			s.dgGot = append(s.dgGot, d)
			peer := r.peerOf(s)
			found := false
			if peer != nil {
				for i, sent := range peer.dgSent {
					if !peer.dgMatched[i] && bytes.Equal(sent, d) {
						peer.dgMatched[i] = true
						found = true
						break
					}
				}
			}
			if !found {
				return vk.Violatef("stream %d side %d: read returned a %d-byte message that is not one of the (not yet delivered) datagrams written on this stream: merged, split, truncated, duplicated or foreign", s.id, s.side, len(d))
			}
			q := r.dgQ[s.side][s.id]
			qi := -1
			for i, m := range q {
				if bytes.Equal(m, d) {
					qi = i
					break
				}
			}
			if qi < 0 {
				// a datagram that arrived in the very step in which this side's close was started may have made it
				raced := r.dgRaced[s.side][s.id]
				ri := -1
				for i, m := range raced {
					if bytes.Equal(m, d) {
						ri = i
						break
					}
				}
				if ri < 0 {
					return vk.Violatef("stream %d side %d: read returned a datagram that had not arrived (or was already read)", s.id, s.side)
				}
				r.dgRaced[s.side][s.id] = append(append([][]byte(nil), raced[:ri]...), raced[ri+1:]...)
			} else {
				r.dgQ[s.side][s.id] = append(append([][]byte(nil), q[:qi]...), q[qi+1:]...)
			}
		} else {
			tag := rigTag(s.id, 1-s.side)
			for i := 0; i < res.n; i++ {
				if res.buf[i] != vPRF(tag, uint64(s.got)+uint64(i)) {
					return vk.Violatef("stream %d read by side %d: byte at offset %d is not the byte written at that offset on this stream (lost, duplicated, reordered or foreign data)", s.id, s.side, s.got+int64(i))
				}
			}
			peer := r.peerOf(s)
			var limit int64
			if peer != nil {
				limit = peer.attempted
			}
			if s.got+int64(res.n) > limit {
				return vk.Violatef("stream %d side %d read %d bytes but only %d were written", s.id, s.side, s.got+int64(res.n), limit)
			}
		}
		s.got += int64(res.n)
	}
	if res.err != nil {
		if res.err == io.ErrShortBuffer && r.cfg.Unordered {
			s.shortBuf++
			s.lastShort = true
			larger := false
			for _, m := range r.dgQ[s.side][s.id] {
				if len(m) > len(res.buf) {
					larger = true
				}
			}
			if !larger {
				return vk.Violatef("stream %d side %d: Read with a %d-byte buffer reported a short buffer although no waiting datagram is larger", s.id, s.side, len(res.buf))
			}
			return nil
		}
		s.rdErrs++
		if s.rdErr == nil {
			s.rdErr = res.err
		}
	}
	s.lastShort = false
	return nil
}

func (r *rig) onWrite(s *rigStream, res ioRes) {
	if s.wrFrom && r.cfg.Unordered {
		// relay of datagrams: a source that ran dry (EOF) means every datagram was sent
		if errors.Is(res.err, io.EOF) && !s.wrExpectFail {
			for _, i := range s.dgFromIdx {
				delete(s.dgMaybe, i)
			}
		} else if s.wrExpectFail && res.n > 0 {
			s.wrAfterCloseOK++
		}
		s.dgFromIdx = nil
		return
	}
	if s.wrExpectFail {
		if res.err == nil || res.n > 0 {
			s.wrAfterCloseOK++
		}
		if r.cfg.Unordered && len(s.dgSent) > 0 && res.err != nil {
			s.dgRefusedIdx = append(s.dgRefusedIdx, len(s.dgSent)-1)
		}
		s.attempted -= int64(s.wrSize) - int64(res.n)
		s.accepted += int64(res.n)
		return
	}
	if res.err == nil || (s.wrFrom && errors.Is(res.err, io.EOF)) {
		s.accepted += int64(res.n)
		if !s.wrFrom && res.n != s.wrSize {
			s.wrErr = fmt.Errorf("short write %d of %d without error", res.n, s.wrSize)
		}
	} else {
		s.accepted += int64(res.n)
		if r.cfg.Unordered && len(s.dgSent) > 0 {
			// a refused datagram must never show up at the peer
			s.dgRefusedIdx = append(s.dgRefusedIdx, len(s.dgSent)-1)
			s.dgRefused++
			if res.err == io.ErrShortBuffer {
				return
			}
		}
		if s.wrErr == nil {
			s.wrErr = res.err
		}
	}
}

func (r *rig) startRead(s *rigStream, bufSize int) {
	if s.rdBusy {
		return
	}
	if bufSize <= 0 {
		bufSize = 1
	}
	s.rdBusy = true
	s.rdFin.Store(false)
	s.rdCh = make(chan ioRes, 1)
	ch := s.rdCh
	st := s.st
	go func() {
		buf := make([]byte, bufSize)
		n, err := st.Read(buf)
		s.rdFin.Store(true)
		ch <- ioRes{n, err, buf}
	}()
}

type rigSink struct{ s *rigStream }

func (k rigSink) Write(p []byte) (int, error) {
	k.s.copyMu.Lock()
	k.s.copied = append(k.s.copied, append([]byte(nil), p...))
	k.s.copyMu.Unlock()
	return len(p), nil
}

// startReadAll drains the stream with io.Copy until it ends.
func (r *rig) startReadAll(s *rigStream) {
	if s.rdBusy || r.cfg.Unordered {
		return
	}
	s.rdBusy = true
	s.rdFin.Store(false)
	s.rdCh = make(chan ioRes, 1)
	ch := s.rdCh
	st := s.st
	go func() {
		_, err := io.Copy(rigSink{s}, st)
		if err == nil {
			err = io.EOF // io.Copy swallows EOF; the stream itself reports the broken-stream error
		}
		s.rdFin.Store(true)
		ch <- ioRes{0, err, nil}
	}()
}

func (r *rig) startWrite(s *rigStream, size int) {
	if s.wrBusy || s.closeBusy {
		return
	}
	s.wrBusy = true
	s.wrFin.Store(false)
	s.wrFrom = false
	s.wrSize = size
	_, peerCloseProcessed := r.recvState(s.id, dirOf(1-s.side))
	s.wrExpectFail = s.closeDone || peerCloseProcessed
	s.wrCh = make(chan ioRes, 1)
	ch := s.wrCh
	st := s.st
	var data []byte
	if r.cfg.Unordered {
		data = make([]byte, size)
		idx := len(s.dgSent)
		vFill(data, rigTag(s.id, s.side)^(uint64(idx+1)*0x9E37), 0)
		s.dgSent = append(s.dgSent, data)
		s.dgMatched = append(s.dgMatched, false)
	} else {
		data = make([]byte, size)
		vFill(data, rigTag(s.id, s.side), uint64(s.attempted))
		s.attempted += int64(size)
	}
	go func() {
		n, err := st.Write(data)
		s.wrFin.Store(true)
		ch <- ioRes{n: n, err: err}
	}()
}

type chunkReader struct {
	tag    uint64
	off    uint64
	chunks []int
}

func (c *chunkReader) Read(p []byte) (int, error) {
	if len(c.chunks) == 0 {
		return 0, io.EOF
	}
	n := c.chunks[0]
	if n > len(p) {
		n = len(p)
		c.chunks[0] -= n
	} else {
		c.chunks = c.chunks[1:]
	}
	vFill(p[:n], c.tag, c.off)
	c.off += uint64(n)
	return n, nil
}

func (r *rig) startReadFrom(s *rigStream, chunks []int) {
	if s.wrBusy || s.closeBusy {
		return
	}
	total := 0
	for _, c := range chunks {
		total += c
	}
	s.wrBusy = true
	s.wrFin.Store(false)
	s.wrFrom = true
	s.wrSize = total
	s.wrCh = make(chan ioRes, 1)
	ch := s.wrCh
	st := s.st
	rd := &chunkReader{tag: rigTag(s.id, s.side), off: uint64(s.attempted), chunks: append([]int(nil), chunks...)}
	s.attempted += int64(total)
	go func() {
		n, err := st.ReadFrom(rd)
		s.wrFin.Store(true)
		ch <- ioRes{n: int(n), err: err}
	}()
}

// dgReader is a message-oriented source (a UDP socket): every Read returns one whole datagram, cut to the
// buffer if that is too small (the rest is lost, as with recvfrom).
type dgReader struct{ msgs [][]byte }

func (d *dgReader) Read(p []byte) (int, error) {
	if len(d.msgs) == 0 {
		return 0, io.EOF
	}
	m := d.msgs[0]
	d.msgs = d.msgs[1:]
	return copy(p, m), nil
}

// startDgFrom relays datagrams of the given sizes (each at most one frame's capacity) into the stream with ReadFrom,
// as the server's udp relay does.
func (r *rig) startDgFrom(s *rigStream, sizes []int) {
	if s.wrBusy || s.closeBusy || !r.cfg.Unordered {
		return
	}
	s.wrBusy = true
	s.wrFin.Store(false)
	s.wrFrom = true
	s.wrSize = 0
	_, peerCloseProcessed := r.recvState(s.id, dirOf(1-s.side))
	s.wrExpectFail = s.closeDone || peerCloseProcessed
	if s.dgMaybe == nil {
		s.dgMaybe = map[int]bool{}
	}
	s.dgFromIdx = nil
	rd := &dgReader{}
	for _, size := range sizes {
		data := make([]byte, size)
		idx := len(s.dgSent)
		vFill(data, rigTag(s.id, s.side)^(uint64(idx+1)*0x9E37), 0)
		s.dgSent = append(s.dgSent, data)
		s.dgMatched = append(s.dgMatched, false)
		s.dgMaybe[idx] = true
		s.dgFromIdx = append(s.dgFromIdx, idx)
		rd.msgs = append(rd.msgs, data)
	}
	s.wrCh = make(chan ioRes, 1)
	ch := s.wrCh
	st := s.st
	go func() {
		n, err := st.ReadFrom(rd)
		s.wrFin.Store(true)
		ch <- ioRes{n: int(n), err: err}
	}()
}

func (r *rig) startClose(s *rigStream) {
	if s.closeBusy || s.wrBusy {
		return
	}
	s.closeBusy = true
	if !s.closeCalled {
		s.handedAtClose, _ = r.recvState(s.id, dirOf(1-s.side))
	}
	s.closeCalled = true
	r.dgDead[s.side][s.id] = true
	s.closeAtAccepted = s.accepted
	s.closeCh = make(chan error, 1)
	ch := s.closeCh
	st := s.st
	s.clFin.Store(false)
	go func() {
		err := st.Close()
		s.clFin.Store(true)
		ch <- err
	}()
}

// step executes one op (and its companions) and waits for quiescence.
func (r *rig) step(op rigOp) error {
	if err := r.start(op); err != nil {
		return err
	}
	// operations started in the same step race with one another: whether a datagram delivered now reaches its stream
	// before a close started in this step takes effect is the scheduler's choice, both outcomes are legitimate
	r.racing = len(op.Par) > 0
	for _, p := range op.Par {
		if err := r.start(p); err != nil {
			r.racing = false
			return err
		}
	}
	r.racing = false
	synctest.Wait()
	r.nOpsDone++
	return r.poll()
}

func (r *rig) start(op rigOp) error {
	switch op.K {
	case "open":
		if op.Side != sideC {
			return nil // only the client opens streams (both sides number from 1)
		}
		st, err := r.sesh[sideC].OpenStream()
		if err != nil {
			r.openErrs++
			if r.faulted || r.sesh[sideC].IsClosed() || r.cfg.Singleplex {
				return nil
			}
			return vk.Violatef("OpenStream failed on a healthy session: %v", err)
		}
		r.mu.Lock()
		r.streams[sideC][st.id] = &rigStream{id: st.id, side: sideC, st: st}
		r.mu.Unlock()
	case "write":
		if s := r.stream(op.Side, op.S); s != nil {
			r.startWrite(s, op.N)
		}
	case "readfrom":
		if s := r.stream(op.Side, op.S); s != nil {
			r.startReadFrom(s, op.L)
		}
	case "dgfrom":
		if s := r.stream(op.Side, op.S); s != nil {
			r.startDgFrom(s, op.L)
		}
	case "read":
		if s := r.stream(op.Side, op.S); s != nil {
			r.startRead(s, op.N)
		}
	case "readall":
		if s := r.stream(op.Side, op.S); s != nil {
			r.startReadAll(s)
		}
	case "close":
		if s := r.stream(op.Side, op.S); s != nil {
			r.startClose(s)
			r.closedAny = true
		}
	case "deliver":
		r.deliver(dirOf(op.Side), op.C, op.Mode, op.N)
	case "raceclose":
		r.raceClose(op.Side, op.S)
	case "reset":
		r.faulted = true
		r.links[op.C%len(r.links)].Reset()
	case "sclose":
		r.faulted = true
		s := r.sesh[op.Side]
		go s.Close()
	case "sleep":
		time.Sleep(time.Duration(op.D) * time.Millisecond)
	case "addconn":
		r.addLink()
	case "limit":
		for _, l := range r.links {
			l.SetLimit(vk.AtoB, op.N)
			l.SetLimit(vk.BtoA, op.N)
		}
	}
	return nil
}

// wedgeOracle is what C12 states about a session after a fault or a session Close, evaluated on the rig's
// bookkeeping while the bubble is permanently stuck: every blocked call has returned and every connection has
// been closed by both sessions. Before any teardown was triggered there is nothing to judge.
func (r *rig) wedgeOracle(vk.Wedge) error {
	// Stream.Close is only ever issued by the rig when no other call is in flight on that stream end, so nothing it
	// could legitimately wait for is outstanding: a Close that is stuck in a permanently blocked system never returns,
	// the closing notice is never sent and the peer never sees end-of-stream (C03), whatever the session's state
	for side := 0; side < 2; side++ {
		for _, s := range r.streams[side] {
			if s.closeBusy && !s.clFin.Load() {
				return vk.ViolateSig("close-never-returns", "stream %d side %d: Stream.Close never returns (%d bytes had arrived for this side and %d of them had been read): the closing notice is not sent, the peer never gets end-of-stream", s.id, s.side, func() int64 { h, _ := r.recvState(s.id, dirOf(1-s.side)); return h }(), s.got)
			}
		}
	}
	if !r.faulted {
		return nil
	}
	for side := 0; side < 2; side++ {
		for _, s := range r.streams[side] {
			if s.rdBusy && !s.rdFin.Load() {
				return vk.ViolateSig("stuck-after-teardown", "after a connection fault / session close, stream %d side %d: a blocked Read never returns", s.id, s.side)
			}
			if s.wrBusy && !s.wrFin.Load() {
				return vk.ViolateSig("stuck-after-teardown", "after a connection fault / session close, stream %d side %d: a blocked Write never returns", s.id, s.side)
			}
			if s.closeBusy && !s.clFin.Load() {
				return vk.ViolateSig("stuck-after-teardown", "after a connection fault / session close, stream %d side %d: Stream.Close never returns", s.id, s.side)
			}
		}
	}
	if r.sesh[0].IsClosed() && r.sesh[1].IsClosed() {
		for li, l := range r.links {
			if l.A.CloseCalls == 0 || l.B.CloseCalls == 0 {
				return vk.ViolateSig("stuck-after-teardown", "both sessions are closed but connection %d was never closed by both of them (client end closed %d times, server end %d times)", li, l.A.CloseCalls, l.B.CloseCalls)
			}
		}
	}
	return nil
}

// drain delivers everything and reads until nothing moves any more.
func (r *rig) drain() error {
	for iter := 0; iter < 100000; iter++ {
		moved := r.deliverEverything()
		synctest.Wait()
		if err := r.poll(); err != nil {
			return err
		}
		progress := moved
		r.mu.Lock()
		var all []*rigStream
		for side := 0; side < 2; side++ {
			for _, s := range r.streams[side] {
				all = append(all, s)
			}
		}
		r.mu.Unlock()
		for _, s := range all {
			if !s.rdBusy && s.rdErr == nil {
				before := s.got
				r.startRead(s, 70000)
				synctest.Wait()
				if err := r.poll(); err != nil {
					return err
				}
				if s.got != before || s.rdErr != nil {
					progress = true
				}
			}
		}
		if !progress {
			return nil
		}
	}
	return fmt.Errorf("harness: drain did not converge")
}

func (r *rig) teardown() {
	for side := 0; side < 2; side++ {
		s := r.sesh[side]
		go s.Close()
	}
	synctest.Wait()
	for _, l := range r.links {
		l.A.Close()
		l.B.Close()
	}
	synctest.Wait()
	r.poll()
}

func (r *rig) allStreams() []*rigStream {
	r.mu.Lock()
	defer r.mu.Unlock()
	var all []*rigStream
	for id := uint32(1); id < 100000; id++ {
		c, s := r.streams[0][id], r.streams[1][id]
		if c == nil && s == nil {
			if int(id) > len(r.streams[0])+len(r.streams[1])+2 {
				break
			}
			continue
		}
		if c != nil {
			all = append(all, c)
		}
		if s != nil {
			all = append(all, s)
		}
	}
	return all
}

// recvState computes, from the tap and the delivery counters, what the receiver of direction d of stream id
// must have been handed so far: the payload bytes of the contiguous prefix of fully delivered frames, and
// whether the stream-closing frame is next in line (i.e. the close has been processed).
func (r *rig) recvState(id uint32, d vk.Dir) (handed int64, closeProcessed bool) {
	bySeq := map[uint64]rigRecord{}
	for li := range r.links {
		for _, rec := range r.records(li, d) {
			if rec.ok && rec.sid == id && rec.end <= r.delivered[d][li] {
				bySeq[rec.seq] = rec
			}
		}
	}
	if r.cfg.Unordered {
		// datagram mode: no reordering; a closing frame takes effect on arrival
		for _, rec := range bySeq {
			if rec.closing == closingStream {
				closeProcessed = true
			} else {
				handed += int64(rec.plen)
			}
		}
		return handed, closeProcessed
	}
	for seq := uint64(0); ; seq++ {
		rec, ok := bySeq[seq]
		if !ok {
			return handed, false
		}
		if rec.closing == closingStream {
			return handed, true
		}
		handed += int64(rec.plen)
	}
}
