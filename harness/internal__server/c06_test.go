package server

import (
	"bytes"
	"crypto/rand"
	"fmt"
	"net"
	"strings"
	"testing"
	"testing/synctest"
	"time"

	"github.com/cbeuw/Cloak/internal/client"
	"github.com/cbeuw/Cloak/internal/common"
	vk "github.com/cbeuw/Cloak/internal/verifkit"
	"pgregory.net/rapid"
)

// C06 - client and server agree on identity, options and session key after the handshake (direct and CDN).

type c06Case struct {
	UID        string
	Method     string
	Enc        string
	SessionID  uint32
	UDP        bool
	Browser    string
	Transport  string
	ServerName string
	OffsetMs   int64 // client clock - server clock
	NumConn    int   `json:",omitempty"` // connections of the session, handshaking at the same time (0 = 1)
	Managed    bool  `json:",omitempty"` // the user is in the user database (authorisation takes a while) instead of the bypass list
}

var c06EncByte = map[string]byte{"plain": 0, "aes-256-gcm": 1, "aes-gcm": 1, "chacha20-poly1305": 2, "aes-128-gcm": 3}

func c06Run(t *testing.T) func(c c06Case) (vk.Result, error) {
	return func(c c06Case) (vk.Result, error) {
		var res vk.Result
		var verr error
		berr := vk.Bubble(t, func() {
			res, verr = vk.Protect(func() (vk.Result, error) { return c06Inner(c) })
		})
		if verr == nil && berr != nil {
			verr = fmt.Errorf("harness: bubble: %v", berr)
		}
		return res, verr
	}
}

func c06Inner(c c06Case) (vk.Result, error) {
	res := vk.Result{NonTrivial: true}
	cfg := vClientCfg{UID: c.UID, Method: c.Method, Enc: c.Enc, NumConn: 1, Browser: c.Browser, Transport: c.Transport, ServerName: c.ServerName, UDP: c.UDP}
	raw := cfg.raw([32]byte{})
	uid := raw.UID
	opts := vSrvOpts{Bypass: [][]byte{uid}, Methods: []string{c.Method}, Tap: true, AutoNet: true}
	if c.Managed {
		mgr := newFakeManager()
		var a [16]byte
		copy(a[:], uid)
		mgr.users[a] = &vFakeUser{UpRate: 1 << 40, DownRate: 1 << 40, UpCredit: 1 << 40, DownCredit: 1 << 40, Expiry: time.Now().Unix() + 1<<20, Cap: 10}
		mgr.authYield = 500
		opts.Bypass, opts.Manager = nil, mgr
	}
	srv := newVSrv(opts)
	defer srv.stop()
	srv.serve()
	offset := time.Duration(c.OffsetMs) * time.Millisecond
	clientNow := func() time.Time { return time.Now().Add(offset) }
	_, remote, auth, err := vMustProcess(cfg, srv.pub, clientNow)
	if err != nil {
		return res, fmt.Errorf("harness: %v", err)
	}
	auth.SessionId = c.SessionID
	dialer := srv.dialer()
	var cdn *vCDN
	if strings.EqualFold(c.Transport, "cdn") {
		cdn = &vCDN{front: vk.NewListener(), back: srv.dialer(), net: srv.net}
		cdn.serve()
		defer cdn.front.Close()
		dialer = cdn.dialer()
	}
	t0 := time.Now()
	nconn := c.NumConn
	if nconn < 1 {
		nconn = 1
	}
	type hs struct {
		key [32]byte
		err error
	}
	var conn net.Conn
	chs := make([]chan hs, nconn)
	for i := 0; i < nconn; i++ {
		// as client.MakeSession does: one transport per connection, all started at the same time
		tr := remote.Transport.CreateTransport()
		cn, err := dialer.Dial("tcp", remote.RemoteAddr)
		if err != nil {
			return res, fmt.Errorf("harness: dial: %v", err)
		}
		if i == 0 {
			conn = cn
		}
		ch := make(chan hs, 1)
		chs[i] = ch
		go func() {
			k, err := tr.Handshake(cn, auth)
			ch <- hs{k, err}
		}()
	}
	synctest.Wait()
	time.Sleep(time.Second)
	synctest.Wait()
	var h hs
	for i, ch := range chs {
		var hi hs
		select {
		case hi = <-ch:
		default:
			return res, vk.Violatef("handshake of a correctly configured client did not complete (connection %d of %d)", i, nconn)
		}
		if hi.err != nil {
			return res, vk.Violatef("handshake of a correctly configured client (clock offset %v, connection %d of %d) failed: %v", offset, i, nconn, hi.err)
		}
		if i == 0 {
			h = hi
		} else if hi.key != h.key {
			return res, vk.ViolateSig("key-mismatch", "connections 0 and %d of one session (same UID and session id, handshaking at the same time) were given different session keys", i)
		}
	}
	// server side view
	srv.sta.Panel.activeUsersM.RLock()
	var arr [16]byte
	copy(arr[:], uid)
	user := srv.sta.Panel.activeUsers[arr]
	srv.sta.Panel.activeUsersM.RUnlock()
	if user == nil {
		return res, vk.Violatef("server has no active user for the configured UID after a completed handshake")
	}
	user.sessionsM.RLock()
	sesh := user.sessions[c.SessionID]
	nsesh := len(user.sessions)
	user.sessionsM.RUnlock()
	if sesh == nil {
		return res, vk.Violatef("server has no session with the configured session id %d (it has %d session(s))", c.SessionID, nsesh)
	}
	if nsesh != 1 {
		return res, vk.Violatef("server keeps %d sessions for the user after %d connection(s) of one session id", nsesh, nconn)
	}
	if sesh.GetSessionKey() != h.key {
		return res, vk.ViolateSig("key-mismatch", "client and server hold different session keys after the handshake")
	}
	if sesh.Unordered != c.UDP {
		return res, vk.Violatef("server session ordered/unordered flag is %v, client configured %v", sesh.Unordered, c.UDP)
	}
	// independent decode of the tapped first packet
	var first []byte
	var transport Transport
	if cdn != nil {
		cdn.mu.Lock()
		if len(cdn.Backs) == 0 {
			cdn.mu.Unlock()
			return res, fmt.Errorf("harness: no CDN back link")
		}
		wire := cdn.Backs[0].Wire(vk.AtoB)
		cdn.mu.Unlock()
		i := bytes.Index(wire, []byte("\r\n\r\n"))
		if i < 0 {
			return res, vk.Violatef("CDN first packet is not a complete HTTP request")
		}
		first = wire[:i+4]
		transport = WebSocket{}
	} else {
		wire := conn.(*vk.End).Link().Wire(vk.AtoB)
		recs, _ := vk.SplitTLSRecords(wire)
		if len(recs) == 0 {
			return res, vk.Violatef("no TLS record in the client's first flight")
		}
		first = wire[:5+len(recs[0].Body)]
		transport = TLS{}
	}
	pv := srv.pv
	sta2 := &State{StaticPv: &pv, UsedRandom: map[[32]byte]int64{}, WorldState: common.WorldState{Rand: rand.Reader, Now: func() time.Time { return t0 }}}
	ci, _, aerr := AuthFirstPacket(first, transport, sta2)
	if aerr != nil {
		return res, vk.Violatef("the client's first packet does not authenticate on an independent server state: %v", aerr)
	}
	if !bytes.Equal(ci.UID, uid) || ci.ProxyMethod != c.Method || ci.EncryptionMethod != c06EncByte[strings.ToLower(c.Enc)] || ci.SessionId != c.SessionID || ci.Unordered != c.UDP {
		return res, vk.ViolateSig("identity-mismatch", "server recovers UID=%x method=%q enc=%d sid=%d unordered=%v; client was configured with UID=%x method=%q enc=%d sid=%d unordered=%v",
			ci.UID, ci.ProxyMethod, ci.EncryptionMethod, ci.SessionId, ci.Unordered, uid, c.Method, c06EncByte[strings.ToLower(c.Enc)], c.SessionID, c.UDP)
	}
	sidClass := "sid=random"
	switch c.SessionID {
	case 0:
		sidClass = "sid=0"
	case 0xffffffff:
		sidClass = "sid=max"
	}
	nameClass := "name=host"
	if strings.EqualFold(c.ServerName, "random") {
		nameClass = "name=random"
	}
	res.Key = fmt.Sprintf("%s/%s/%s/%v/%s/%s/%d", strings.ToLower(c.Browser), strings.ToLower(c.Transport), c.Enc, c.UDP, sidClass, nameClass, len(c.Method))
	res.Labels = []string{"transport=" + strings.ToLower(c.Transport), "browser=" + strings.ToLower(c.Browser), sidClass, nameClass}
	if nconn > 1 {
		res.Labels = append(res.Labels, "parallel-connections")
	}
	if c.Managed {
		res.Labels = append(res.Labels, "managed-user")
	}
	if len(first) > 1500 {
		res.Labels = append(res.Labels, "first-packet>1500")
	}
	_ = client.MakeSession
	return res, nil
}

func c06Gen(rt *rapid.T) c06Case {
	c := c06Case{}
	c.UID = vUIDb64(rapid.SliceOfN(rapid.Byte(), 16, 16).Draw(rt, "uid"))
	c.Method = rapid.StringMatching(`[A-Za-z0-9_-]{1,12}`).Draw(rt, "method")
	c.Enc = rapid.SampledFrom([]string{"plain", "aes-256-gcm", "aes-128-gcm", "chacha20-poly1305", "aes-gcm"}).Draw(rt, "enc")
	c.SessionID = rapid.OneOf(rapid.SampledFrom([]uint32{0, 1, 1 << 31, 0xffffffff}), rapid.Uint32()).Draw(rt, "sid")
	c.UDP = rapid.Bool().Draw(rt, "udp")
	c.Browser = rapid.SampledFrom([]string{"chrome", "firefox", "safari"}).Draw(rt, "browser")
	c.Transport = rapid.SampledFrom([]string{"direct", "direct", "direct", "cdn"}).Draw(rt, "transport")
	c.ServerName = rapid.SampledFrom([]string{"www.bing.com", "random", "a.example.org", "x.co", "very-long-name-0123456789.sub.domain.example.com"}).Draw(rt, "sn")
	c.OffsetMs = rapid.OneOf(rapid.Int64Range(-178000, 178000), rapid.SampledFrom([]int64{0, -178999, 178999, 178000, -178000, 500, -500})).Draw(rt, "offset")
	c.NumConn = rapid.SampledFrom([]int{1, 1, 2, 3, 6}).Draw(rt, "numconn")
	c.Managed = rapid.Bool().Draw(rt, "managed")
	return c
}

func TestVerif_C06_Handshake(t *testing.T) {
	vk.Run(t, "C06", "Handshake", c06Gen, c06Run(t))
}
