package server

import (
	"bytes"
	"crypto/rand"
	"fmt"
	"net"
	"strings"
	"testing"
	"testing/synctest"
	"time"

	"github.com/cbeuw/Cloak/internal/client"
	"github.com/cbeuw/Cloak/internal/common"
	vk "github.com/cbeuw/Cloak/internal/verifkit"
	"pgregory.net/rapid"
)

// C06 - client and server agree on identity, options and session key after the handshake (direct and CDN).

type c06Case struct {
	UID        string
	Method     string
	Enc        string
	SessionID  uint32
	UDP        bool
	Browser    string
	Transport  string
	ServerName string
	OffsetMs   int64 // client clock - server clock
	NumConn    int   `json:",omitempty"` // connections of the session, handshaking at the same time (0 = 1)
	Managed    bool  `json:",omitempty"` // the user is in the user database (authorisation takes a while) instead of the bypass list
	Others     int   `json:",omitempty"` // other clients (own UIDs, own session ids) whose handshakes run at the same time
	SegTail    int   `json:",omitempty"` // >0: everything a client sends reaches the server in two segments, the second SegTail bytes long
}

var c06EncByte = map[string]byte{"plain": 0, "aes-256-gcm": 1, "aes-gcm": 1, "chacha20-poly1305": 2, "aes-128-gcm": 3}

func c06Run(t *testing.T) func(c c06Case) (vk.Result, error) {
	return func(c c06Case) (vk.Result, error) {
		var res vk.Result
		var verr error
		berr := vk.Bubble(t, func() {
			res, verr = vk.Protect(func() (vk.Result, error) { return c06Inner(c) })
		})
		if verr == nil && berr != nil {
			verr = fmt.Errorf("harness: bubble: %v", berr)
		}
		return res, verr
	}
}

func c06Inner(c c06Case) (vk.Result, error) {
	res := vk.Result{NonTrivial: true}
	cfg := vClientCfg{UID: c.UID, Method: c.Method, Enc: c.Enc, NumConn: 1, Browser: c.Browser, Transport: c.Transport, ServerName: c.ServerName, UDP: c.UDP}
	raw := cfg.raw([32]byte{})
	uid := raw.UID
	opts := vSrvOpts{Bypass: [][]byte{uid}, Methods: []string{c.Method}, Tap: true, AutoNet: true}
	var otherUIDs [][]byte
	for j := 0; j < c.Others; j++ {
		o := append([]byte(nil), uid...)
		o[0] ^= byte(j + 1)
		o[7] ^= 0x55
		otherUIDs = append(otherUIDs, o)
		opts.Bypass = append(opts.Bypass, o)
	}
	if c.Managed {
		mgr := newFakeManager()
		var a [16]byte
		copy(a[:], uid)
		mgr.users[a] = &vFakeUser{UpRate: 1 << 40, DownRate: 1 << 40, UpCredit: 1 << 40, DownCredit: 1 << 40, Expiry: time.Now().Unix() + 1<<20, Cap: 10}
		mgr.authYield = 500
		opts.Bypass, opts.Manager = otherUIDs, mgr
	}
	srv := newVSrv(opts)
	defer srv.stop()
	srv.serve()
	if c.SegTail > 0 {
		// TCP segmentation of what reaches the server (directly, or from the CDN): each write arrives as "all but the
		// last SegTail bytes", then, a millisecond later, the rest
		srv.net.OnLink = func(l *vk.Link) {
			l.SetAuto(vk.AtoB, false)
			go func() {
				for {
					h := l.HeadChunk(vk.AtoB)
					if len(h) == 0 {
						if l.WriterClosed(vk.AtoB) || l.A.IsClosed() || l.B.IsClosed() {
							return
						}
						time.Sleep(time.Millisecond)
						continue
					}
					k := c.SegTail
					if k >= len(h) {
						l.DeliverChunk(vk.AtoB)
						continue
					}
					l.DeliverBytes(vk.AtoB, len(h)-k)
					time.Sleep(time.Millisecond)
					l.DeliverBytes(vk.AtoB, k)
				}
			}()
		}
	}
	offset := time.Duration(c.OffsetMs) * time.Millisecond
	clientNow := func() time.Time { return time.Now().Add(offset) }
	_, remote, auth, err := vMustProcess(cfg, srv.pub, clientNow)
	if err != nil {
		return res, fmt.Errorf("harness: %v", err)
	}
	auth.SessionId = c.SessionID
	dialer := srv.dialer()
	var cdn *vCDN
	if strings.EqualFold(c.Transport, "cdn") {
		cdn = &vCDN{front: vk.NewListener(), back: srv.dialer(), net: srv.net}
		cdn.serve()
		defer cdn.front.Close()
		dialer = cdn.dialer()
	}
	t0 := time.Now()
	nconn := c.NumConn
	if nconn < 1 {
		nconn = 1
	}
	type hs struct {
		key [32]byte
		err error
	}
	// the other clients: one connection each, started in the same step as the connections of the client under test
	otherCh := make([]chan hs, len(otherUIDs))
	for j, o := range otherUIDs {
		ocfg := cfg
		ocfg.UID = vUIDb64(o)
		_, oremote, oauth, err := vMustProcess(ocfg, srv.pub, clientNow)
		if err != nil {
			return res, fmt.Errorf("harness: %v", err)
		}
		oauth.SessionId = c.SessionID + uint32(j) + 1
		otr := oremote.Transport.CreateTransport()
		ocn, err := dialer.Dial("tcp", oremote.RemoteAddr)
		if err != nil {
			return res, fmt.Errorf("harness: dial: %v", err)
		}
		och := make(chan hs, 1)
		otherCh[j] = och
		go func() {
			k, err := otr.Handshake(ocn, oauth)
			och <- hs{k, err}
		}()
	}
	var conn net.Conn
	chs := make([]chan hs, nconn)
	for i := 0; i < nconn; i++ {
		// as client.MakeSession does: one transport per connection, all started at the same time
		tr := remote.Transport.CreateTransport()
		cn, err := dialer.Dial("tcp", remote.RemoteAddr)
		if err != nil {
			return res, fmt.Errorf("harness: dial: %v", err)
		}
		if i == 0 {
			conn = cn
		}
		ch := make(chan hs, 1)
		chs[i] = ch
		go func() {
			k, err := tr.Handshake(cn, auth)
			ch <- hs{k, err}
		}()
	}
	synctest.Wait()
	time.Sleep(time.Second)
	synctest.Wait()
	var h hs
	for i, ch := range chs {
		var hi hs
		select {
		case hi = <-ch:
		default:
			return res, vk.Violatef("handshake of a correctly configured client did not complete (connection %d of %d)", i, nconn)
		}
		if hi.err != nil {
			return res, vk.Violatef("handshake of a correctly configured client (clock offset %v, connection %d of %d) failed: %v", offset, i, nconn, hi.err)
		}
		if i == 0 {
			h = hi
		} else if hi.key != h.key {
			return res, vk.ViolateSig("key-mismatch", "connections 0 and %d of one session (same UID and session id, handshaking at the same time) were given different session keys", i)
		}
	}
	// the other clients: each must have its own user record with exactly its session, holding its key
	for j, och := range otherCh {
		var ho hs
		select {
		case ho = <-och:
		default:
			return res, vk.Violatef("handshake of another correctly configured client (running at the same time) did not complete")
		}
		if ho.err != nil {
			return res, vk.Violatef("handshake of another correctly configured client (running at the same time) failed: %v", ho.err)
		}
		var oa [16]byte
		copy(oa[:], otherUIDs[j])
		srv.sta.Panel.activeUsersM.RLock()
		ou := srv.sta.Panel.activeUsers[oa]
		srv.sta.Panel.activeUsersM.RUnlock()
		if ou == nil {
			return res, vk.ViolateSig("identity-mismatch", "the server has no active user for UID %x although that client's handshake completed (%d clients connected at the same time): its session was filed under another identity", otherUIDs[j], len(otherUIDs)+1)
		}
		ou.sessionsM.RLock()
		os := ou.sessions[c.SessionID+uint32(j)+1]
		ou.sessionsM.RUnlock()
		if os == nil || os.GetSessionKey() != ho.key {
			return res, vk.ViolateSig("identity-mismatch", "the server's session for UID %x / session id %d is missing or holds another key than the client (%d clients connected at the same time)", otherUIDs[j], c.SessionID+uint32(j)+1, len(otherUIDs)+1)
		}
	}
	// server side view
	srv.sta.Panel.activeUsersM.RLock()
	var arr [16]byte
	copy(arr[:], uid)
	user := srv.sta.Panel.activeUsers[arr]
	srv.sta.Panel.activeUsersM.RUnlock()
	if user == nil {
		return res, vk.ViolateSig("identity-mismatch", "server has no active user for the configured UID after a completed handshake (%d other clients connected at the same time)", len(otherUIDs))
	}
	user.sessionsM.RLock()
	sesh := user.sessions[c.SessionID]
	nsesh := len(user.sessions)
	user.sessionsM.RUnlock()
	if sesh == nil {
		return res, vk.Violatef("server has no session with the configured session id %d (it has %d session(s))", c.SessionID, nsesh)
	}
	if nsesh != 1 {
		return res, vk.Violatef("server keeps %d sessions for the user after %d connection(s) of one session id", nsesh, nconn)
	}
	if sesh.GetSessionKey() != h.key {
		return res, vk.ViolateSig("key-mismatch", "client and server hold different session keys after the handshake")
	}
	if sesh.Unordered != c.UDP {
		return res, vk.Violatef("server session ordered/unordered flag is %v, client configured %v", sesh.Unordered, c.UDP)
	}
	// independent decode of every tapped first packet: the identities recovered must be exactly (as a multiset) the
	// configured ones - the client under test once per connection, every other client once
	var firsts [][]byte
	var transport Transport = TLS{}
	if cdn != nil {
		transport = WebSocket{}
		cdn.mu.Lock()
		backs := append([]*vk.Link(nil), cdn.Backs...)
		cdn.mu.Unlock()
		for _, bl := range backs {
			wire := bl.Wire(vk.AtoB)
			i := bytes.Index(wire, []byte("\r\n\r\n"))
			if i < 0 {
				return res, vk.Violatef("CDN first packet is not a complete HTTP request")
			}
			firsts = append(firsts, wire[:i+4])
		}
	} else {
		for _, l := range srv.net.All() {
			wire := l.Wire(vk.AtoB)
			if len(wire) == 0 {
				continue
			}
			recs, _ := vk.SplitTLSRecords(wire)
			if len(recs) == 0 {
				return res, vk.Violatef("no TLS record in a client's first flight")
			}
			firsts = append(firsts, wire[:5+len(recs[0].Body)])
		}
	}
	_ = conn
	wantIDs := map[string]int{}
	idOf := func(u []byte, sid uint32) string {
		return fmt.Sprintf("UID=%x method=%q enc=%d sid=%d unordered=%v", u, c.Method, c06EncByte[strings.ToLower(c.Enc)], sid, c.UDP)
	}
	wantIDs[idOf(uid, c.SessionID)] = nconn
	for j, o := range otherUIDs {
		wantIDs[idOf(o, c.SessionID+uint32(j)+1)]++
	}
	if len(firsts) != nconn+len(otherUIDs) {
		return res, fmt.Errorf("harness: tapped %d first packets, expected %d", len(firsts), nconn+len(otherUIDs))
	}
	pv := srv.pv
	sta2 := vState(&State{StaticPv: &pv, UsedRandom: map[[32]byte]int64{}, WorldState: common.WorldState{Rand: rand.Reader, Now: func() time.Time { return t0 }}})
	for _, first := range firsts {
		ci, _, aerr := AuthFirstPacket(first, transport, sta2)
		if aerr != nil {
			return res, vk.Violatef("a client's first packet does not authenticate on an independent server state: %v", aerr)
		}
		got := fmt.Sprintf("UID=%x method=%q enc=%d sid=%d unordered=%v", ci.UID, ci.ProxyMethod, ci.EncryptionMethod, ci.SessionId, ci.Unordered)
		if wantIDs[got] == 0 {
			return res, vk.ViolateSig("identity-mismatch", "server recovers %s from a first packet; no client was configured like that (or not that often); the client under test: %s", got, idOf(uid, c.SessionID))
		}
		wantIDs[got]--
	}
	sidClass := "sid=random"
	switch c.SessionID {
	case 0:
		sidClass = "sid=0"
	case 0xffffffff:
		sidClass = "sid=max"
	}
	nameClass := "name=host"
	if strings.EqualFold(c.ServerName, "random") {
		nameClass = "name=random"
	}
	res.Key = fmt.Sprintf("%s/%s/%s/%v/%s/%s/%d", strings.ToLower(c.Browser), strings.ToLower(c.Transport), c.Enc, c.UDP, sidClass, nameClass, len(c.Method))
	res.Labels = []string{"transport=" + strings.ToLower(c.Transport), "browser=" + strings.ToLower(c.Browser), sidClass, nameClass}
	if nconn > 1 {
		res.Labels = append(res.Labels, "parallel-connections")
	}
	if c.Managed {
		res.Labels = append(res.Labels, "managed-user")
	}
	if c.Others > 0 {
		res.Labels = append(res.Labels, "other-clients-at-the-same-time")
	}
	if c.SegTail > 0 {
		res.Labels = append(res.Labels, "first-packet-in-two-segments")
	}
	if len(firsts) > 0 && len(firsts[0]) > 1500 {
		res.Labels = append(res.Labels, "first-packet>1500")
	}
	_ = client.MakeSession
	return res, nil
}

func c06Gen(rt *rapid.T) c06Case {
	c := c06Case{}
	c.UID = vUIDb64(rapid.SliceOfN(rapid.Byte(), 16, 16).Draw(rt, "uid"))
	c.Method = rapid.StringMatching(`[A-Za-z0-9_-]{1,12}`).Draw(rt, "method")
	c.Enc = rapid.SampledFrom([]string{"plain", "aes-256-gcm", "aes-128-gcm", "chacha20-poly1305", "aes-gcm"}).Draw(rt, "enc")
	c.SessionID = rapid.OneOf(rapid.SampledFrom([]uint32{0, 1, 1 << 31, 0xffffffff}), rapid.Uint32()).Draw(rt, "sid")
	c.UDP = rapid.Bool().Draw(rt, "udp")
	c.Browser = rapid.SampledFrom([]string{"chrome", "firefox", "safari"}).Draw(rt, "browser")
	c.Transport = rapid.SampledFrom([]string{"direct", "direct", "direct", "cdn"}).Draw(rt, "transport")
	c.ServerName = rapid.SampledFrom([]string{"www.bing.com", "random", "a.example.org", "x.co", "very-long-name-0123456789.sub.domain.example.com", "Random", "RANDOM"}).Draw(rt, "sn")
	c.OffsetMs = rapid.OneOf(rapid.Int64Range(-178000, 178000), rapid.SampledFrom([]int64{0, -178999, 178999, 178000, -178000, 500, -500})).Draw(rt, "offset")
	c.NumConn = rapid.SampledFrom([]int{1, 1, 2, 3, 6}).Draw(rt, "numconn")
	c.Managed = rapid.Bool().Draw(rt, "managed")
	c.Others = rapid.SampledFrom([]int{0, 0, 1, 3, 6}).Draw(rt, "others")
	c.SegTail = rapid.SampledFrom([]int{0, 0, 1, 2, 3, 4, 7}).Draw(rt, "segtail")
	return c
}

func TestVerif_C06_Handshake(t *testing.T) {
	vk.Run(t, "C06", "Handshake", c06Gen, c06Run(t))
}
