package server

import (
	"bytes"
	"crypto/rand"
	"encoding/base64"
	"fmt"
	"io"
	"math/big"
	"net"
	"os"
	"path/filepath"
	"runtime"
	"strings"
	"sync"
	"testing"
	"testing/synctest"
	"time"

	"github.com/cbeuw/Cloak/internal/client"
	"github.com/cbeuw/Cloak/internal/common"
	"github.com/cbeuw/Cloak/internal/server/usermanager"
	vk "github.com/cbeuw/Cloak/internal/verifkit"
	"golang.org/x/crypto/curve25519"
	"pgregory.net/rapid"
)

// C07 - only holders of valid, timely credentials are treated as Cloak clients; the admin API needs the
// admin UID and session id 0.

// ---- (a) modified first packets: accept => the authentication payload is intact ----

type c07Identity struct {
	point  []byte // X25519(1, pub) is not available without a key: compare u-coordinates with bit 255 cleared
	sealed []byte
}

func c07Extract(first []byte, ws bool) (*c07Identity, error) {
	if ws {
		s := string(first)
		i := strings.Index(strings.ToLower(s), "\r\nhidden: ")
		if i < 0 {
			return nil, fmt.Errorf("no hidden header")
		}
		j := strings.Index(s[i+2:], "\r\n")
		if j < 8 {
			return nil, fmt.Errorf("hidden header not terminated")
		}
		raw, err := base64.StdEncoding.DecodeString(strings.TrimSpace(s[i+10 : i+2+j]))
		if err != nil || len(raw) != 96 {
			return nil, fmt.Errorf("hidden value not 96 bytes")
		}
		k := append([]byte(nil), raw[:32]...)
		k[31] &= 0x7f
		return &c07Identity{point: k, sealed: raw[32:]}, nil
	}
	recs, _ := vk.SplitTLSRecords(first)
	if len(recs) != 1 {
		return nil, fmt.Errorf("not exactly one record")
	}
	ch, err := vk.ParseClientHelloHandshake(recs[0].Body)
	if err != nil {
		return nil, err
	}
	ks := ch.KeyShares[29]
	if len(ch.SessionID) != 32 || len(ks) != 32 {
		return nil, fmt.Errorf("session id / key share not 32 bytes")
	}
	k := append([]byte(nil), ch.Random...)
	k[31] &= 0x7f
	return &c07Identity{point: k, sealed: append(append([]byte(nil), ch.SessionID...), ks...)}, nil
}

type c07Base struct {
	first []byte
	tr    Transport
	ws    bool
	ci    ClientInfo
	id    *c07Identity
	now   time.Time
	name  string
}

var c07Bases []*c07Base
var c07BaseOnce sync.Once

func c07GetBases(t *testing.T) []*c07Base {
	c07BaseOnce.Do(func() {
		_, pub := vStaticKeys()
		vk.Bubble(t, func() {
			for _, k := range []struct {
				ws  bool
				sig string
			}{{false, "firefox"}, {false, "safari"}, {false, "chrome"}, {true, "chrome"}} {
				first, tr, err := c08Capture(pub, k.ws, k.sig, 0)
				if err != nil {
					continue
				}
				b := &c07Base{first: first, tr: tr, ws: k.ws, now: time.Now(), name: k.sig}
				if k.ws {
					b.name = "websocket"
				}
				c07Bases = append(c07Bases, b)
			}
		})
		for _, b := range c07Bases {
			sta := c07FreshState(b.now)
			ci, _, err := AuthFirstPacket(append([]byte(nil), b.first...), b.tr, sta)
			if err != nil {
				panic("harness: base packet does not authenticate: " + err.Error())
			}
			b.ci = ci
			id, err := c07Extract(b.first, b.ws)
			if err != nil {
				panic("harness: base packet not parseable by the reference: " + err.Error())
			}
			b.id = id
		}
	})
	return c07Bases
}

func c07FreshState(now time.Time) *State {
	pv, _ := vStaticKeys()
	return vState(&State{StaticPv: &pv, UsedRandom: map[[32]byte]int64{}, WorldState: common.WorldState{Rand: rand.Reader, Now: func() time.Time { return now }}})
}

// c07Judge presents a modified packet on a fresh replay cache.
func c07Judge(b *c07Base, mod []byte, what string) (accepted bool, err error) {
	sta := c07FreshState(b.now)
	ci, _, aerr := AuthFirstPacket(append([]byte(nil), mod...), b.tr, sta)
	if aerr != nil {
		return false, nil
	}
	// accepted: the identity it was accepted as must be the original one, carried by the original sealed block
	if !bytes.Equal(ci.UID, b.ci.UID) || ci.SessionId != b.ci.SessionId || ci.ProxyMethod != b.ci.ProxyMethod || ci.EncryptionMethod != b.ci.EncryptionMethod || ci.Unordered != b.ci.Unordered {
		return true, vk.ViolateSig("accepts-modified", "%s: accepted as a Cloak handshake with different identity fields (UID %x sid %d method %q)", what, ci.UID, ci.SessionId, ci.ProxyMethod)
	}
	if id, xerr := c07Extract(mod, b.ws); xerr == nil {
		if !bytes.Equal(id.sealed, b.id.sealed) {
			return true, vk.ViolateSig("accepts-modified", "%s: accepted although the 64-byte sealed authentication block differs from the genuine one", what)
		}
		if !bytes.Equal(id.point, b.id.point) {
			return true, vk.ViolateSig("accepts-modified", "%s: accepted although the ephemeral public key differs from the genuine one", what)
		}
	}
	return true, nil
}

func TestVerif_C07_Flips(t *testing.T) {
	const prop, sub = "C07", "Flips"
	type flipCase struct {
		Base int
		Pos  int
		Bit  int
	}
	vk.Direct(t, prop, sub, func(fail func(any, error)) {
		bases := c07GetBases(t)
		if len(bases) < 4 {
			fail(nil, fmt.Errorf("harness: only %d base packets captured", len(bases)))
			return
		}
		var rc flipCase
		one := func(c flipCase) (bool, error) {
			b := bases[c.Base%len(bases)]
			mod := append([]byte(nil), b.first...)
			mod[c.Pos%len(mod)] ^= 1 << uint(c.Bit%8)
			var acc bool
			_, err := vk.Protect(func() (vk.Result, error) {
				var e error
				acc, e = c07Judge(b, mod, fmt.Sprintf("%s first packet with bit %d of byte %d flipped", b.name, c.Bit%8, c.Pos%len(mod)))
				return vk.Result{}, e
			})
			return acc, err
		}
		if vk.ReplayScenario(prop, sub, &rc) {
			if _, err := one(rc); err != nil {
				fail(rc, err)
			}
			return
		}
		if vk.InReplay() {
			return
		}
		for bi, b := range bases {
			type job struct{ pos int }
			jobs := make(chan int, 256)
			var wg sync.WaitGroup
			var mu sync.Mutex
			stop := false
			acceptedN, reachParser := 0, 0
			for w := 0; w < runtime.NumCPU(); w++ {
				wg.Add(1)
				go func() {
					defer wg.Done()
					for pos := range jobs {
						for bit := 0; bit < 8; bit++ {
							c := flipCase{bi, pos, bit}
							acc, err := one(c)
							mu.Lock()
							if err != nil && !stop {
								stop = true
								fail(c, err)
							}
							if acc {
								acceptedN++
							}
							mu.Unlock()
						}
					}
				}()
			}
			for pos := 0; pos < len(b.first); pos++ {
				jobs <- pos
			}
			close(jobs)
			wg.Wait()
			// non-trivial: the mutant still parses as a first packet (reaches decryption); count by reference parse
			for pos := 0; pos < len(b.first); pos++ {
				mod := append([]byte(nil), b.first...)
				mod[pos] ^= 1
				if _, err := c07Extract(mod, b.ws); err == nil {
					reachParser++
				}
				vk.AddDistinct(prop, sub, uint64(bi)<<32|uint64(pos), 8, "base="+b.name)
			}
			vk.AddLabel(prop, sub, "flips-still-accepted(outside-authenticated-fields)", int64(acceptedN))
			vk.AddLabel(prop, sub, "positions-still-parseable", int64(reachParser))
			if stop {
				return
			}
		}
		vk.SetExhaustive(prop, sub, true)
		vk.AddSample(prop, sub, flipCase{0, 11, 0})
		vk.AddSample(prop, sub, flipCase{3, 200, 7})
	})
}

type c07Edit struct {
	Base int
	Kind string // multi | truncate | extend | swap
	Pos  []int
	Mask []byte
	N    int
}

func TestVerif_C07_Edits(t *testing.T) {
	vk.Run(t, "C07", "Edits", func(rt *rapid.T) c07Edit {
		e := c07Edit{Base: rapid.IntRange(0, 3).Draw(rt, "base"), Kind: rapid.SampledFrom([]string{"multi", "multi", "truncate", "extend", "swap"}).Draw(rt, "kind")}
		n := rapid.IntRange(1, 8).Draw(rt, "n")
		for i := 0; i < n; i++ {
			e.Pos = append(e.Pos, rapid.OneOf(rapid.IntRange(0, 120), rapid.IntRange(0, 2200)).Draw(rt, "pos"))
			e.Mask = append(e.Mask, rapid.ByteRange(1, 255).Draw(rt, "mask"))
		}
		e.N = rapid.IntRange(1, 300).Draw(rt, "amount")
		return e
	}, func(e c07Edit) (vk.Result, error) {
		bases := c07GetBases(t)
		b := bases[e.Base%len(bases)]
		mod := append([]byte(nil), b.first...)
		switch e.Kind {
		case "multi":
			for i, p := range e.Pos {
				mod[p%len(mod)] ^= e.Mask[i]
			}
		case "truncate":
			mod = mod[:len(mod)-e.N%len(mod)]
		case "extend":
			mod = append(mod, bytes.Repeat([]byte{e.Mask[0]}, e.N)...)
		case "swap":
			// replace the sealed block by that of another genuine packet (made for another ephemeral key)
			o := bases[(e.Base+1)%3]
			if !b.ws && !o.ws {
				copy(mod[5+4+2+32+1:5+4+2+32+1+32], o.first[5+4+2+32+1:5+4+2+32+1+32])
			} else {
				mod[len(mod)/2] ^= 0x55
			}
		}
		if len(mod) == 0 {
			return vk.Result{}, nil
		}
		res := vk.Result{Labels: []string{"kind=" + e.Kind, "base=" + b.name}}
		if _, err := c07Extract(mod, b.ws); err == nil {
			res.NonTrivial = true
			res.Labels = append(res.Labels, "still-parses")
		}
		_, err := c07Judge(b, mod, fmt.Sprintf("%s first packet after a %s edit", b.name, e.Kind))
		return res, err
	})
}

// ---- (b) the timestamp window is strict and two-sided ----

func TestVerif_C07_Window(t *testing.T) {
	const prop, sub = "C07", "Window"
	type winCase struct {
		OffsetMs  int64 // client clock - server clock
		ServerNs  int64 // sub-second part of the server clock
		WebSocket bool
		AbsTs     int64 // when non-zero: the client's clock reads exactly this Unix time (extreme values)
	}
	_, pub := vStaticKeys()
	one := func(c winCase) error {
		var verr error
		berr := vk.Bubble(t, func() {
			serverNow := time.Now().Add(time.Duration(c.ServerNs))
			skew := time.Duration(c.OffsetMs)*time.Millisecond + time.Duration(c.ServerNs)
			clientNow := time.Now().Add(skew)
			if c.AbsTs != 0 {
				clientNow = time.Unix(c.AbsTs, 0)
			}
			first, tr, err := c08CaptureAt(pub, c.WebSocket, "firefox", func() time.Time { return clientNow })
			if err != nil {
				verr = fmt.Errorf("harness: %v", err)
				return
			}
			ts := time.Unix(clientNow.Unix(), 0) // what the client embeds
			sta := c07FreshState(serverNow)
			_, _, aerr := AuthFirstPacket(first, tr, sta)
			want := ts.After(serverNow.Add(-180*time.Second)) && ts.Before(serverNow.Add(180*time.Second))
			if c.AbsTs != 0 {
				// extreme timestamps: decide with plain integer seconds (no time arithmetic that could saturate)
				d := new(big.Int).Sub(big.NewInt(c.AbsTs), big.NewInt(serverNow.Unix()))
				want = d.CmpAbs(big.NewInt(179)) <= 0
			}
			if (aerr == nil) != want {
				verr = vk.ViolateSig("window", "client timestamp %d, server clock %d.%09d: accepted=%v, but the window is strictly |difference| < 180 s", clientNow.Unix(), serverNow.Unix(), serverNow.Nanosecond(), aerr == nil)
			}
		})
		if verr == nil && berr != nil {
			verr = fmt.Errorf("harness: bubble: %v", berr)
		}
		return verr
	}
	vk.Direct(t, prop, sub, func(fail func(any, error)) {
		var rc winCase
		if vk.ReplayScenario(prop, sub, &rc) {
			if err := one(rc); err != nil {
				fail(rc, err)
			}
			return
		}
		if vk.InReplay() {
			return
		}
		var cases []winCase
		for s := int64(-185); s <= 185; s++ {
			cases = append(cases, winCase{OffsetMs: s * 1000})
		}
		for _, edge := range []int64{-180000, 180000, -179000, 179000, -181000, 181000} {
			for _, d := range []int64{-999, -500, -1, 0, 1, 500, 999} {
				for _, ns := range []int64{0, 1, 500000000, 999999999} {
					cases = append(cases, winCase{OffsetMs: edge + d, ServerNs: ns})
					cases = append(cases, winCase{OffsetMs: edge + d, ServerNs: ns, WebSocket: true})
				}
			}
		}
		// timestamps far outside anything a sane clock produces (wrong unit, overflow edges)
		base := int64(946684800) // the bubble's epoch, 2000-01-01
		for _, ts := range []int64{1, -1, 1 << 31, 1 << 32, 1 << 34, 1 << 40, 1 << 56, 1 << 62, 1<<63 - 1, -(1 << 63), -(1 << 62), base * 1000, base * 1000000, base * 1000000000,
			base + 292*365*86400, base + 293*365*86400, base + 300*365*86400, base - 293*365*86400, base - 300*365*86400, base + 1<<33, base + 9223372036, base + 9223372037, base - 9223372037} {
			cases = append(cases, winCase{AbsTs: ts}, winCase{AbsTs: ts, WebSocket: true})
		}
		for i, c := range cases {
			if err := one(c); err != nil {
				fail(c, err)
				return
			}
			nt := c.OffsetMs <= -178000 || c.OffsetMs >= 178000 || c.AbsTs != 0
			if nt {
				vk.AddDistinct(prop, sub, uint64(i), 1, "near-window-edge")
			} else {
				vk.AddEvals(prop, sub, 1, "well-inside-window")
			}
		}
		vk.SetExhaustive(prop, sub, true)
		vk.AddSample(prop, sub, winCase{OffsetMs: 180000, ServerNs: 1})
		vk.AddSample(prop, sub, winCase{OffsetMs: -179999, ServerNs: 999999999})
	})
}

// ---- (c)+(d) what the peer gets: handshake reply vs. redirect; admin API gate ----

type c07Outcome struct {
	User      string // bypass admin ok noup nodown expired unknown deleted
	Sid       uint32
	Method    string // served | unknown
	WrongKey  bool
	Transport string
	OffsetMs  int64
	Browser   string
	AdminReq  bool // after the handshake, send an admin API request through the tunnel
	Prior     bool `json:",omitempty"` // the user's session with this id already exists when the probe arrives
	// HoldMs: the peer connects and only that much later (below the server's 15 s first-packet deadline) sends its
	// first packet, stamped with its clock at that moment: the window is about the server clock when the packet is
	// judged, not when the connection was accepted
	HoldMs int `json:",omitempty"`
	// Withdrawn (user "ok" with Prior): the user connected while authorised and still has that session (another session
	// id) when the administrator withdraws the authorisation - noup, nodown, expired, deleted; then the probe arrives
	Withdrawn string `json:",omitempty"`
}

var c07AdminUID = []byte("c07-admin-user!!")
var c07BypassUID = []byte("c07-bypass-user!")

func c07UserUID(kind string) []byte {
	switch kind {
	case "bypass":
		return c07BypassUID
	case "admin":
		return c07AdminUID
	}
	u := []byte("c07-db-user-0000")
	copy(u[12:], kind)
	return u
}

func c07Inner(c c07Outcome) (vk.Result, error) {
	res := vk.Result{NonTrivial: true}
	dir := c18TmpDir()
	defer os.RemoveAll(dir)
	mgr, err := usermanager.MakeLocalManager(filepath.Join(dir, "userinfo.db"), common.WorldState{Rand: rand.Reader, Now: time.Now})
	if err != nil {
		return res, fmt.Errorf("harness: %v", err)
	}
	defer mgr.Close()
	now := time.Now().Unix()
	mk := func(kind string, up, down, exp int64) {
		mgr.WriteUserInfo(usermanager.UserInfo{UID: c07UserUID(kind), SessionsCap: usermanager.JustInt32(5), UpRate: usermanager.JustInt64(1 << 30), DownRate: usermanager.JustInt64(1 << 30),
			UpCredit: usermanager.JustInt64(up), DownCredit: usermanager.JustInt64(down), ExpiryTime: usermanager.JustInt64(exp)})
	}
	mk("ok", 1<<40, 1<<40, now+100000)
	mk("noup", 0, 1<<40, now+100000)
	mk("nodown", 1<<40, 0, now+100000)
	mk("expired", 1<<40, 1<<40, now-1)
	mk("deleted", 1<<40, 1<<40, now+100000)
	mgr.DeleteUser(c07UserUID("deleted"))

	srv := newVSrv(vSrvOpts{Manager: mgr, Admin: c07AdminUID, Bypass: [][]byte{c07BypassUID}, Methods: []string{"shadowsocks"}, AutoNet: true, Tap: true})
	defer srv.stop()
	srv.serve()
	// redirect target and proxy server record what reaches them
	var mu sync.Mutex
	var redirGot, proxyGot []byte
	redirConns := 0
	go func() {
		for {
			c, err := srv.redirLn.Accept()
			if err != nil {
				return
			}
			mu.Lock()
			redirConns++
			mu.Unlock()
			go func(c net.Conn) {
				buf := make([]byte, 4096)
				for {
					n, err := c.Read(buf)
					mu.Lock()
					redirGot = append(redirGot, buf[:n]...)
					mu.Unlock()
					if err != nil {
						c.Close()
						return
					}
				}
			}(c)
		}
	}()
	go func() {
		for {
			c, err := srv.proxyLn.Accept()
			if err != nil {
				return
			}
			go func(c net.Conn) {
				buf := make([]byte, 4096)
				for {
					n, err := c.Read(buf)
					mu.Lock()
					proxyGot = append(proxyGot, buf[:n]...)
					mu.Unlock()
					if err != nil {
						c.Close()
						return
					}
				}
			}(c)
		}
	}()
	method := "shadowsocks"
	switch c.Method {
	case "served":
	case "unknown":
		method = "tor"
	default:
		// names that are not served but resemble the served one: another letter case, a prefix, an extension, padding
		method = c.Method
	}
	pub := srv.pub
	if c.WrongKey {
		var other [32]byte
		rand.Read(other[:])
		p, _ := curve25519.X25519(other[:], curve25519.Basepoint)
		copy(pub[:], p)
	}
	cfg := vClientCfg{UID: vUIDb64(c07UserUID(c.User)), Method: method, Enc: "aes-256-gcm", NumConn: 1, Browser: c.Browser, Transport: c.Transport, ServerName: "www.example.com"}
	offset := time.Duration(c.OffsetMs) * time.Millisecond
	_, remote, auth, err := vMustProcess(cfg, pub, func() time.Time { return time.Now().Add(offset) })
	if err != nil {
		return res, fmt.Errorf("harness: %v", err)
	}
	auth.SessionId = c.Sid
	dialer := srv.dialer()
	if strings.EqualFold(c.Transport, "cdn") {
		cdn := &vCDN{front: vk.NewListener(), back: srv.dialer(), net: srv.net}
		cdn.serve()
		defer cdn.front.Close()
		dialer = cdn.dialer()
	}
	type hs struct {
		key [32]byte
		err error
	}
	if c.Prior {
		// the same user already has this very session (opened legitimately, with the served method): the probe below
		// then asks to JOIN an existing session - every condition still applies to it
		pcfg := cfg
		pcfg.Method = "shadowsocks"
		_, premote, pauth, perr := vMustProcess(pcfg, srv.pub, time.Now)
		if perr != nil {
			return res, fmt.Errorf("harness: %v", perr)
		}
		pauth.SessionId = c.Sid
		if c.Withdrawn != "" {
			pauth.SessionId = c.Sid ^ 0x5a5a
		}
		ptr := premote.Transport.CreateTransport()
		pconn, _ := dialer.Dial("tcp", "x")
		pch := make(chan hs, 1)
		go func() {
			k, err := ptr.Handshake(pconn, pauth)
			pch <- hs{k, err}
		}()
		synctest.Wait()
		select {
		case <-pch:
		default:
		}
		mu.Lock()
		redirConns, redirGot = 0, nil
		mu.Unlock()
		defer pconn.Close()
		if c.User == "ok" {
			uid := c07UserUID("ok")
			switch c.Withdrawn {
			case "noup":
				mgr.WriteUserInfo(usermanager.UserInfo{UID: uid, UpCredit: usermanager.JustInt64(0)})
			case "nodown":
				mgr.WriteUserInfo(usermanager.UserInfo{UID: uid, DownCredit: usermanager.JustInt64(-3)})
			case "expired":
				mgr.WriteUserInfo(usermanager.UserInfo{UID: uid, ExpiryTime: usermanager.JustInt64(time.Now().Unix() - 1)})
			case "deleted":
				mgr.DeleteUser(uid)
			}
		}
	}
	tr := remote.Transport.CreateTransport()
	conn, _ := dialer.Dial("tcp", "x")
	ch := make(chan hs, 1)
	if c.HoldMs > 0 {
		synctest.Wait()
		time.Sleep(time.Duration(c.HoldMs) * time.Millisecond)
		res.Labels = append(res.Labels, "first-packet-sent-late")
	}
	go func() {
		k, err := tr.Handshake(conn, auth)
		ch <- hs{k, err}
	}()
	synctest.Wait()
	replied := false
	select {
	case h := <-ch:
		replied = h.err == nil
	default:
		// still waiting for a reply that never comes (the redirect target sent nothing)
	}
	tsOK := c.OffsetMs > -179000 && c.OffsetMs < 179000
	userOK := c.User == "bypass" || c.User == "admin" || c.User == "ok"
	if c.User == "ok" && c.Prior && c.Withdrawn != "" {
		userOK = false
		res.Labels = append(res.Labels, "authorisation-withdrawn-while-a-session-is-live")
	}
	isAdminSession := c.User == "admin" && c.Sid == 0
	want := !c.WrongKey && tsOK && userOK && (c.Method == "served" || isAdminSession)
	mu.Lock()
	redirected := redirConns > 0
	rg := append([]byte(nil), redirGot...)
	mu.Unlock()
	label := fmt.Sprintf("user=%s", c.User)
	res.Labels = append(res.Labels, label, "transport="+strings.ToLower(c.Transport))
	res.Key = fmt.Sprintf("%s/%v/%s/%v/%s/%v/%v/%v/%v/%s", c.User, c.Sid == 0, c.Method, c.WrongKey, strings.ToLower(c.Transport), c.OffsetMs, c.AdminReq, c.Prior, c.HoldMs, c.Withdrawn)
	if c.Prior {
		res.Labels = append(res.Labels, "session-already-exists")
	}
	if want {
		if !replied {
			return res, vk.ViolateSig("valid-rejected", "a valid, timely handshake (user %s, sid %d, %s) got no handshake reply", c.User, c.Sid, c.Transport)
		}
		if redirected {
			return res, vk.Violatef("a valid handshake was also relayed to the redirect target")
		}
		res.Labels = append(res.Labels, "accepted")
	} else {
		if replied {
			return res, vk.ViolateSig("invalid-accepted", "handshake reply sent although the first packet must not be accepted (user=%s method=%s wrongKey=%v clock offset=%v sid=%d)", c.User, c.Method, c.WrongKey, offset, c.Sid)
		}
		if c.User == "ok" && c.Prior && c.Withdrawn != "" && !redirected {
			// an active user refused at session admission: the server drops the attempt without a reply instead of
			// relaying it (C09 allows "or just closes"); what matters here is that it was not accepted
			res.Labels = append(res.Labels, "refused-without-reply")
			conn.Close()
			return res, nil
		}
		if !redirected || len(rg) == 0 {
			return res, vk.ViolateSig("not-redirected", "an unacceptable first packet (user=%s method=%s wrongKey=%v offset=%v) was not handed to the redirect target", c.User, c.Method, c.WrongKey, offset)
		}
		res.Labels = append(res.Labels, "redirected")
		conn.Close()
		return res, nil
	}
	conn.Close()
	return res, nil
}

func c07AdminGate(c c07Outcome) (vk.Result, error) {
	// full client session so that an HTTP request can be sent through the tunnel
	res := vk.Result{NonTrivial: true}
	dir := c18TmpDir()
	defer os.RemoveAll(dir)
	mgr, err := usermanager.MakeLocalManager(filepath.Join(dir, "userinfo.db"), common.WorldState{Rand: rand.Reader, Now: time.Now})
	if err != nil {
		return res, fmt.Errorf("harness: %v", err)
	}
	defer mgr.Close()
	mgr.WriteUserInfo(usermanager.UserInfo{UID: c07UserUID("ok"), SessionsCap: usermanager.JustInt32(5), UpRate: usermanager.JustInt64(1 << 30), DownRate: usermanager.JustInt64(1 << 30),
		UpCredit: usermanager.JustInt64(1 << 40), DownCredit: usermanager.JustInt64(1 << 40), ExpiryTime: usermanager.JustInt64(time.Now().Unix() + 100000)})
	srv := newVSrv(vSrvOpts{Manager: mgr, Admin: c07AdminUID, Bypass: [][]byte{c07BypassUID}, Methods: []string{"shadowsocks"}, AutoNet: true})
	defer srv.stop()
	srv.serve()
	var mu sync.Mutex
	var proxyGot []byte
	go func() {
		for {
			pc, err := srv.proxyLn.Accept()
			if err != nil {
				return
			}
			go func(pc net.Conn) {
				buf := make([]byte, 4096)
				for {
					n, err := pc.Read(buf)
					mu.Lock()
					proxyGot = append(proxyGot, buf[:n]...)
					mu.Unlock()
					if err != nil {
						pc.Close()
						return
					}
				}
			}(pc)
		}
	}()
	cfg := vClientCfg{UID: vUIDb64(c07UserUID(c.User)), Method: "shadowsocks", Enc: "plain", NumConn: 1, Browser: c.Browser, Transport: c.Transport, ServerName: "www.example.com"}
	_, remote, auth, err := vMustProcess(cfg, srv.pub, time.Now)
	if err != nil {
		return res, fmt.Errorf("harness: %v", err)
	}
	auth.SessionId = c.Sid
	dialer := srv.dialer()
	if strings.EqualFold(c.Transport, "cdn") {
		cdn := &vCDN{front: vk.NewListener(), back: srv.dialer(), net: srv.net}
		cdn.serve()
		defer cdn.front.Close()
		dialer = cdn.dialer()
	}
	sesh := client.MakeSession(remote, auth, dialer)
	defer sesh.Close()
	st, err := sesh.OpenStream()
	if err != nil {
		return res, vk.Violatef("OpenStream on a fresh session failed: %v", err)
	}
	req := "GET /admin/users HTTP/1.1\r\nHost: cloak\r\n\r\n"
	st.Write([]byte(req))
	var got []byte
	done := make(chan struct{})
	go func() {
		defer close(done)
		buf := make([]byte, 4096)
		st.SetReadDeadline(time.Now().Add(5 * time.Second))
		for {
			n, err := st.Read(buf)
			got = append(got, buf[:n]...)
			if err != nil || bytes.Contains(got, []byte("\r\n\r\n")) {
				return
			}
		}
	}()
	time.Sleep(6 * time.Second)
	<-done
	answered := bytes.HasPrefix(got, []byte("HTTP/1.1 200"))
	wantAPI := c.User == "admin" && c.Sid == 0
	mu.Lock()
	pg := string(proxyGot)
	mu.Unlock()
	res.Key = fmt.Sprintf("gate/%s/%v/%s", c.User, c.Sid == 0, strings.ToLower(c.Transport))
	res.Labels = append(res.Labels, fmt.Sprintf("gate:user=%s,sid0=%v", c.User, c.Sid == 0))
	if answered != wantAPI {
		return res, vk.ViolateSig("admin-gate", "user-management API answered=%v for user %s with session id %d; it must be reachable only with the admin UID and session id 0", answered, c.User, c.Sid)
	}
	if !wantAPI && !strings.Contains(pg, "GET /admin/users") {
		return res, vk.Violatef("a normal user's stream did not reach the proxy server")
	}
	_ = io.EOF
	return res, nil
}

func TestVerif_C07_Outcome(t *testing.T) {
	vk.Run(t, "C07", "Outcome", func(rt *rapid.T) c07Outcome {
		c := c07Outcome{
			User:      rapid.SampledFrom([]string{"bypass", "admin", "ok", "noup", "nodown", "expired", "unknown", "deleted"}).Draw(rt, "user"),
			Sid:       rapid.SampledFrom([]uint32{0, 0, 1, 77, 0xffffffff}).Draw(rt, "sid"),
			Method:    rapid.SampledFrom([]string{"served", "served", "served", "served", "unknown", "Shadowsocks", "SHADOWSOCKS", "shadowsock", "shadowsocks2", "shadowsocks "}).Draw(rt, "method"),
			WrongKey:  rapid.IntRange(0, 5).Draw(rt, "wrongkey") == 0,
			Transport: rapid.SampledFrom([]string{"direct", "direct", "cdn"}).Draw(rt, "transport"),
			OffsetMs:  rapid.SampledFrom([]int64{0, 0, 0, 170000, -170000, 176000, -176000, 185000, -185000, 200000, -200000, 86400000}).Draw(rt, "offset"),
			HoldMs:    rapid.SampledFrom([]int{0, 0, 2500, 9000, 14000}).Draw(rt, "hold"),
			Browser:   rapid.SampledFrom([]string{"chrome", "firefox", "safari"}).Draw(rt, "browser"),
		}
		c.Prior = rapid.IntRange(0, 2).Draw(rt, "prior") == 0
		if c.User == "ok" && rapid.Bool().Draw(rt, "withdraw") {
			c.Prior = true
			c.Withdrawn = rapid.SampledFrom([]string{"noup", "nodown", "expired", "deleted"}).Draw(rt, "withdrawn")
		}
		return c
	}, func(c c07Outcome) (vk.Result, error) {
		var res vk.Result
		var verr error
		berr := vk.Bubble(t, func() {
			res, verr = vk.Protect(func() (vk.Result, error) { return c07Inner(c) })
		})
		if verr == nil && berr != nil {
			verr = fmt.Errorf("harness: bubble: %v", berr)
		}
		return res, verr
	})
}

func TestVerif_C07_AdminGate(t *testing.T) {
	vk.Run(t, "C07", "AdminGate", func(rt *rapid.T) c07Outcome {
		return c07Outcome{
			User:      rapid.SampledFrom([]string{"admin", "admin", "bypass", "ok"}).Draw(rt, "user"),
			Sid:       rapid.SampledFrom([]uint32{0, 0, 1, 0xffffffff}).Draw(rt, "sid"),
			Transport: rapid.SampledFrom([]string{"direct", "direct", "cdn"}).Draw(rt, "transport"),
			Browser:   rapid.SampledFrom([]string{"chrome", "firefox", "safari"}).Draw(rt, "browser"),
		}
	}, func(c c07Outcome) (vk.Result, error) {
		var res vk.Result
		var verr error
		berr := vk.Bubble(t, func() {
			res, verr = vk.Protect(func() (vk.Result, error) { return c07AdminGate(c) })
		})
		if verr == nil && berr != nil {
			verr = fmt.Errorf("harness: bubble: %v", berr)
		}
		return res, verr
	})
}

// ---- (e) first packets forged without knowledge of the server's public key ----
//
// Someone who does not know the server's static public key can still choose the 32 "ephemeral key" bytes freely.
// Special encodings (small-order points, 0, 1, p-1, p, p+1, with and without bit 255) make a naive X25519 return
// a predictable (all-zero) secret. The forger seals a perfectly plausible payload (authorised UID, served
// method, current timestamp) under the secret such an implementation would compute. None may be accepted.

type c07Forged struct {
	Point    int  // index into c07Points
	Bit255   bool // additionally set the ignored top bit
	WS       bool
	Admin    bool // forge the admin UID with session id 0
	KeyGuess int  // 0: all-zero secret, 1: secret = the point itself, 2: X25519(1, point) as computed by a permissive implementation
}

var c07Points = func() [][32]byte {
	var pts [][32]byte
	add := func(hexs string) {
		var p [32]byte
		for i := 0; i < 32; i++ {
			fmt.Sscanf(hexs[2*i:2*i+2], "%02x", &p[i])
		}
		pts = append(pts, p)
	}
	add("0000000000000000000000000000000000000000000000000000000000000000") // 0
	add("0100000000000000000000000000000000000000000000000000000000000000") // 1
	add("e0eb7a7c3b41b8ae1656e3faf19fc46ada098deb9c32b1fd866205165f49b800") // order 8
	add("5f9c95bca3508c24b1d0b1559c83ef5b04445cc4581c8e86d8224eddd09f1157") // order 8
	add("ecffffffffffffffffffffffffffffffffffffffffffffffffffffffffffff7f") // p-1
	add("edffffffffffffffffffffffffffffffffffffffffffffffffffffffffffff7f") // p
	add("eeffffffffffffffffffffffffffffffffffffffffffffffffffffffffffff7f") // p+1
	return pts
}()

func c07ForgedPacket(t *testing.T, c c07Forged, now time.Time) ([]byte, Transport, error) {
	bases := c07GetBases(t)
	pt := c07Points[c.Point%len(c07Points)]
	if c.Bit255 {
		pt[31] |= 0x80
	}
	var secret [32]byte
	switch c.KeyGuess % 3 {
	case 1:
		secret = c07Points[c.Point%len(c07Points)]
	case 2:
		var one [32]byte
		one[0] = 1
		var out [32]byte
		curve25519.ScalarMult(&out, &one, &pt) //nolint:staticcheck // deliberately the permissive primitive
		secret = out
	}
	plain := make([]byte, 48)
	uid := []byte("c08-bypass-user!")
	var sid uint32 = 7
	if c.Admin {
		uid = c07AdminUID
		sid = 0
	}
	copy(plain, uid)
	copy(plain[16:28], "shadowsocks")
	plain[28] = 0
	ts := uint64(now.Unix())
	for i := 0; i < 8; i++ {
		plain[29+i] = byte(ts >> (56 - 8*i))
	}
	plain[37], plain[38], plain[39], plain[40] = byte(sid>>24), byte(sid>>16), byte(sid>>8), byte(sid)
	sealed, err := common.AESGCMEncrypt(pt[:12], secret[:], plain)
	if err != nil || len(sealed) != 64 {
		return nil, nil, fmt.Errorf("harness: seal: %v", err)
	}
	if c.WS {
		hidden := base64.StdEncoding.EncodeToString(append(append([]byte(nil), pt[:]...), sealed...))
		req := "GET / HTTP/1.1\r\nHost: cdn.example\r\nUpgrade: websocket\r\nConnection: Upgrade\r\nSec-WebSocket-Key: dGhlIHNhbXBsZSBub25jZQ==\r\nSec-WebSocket-Version: 13\r\nhidden: " + hidden + "\r\n\r\n"
		return []byte(req), WebSocket{}, nil
	}
	b := bases[0] // firefox hello as the carrier
	pkt := append([]byte(nil), b.first...)
	const randomOff = 5 + 4 + 2
	copy(pkt[randomOff:randomOff+32], pt[:])
	copy(pkt[randomOff+32+1:randomOff+32+1+32], sealed[:32])
	// key share: locate the genuine one (32 bytes equal to the genuine sealed[32:64]) and overwrite it
	i := bytes.Index(pkt, b.id.sealed[32:64])
	if i < 0 {
		return nil, nil, fmt.Errorf("harness: key share not found in carrier hello")
	}
	copy(pkt[i:i+32], sealed[32:64])
	return pkt, TLS{}, nil
}

func TestVerif_C07_Forged(t *testing.T) {
	const prop, sub = "C07", "Forged"
	vk.Direct(t, prop, sub, func(fail func(any, error)) {
		now := time.Unix(1700000000, 0)
		one := func(c c07Forged) error {
			pkt, tr, err := c07ForgedPacket(t, c, now)
			if err != nil {
				return err
			}
			_, perr := vk.Protect(func() (vk.Result, error) {
				sta := c07FreshState(now)
				sta.AdminUID = c07AdminUID
				ci, _, aerr := AuthFirstPacket(pkt, tr, sta)
				if aerr == nil {
					return vk.Result{}, vk.ViolateSig("forged-accepted", "a first packet forged without the server's public key (ephemeral key = special point #%d, bit255=%v, secret guess %d, websocket=%v) was accepted as UID %x session id %d", c.Point, c.Bit255, c.KeyGuess, c.WS, ci.UID, ci.SessionId)
				}
				return vk.Result{}, nil
			})
			return perr
		}
		var rc c07Forged
		if vk.ReplayScenario(prop, sub, &rc) {
			if err := one(rc); err != nil {
				fail(rc, err)
			}
			return
		}
		if vk.InReplay() {
			return
		}
		n := 0
		for p := range c07Points {
			for _, bit := range []bool{false, true} {
				for _, ws := range []bool{false, true} {
					for _, admin := range []bool{false, true} {
						for guess := 0; guess < 3; guess++ {
							c := c07Forged{Point: p, Bit255: bit, WS: ws, Admin: admin, KeyGuess: guess}
							if err := one(c); err != nil {
								fail(c, err)
								return
							}
							vk.AddDistinct(prop, sub, uint64(n), 1, fmt.Sprintf("point=%d", p))
							n++
						}
					}
				}
			}
		}
		vk.SetExhaustive(prop, sub, true)
		vk.AddSample(prop, sub, c07Forged{Point: 2, WS: true, Admin: true})
	})
}
