package server

import (
	"bytes"
	"crypto/rand"
	"fmt"
	"os"
	"path/filepath"
	"testing"
	"time"

	"github.com/cbeuw/Cloak/internal/common"
	"github.com/cbeuw/Cloak/internal/server/usermanager"
	vk "github.com/cbeuw/Cloak/internal/verifkit"
	"pgregory.net/rapid"
)

// C07 (f) ConfigUIDs: which UIDs a server admits as a function of its *configuration*. The state is built by
// InitState from a generated RawConfig (admin UID present or not, 0..3 bypass UIDs, user database or none); genuine,
// timely first packets are then presented for probe UIDs - all-zero, all-0xFF, the configured ones, the configured
// ones with one byte changed, a database user, random - through dispatchConnection (real time, test network).
// Oracle: handshake reply iff the UID is in the bypass list, is the configured admin UID, or is a valid database user;
// otherwise the connection is handed to the redirect target.

type c07Cfg struct {
	Admin   string // none | random | zero (all-zero admin UID explicitly configured)
	Bypass  [][]byte
	DB      bool
	Browser string
}

func c07CfgRun(c c07Cfg) (vk.Result, error) {
	res := vk.Result{NonTrivial: true}
	pv, pub := vStaticKeys()
	raw := RawConfig{ProxyBook: map[string][]string{"shadowsocks": {"tcp", "127.0.0.1:9"}}, RedirAddr: "127.0.0.1", PrivateKey: pv[:], BypassUID: c.Bypass}
	var admin []byte
	switch c.Admin {
	case "random":
		admin = []byte("c07cfg-admin-uid")
	case "zero":
		admin = make([]byte, 16)
	}
	raw.AdminUID = admin
	dbUser := []byte("c07cfg-database!")
	if c.DB {
		dir := c18TmpDir()
		defer os.RemoveAll(dir)
		raw.DatabasePath = filepath.Join(dir, "userinfo.db")
	}
	sta, err := InitState(raw, common.WorldState{Rand: rand.Reader, Now: time.Now})
	if err != nil {
		return res, fmt.Errorf("harness: InitState: %v", err)
	}
	if cl, ok := sta.Panel.Manager.(interface{ Close() error }); ok {
		defer cl.Close()
	}
	haveDB := false
	if _, void := sta.Panel.Manager.(*usermanager.Voidmanager); !void {
		haveDB = true
		sta.Panel.Manager.WriteUserInfo(usermanager.UserInfo{UID: dbUser, SessionsCap: usermanager.JustInt32(5), UpRate: usermanager.JustInt64(1 << 30), DownRate: usermanager.JustInt64(1 << 30),
			UpCredit: usermanager.JustInt64(1 << 40), DownCredit: usermanager.JustInt64(1 << 40), ExpiryTime: usermanager.JustInt64(time.Now().Unix() + 100000)})
	}
	redirLn := vk.NewListener()
	redir := &vk.Dialer{Net: &vk.Net{Auto: true}, Ln: redirLn}
	sta.RedirDialer = redir
	go func() {
		for {
			c, err := redirLn.Accept()
			if err != nil {
				return
			}
			go func() {
				buf := make([]byte, 4096)
				for {
					if _, err := c.Read(buf); err != nil {
						return
					}
				}
			}()
		}
	}()
	defer redirLn.Close()
	flip := func(u []byte) []byte { v := append([]byte(nil), u...); v[len(v)-1] ^= 1; return v }
	probes := [][]byte{make([]byte, 16), bytes.Repeat([]byte{0xff}, 16), []byte("c07cfg-unknown-u"), dbUser, []byte("c07cfg-admin-uid"), flip([]byte("c07cfg-admin-uid"))}
	for _, b := range c.Bypass {
		probes = append(probes, b, flip(b))
	}
	cliLn := vk.NewListener()
	defer cliLn.Close()
	cnet := &vk.Net{Auto: true}
	for _, uid := range probes {
		want := false
		for _, b := range c.Bypass {
			if bytes.Equal(b, uid) {
				want = true
			}
		}
		if len(admin) != 0 && bytes.Equal(admin, uid) {
			want = true
		}
		if haveDB && bytes.Equal(uid, dbUser) {
			want = true
		}
		cfg := vClientCfg{UID: vUIDb64(uid), Method: "shadowsocks", Enc: "plain", NumConn: 1, Browser: c.Browser, Transport: "direct", ServerName: "www.example.com"}
		_, remote, auth, err := vMustProcess(cfg, pub, time.Now)
		if err != nil {
			return res, fmt.Errorf("harness: %v", err)
		}
		auth.SessionId = 5
		d := &vk.Dialer{Net: cnet, Ln: cliLn}
		conn, _ := d.Dial("tcp", "x")
		sconn, err := cliLn.Accept()
		if err != nil {
			return res, fmt.Errorf("harness: accept: %v", err)
		}
		before := redir.DialCount()
		go dispatchConnection(sconn, sta)
		tr := remote.Transport.CreateTransport()
		hs := make(chan error, 1)
		go func() {
			_, err := tr.Handshake(conn, auth)
			hs <- err
		}()
		accepted, redirected := false, false
		deadline := time.Now().Add(20 * time.Second)
		for time.Now().Before(deadline) {
			select {
			case err := <-hs:
				accepted = err == nil
			default:
			}
			redirected = redir.DialCount() > before
			if accepted || redirected {
				break
			}
			time.Sleep(time.Millisecond)
		}
		conn.Close()
		if !accepted && !redirected {
			return res, fmt.Errorf("harness: no outcome within 20 s for UID %x", uid)
		}
		desc := fmt.Sprintf("admin UID %s, %d bypass UID(s), user database %v", c.Admin, len(c.Bypass), haveDB)
		if accepted && !want {
			return res, vk.ViolateSig("unlisted-uid-accepted", "a genuine first packet for UID %x was given a handshake reply although that UID is neither in the bypass list, nor the configured admin UID, nor a database user (configuration: %s)", uid, desc)
		}
		if !accepted && want {
			return res, vk.ViolateSig("valid-rejected", "a genuine, timely first packet for authorised UID %x was handed to the redirect target (configuration: %s)", uid, desc)
		}
	}
	res.Labels = append(res.Labels, "admin="+c.Admin, fmt.Sprintf("bypass=%d", len(c.Bypass)), fmt.Sprintf("db=%v", haveDB))
	res.Key = fmt.Sprintf("%s/%d/%v", c.Admin, len(c.Bypass), haveDB)
	res.Count = int64(len(probes))
	return res, nil
}

func TestVerif_C07_ConfigUIDs(t *testing.T) {
	vk.Run(t, "C07", "ConfigUIDs", func(rt *rapid.T) c07Cfg {
		c := c07Cfg{Admin: rapid.SampledFrom([]string{"none", "none", "random", "random", "zero"}).Draw(rt, "admin"), DB: rapid.Bool().Draw(rt, "db"), Browser: rapid.SampledFrom([]string{"firefox", "safari", "chrome"}).Draw(rt, "browser")}
		nb := rapid.IntRange(0, 3).Draw(rt, "nbypass")
		for i := 0; i < nb; i++ {
			u := rapid.SliceOfN(rapid.Byte(), 16, 16).Draw(rt, "buid")
			if rapid.IntRange(0, 3).Draw(rt, "tail") == 0 {
				u[15], u[14] = 0, 0
			}
			c.Bypass = append(c.Bypass, u)
		}
		return c
	}, func(c c07Cfg) (vk.Result, error) {
		return vk.Protect(func() (vk.Result, error) { return c07CfgRun(c) })
	})
}
