package server

import (
	"bytes"
	"crypto/rand"
	"encoding/base64"
	"fmt"
	"github.com/cbeuw/Cloak/internal/server/usermanager"
	"net"
	"runtime"
	"strings"
	"sync"
	"sync/atomic"
	"testing"
	"testing/synctest"
	"time"

	"github.com/cbeuw/Cloak/internal/common"
	vk "github.com/cbeuw/Cloak/internal/verifkit"
	"pgregory.net/rapid"
)

// C08 - a captured handshake can never be replayed: at most one presentation of a sealed identity block is
// accepted while its timestamp is inside the window, across replay-cache clean-ups, concurrent presentations and
// key-less alterations of the packet.

type c08Op struct {
	K    string `json:"k"`           // new | again | variant | concurrent | advance
	I    int    `json:"i,omitempty"` // packet index (modulo the number of packets created so far)
	Kind string `json:"kind,omitempty"`
	N    int    `json:"n,omitempty"`
	Ms   int64  `json:"ms,omitempty"` // advance
	WS   bool   `json:"ws,omitempty"`
	Sig  string `json:"sig,omitempty"`
	Skew int64  `json:"skew,omitempty"` // new: client clock minus server clock, in ms
}

type c08Scenario struct {
	Ops []c08Op
}

type c08Packet struct {
	first     []byte
	transport Transport
	created   time.Time
	accepted  int
	ws        bool
}

// c08Capture produces a genuine first packet with the real client transport (must run inside a bubble).
func c08Capture(pub [32]byte, ws bool, browser string, skew time.Duration) ([]byte, Transport, error) {
	return c08CaptureAt(pub, ws, browser, func() time.Time { return time.Now().Add(skew) })
}

// identity put into captured first packets (changed temporarily by checks that need other credentials)
var c08CaptureUID, c08CaptureMethod = "c08-bypass-user!", "shadowsocks"

// c08CaptureAt is c08Capture with an arbitrary client clock.
func c08CaptureAt(pub [32]byte, ws bool, browser string, clientNow func() time.Time) ([]byte, Transport, error) {
	cfg := vClientCfg{UID: vUIDb64([]byte(c08CaptureUID)), Method: c08CaptureMethod, Enc: "plain", NumConn: 1, Browser: browser, Transport: "direct", ServerName: "www.example.com"}
	if ws {
		cfg.Transport = "cdn"
	}
	_, remote, auth, err := vMustProcess(cfg, pub, clientNow)
	if err != nil {
		return nil, nil, err
	}
	var q [4]byte
	rand.Read(q[:])
	auth.SessionId = uint32(q[0])<<8 | uint32(q[1])
	net := &vk.Net{Tap: true, Auto: true}
	sink := vk.NewListener()
	tr := remote.Transport.CreateTransport()
	if !ws {
		d := &vk.Dialer{Net: net, Ln: sink}
		conn, _ := d.Dial("tcp", "x")
		go tr.Handshake(conn, auth)
		synctest.Wait()
		l := conn.(*vk.End).Link()
		wire := l.Wire(vk.AtoB)
		l.A.Close()
		l.B.Close()
		synctest.Wait()
		recs, _ := vk.SplitTLSRecords(wire)
		if len(recs) == 0 {
			return nil, nil, fmt.Errorf("no ClientHello captured")
		}
		return wire[:5+len(recs[0].Body)], TLS{}, nil
	}
	cdn := &vCDN{front: vk.NewListener(), back: &vk.Dialer{Net: net, Ln: sink}, net: net}
	cdn.serve()
	conn, _ := cdn.dialer().Dial("tcp", "x")
	go tr.Handshake(conn, auth)
	synctest.Wait()
	cdn.mu.Lock()
	var wire []byte
	if len(cdn.Backs) > 0 {
		wire = cdn.Backs[0].Wire(vk.AtoB)
	}
	cdn.mu.Unlock()
	cdn.front.Close()
	for _, l := range net.All() {
		l.A.Close()
		l.B.Close()
	}
	synctest.Wait()
	i := bytes.Index(wire, []byte("\r\n\r\n"))
	if i < 0 {
		return nil, nil, fmt.Errorf("no HTTP request captured")
	}
	return wire[:i+4], WebSocket{}, nil
}

// c08Variant alters a first packet the way someone without keys can, keeping the sealed identity block.
func c08Variant(p *c08Packet, kind string) []byte {
	v := append([]byte(nil), p.first...)
	if !p.ws {
		const randomOff = 5 + 4 + 2
		switch kind {
		case "bit255":
			v[randomOff+31] ^= 0x80
		case "garble":
			// same random, sealed part damaged (a bit of the session id): it cannot authenticate, and presenting it
			// must not make the server forget that it has seen the genuine packet
			v[randomOff+32+1+7] ^= 0x10
		case "ciphersuite":
			off := randomOff + 32 + 1 + 32 + 2
			v[off+3] ^= 0x01
		default: // sni: change one letter of the server name
			if i := bytes.Index(v, []byte("www.example.com")); i >= 0 {
				v[i] = 'x'
			}
		}
		return v
	}
	s := string(v)
	i := strings.Index(strings.ToLower(s), "hidden: ")
	if i < 0 {
		return v
	}
	j := strings.Index(s[i:], "\r\n") + i
	val := s[i+8 : j]
	switch kind {
	case "bit255":
		raw, err := base64.StdEncoding.DecodeString(val)
		if err != nil || len(raw) < 96 {
			return v
		}
		raw[31] ^= 0x80
		return []byte(s[:i+8] + base64.StdEncoding.EncodeToString(raw) + s[j:])
	case "garble":
		raw, err := base64.StdEncoding.DecodeString(val)
		if err != nil || len(raw) < 96 {
			return v
		}
		raw[32+7] ^= 0x10
		return []byte(s[:i+8] + base64.StdEncoding.EncodeToString(raw) + s[j:])
	case "ciphersuite":
		return []byte(strings.Replace(s, "\r\n\r\n", "\r\nX-Extra: 1\r\n\r\n", 1))
	default:
		return []byte(strings.Replace(s, "GET / ", "GET /a ", 1))
	}
}

// c08Sealed returns the 96 bytes a first packet carries for the server: 32-byte ephemeral key, 64 bytes sealed.
func c08Sealed(first []byte, ws bool) []byte {
	if ws {
		s := string(first)
		i := strings.Index(strings.ToLower(s), "\r\nhidden: ")
		if i < 0 {
			return nil
		}
		j := strings.Index(s[i+2:], "\r\n")
		raw, err := base64.StdEncoding.DecodeString(strings.TrimSpace(s[i+10 : i+2+j]))
		if err != nil || len(raw) != 96 {
			return nil
		}
		return raw
	}
	recs, _ := vk.SplitTLSRecords(first)
	if len(recs) != 1 {
		return nil
	}
	ch, err := vk.ParseClientHelloHandshake(recs[0].Body)
	if err != nil || len(ch.Random) != 32 || len(ch.SessionID) != 32 || len(ch.KeyShares[29]) != 32 {
		return nil
	}
	return append(append(append([]byte(nil), ch.Random...), ch.SessionID...), ch.KeyShares[29]...)
}

// c08Rewrap puts p's 96 bytes into tmpl, a genuine first packet of the other transport.
func c08Rewrap(p *c08Packet, tmpl []byte) []byte {
	mine := c08Sealed(p.first, p.ws)
	theirs := c08Sealed(tmpl, !p.ws)
	if mine == nil || theirs == nil {
		return nil
	}
	out := append([]byte(nil), tmpl...)
	if !p.ws {
		// into a WebSocket upgrade: replace the hidden header's value
		return bytes.Replace(out, []byte(base64.StdEncoding.EncodeToString(theirs)), []byte(base64.StdEncoding.EncodeToString(mine)), 1)
	}
	// into a ClientHello: random, session id, key share
	for k := 0; k < 3; k++ {
		i := bytes.Index(out, theirs[32*k:32*k+32])
		if i < 0 {
			return nil
		}
		copy(out[i:], mine[32*k:32*k+32])
	}
	return out
}

func c08Run(t *testing.T) func(sc c08Scenario) (vk.Result, error) {
	return func(sc c08Scenario) (vk.Result, error) {
		var res vk.Result
		var verr error
		berr := vk.Bubble(t, func() {
			res, verr = vk.Protect(func() (vk.Result, error) { return c08Inner(sc) })
		})
		if verr == nil && berr != nil {
			verr = fmt.Errorf("harness: bubble: %v", berr)
		}
		return res, verr
	}
}

func c08Inner(sc c08Scenario) (vk.Result, error) {
	res := vk.Result{}
	pv, pub := vStaticKeys()
	var stop atomic.Bool
	// a presentation can be armed to happen while the periodic clean-up is running: the clean-up consults the
	// clock for every entry it looks at, which is where the harness slips the presentation in
	var armed atomic.Pointer[func()]
	now := func() time.Time {
		if stop.Load() {
			runtime.Goexit()
		}
		if f := armed.Load(); f != nil && calledFromCleaner() && armed.CompareAndSwap(f, nil) {
			go (*f)()
			for i := 0; i < 3000; i++ {
				runtime.Gosched() // let the presenter reach the replay gate while the clean-up is still in progress
			}
		}
		return time.Now()
	}
	sta := vState(&State{StaticPv: &pv, UsedRandom: map[[32]byte]int64{}, WorldState: common.WorldState{Rand: rand.Reader, Now: now}})
	// what connection handling needs (op newViaServer): the captured packets' user is authorised, its proxy method served
	sinkNet, sinkLn := &vk.Net{Auto: true}, vk.NewListener()
	var cuid [16]byte
	copy(cuid[:], c08CaptureUID)
	sta.BypassUID = map[[16]byte]struct{}{cuid: {}}
	sta.ProxyBook = map[string]net.Addr{c08CaptureMethod: &net.TCPAddr{IP: net.IPv4(10, 8, 8, 8), Port: 8388}}
	sta.ProxyDialer = &vk.Dialer{Net: sinkNet, Ln: sinkLn}
	sta.RedirDialer = &vk.Dialer{Net: sinkNet, Ln: sinkLn}
	sta.RedirHost, sta.RedirPort = &net.IPAddr{IP: net.IPv4(10, 9, 9, 9)}, "443"
	sta.Panel = vPanel(&usermanager.Voidmanager{})
	defer sinkLn.Close()
	go sta.UsedRandomCleaner()
	t0 := time.Now()
	defer func() {
		// end the cleaner goroutine: make sure it has an entry to look at, then let its clock call exit it
		sta.usedRandomM.Lock()
		sta.UsedRandom[[32]byte{1}] = time.Now().Unix()
		sta.usedRandomM.Unlock()
		stop.Store(true)
		time.Sleep(13 * time.Hour)
	}()
	var pkts []*c08Packet
	floods := 0
	type duringRes struct {
		idx int
		err error
	}
	duringCh := make(chan duringRes, 4)
	cleanerRuns := func(a, b time.Time) bool {
		// the cleaner wakes every 12 h after start
		ka := int64(a.Sub(t0) / (12 * time.Hour))
		kb := int64(b.Sub(t0) / (12 * time.Hour))
		return kb > ka
	}
	inWindow := func(p *c08Packet) bool {
		// timestamp is truncated to whole seconds by the client
		ts := time.Unix(p.created.Unix(), 0)
		n := time.Now()
		return ts.After(n.Add(-180*time.Second)) && ts.Before(n.Add(180*time.Second))
	}
	var lastAccept = map[int]time.Time{}
	var presentVia Transport // when set: the next presentation goes through this transport instead of the packet's own
	present := func(p *c08Packet, idx int, data []byte, what string) error {
		tr := p.transport
		if presentVia != nil {
			tr, presentVia = presentVia, nil
		}
		_, _, err := AuthFirstPacket(data, tr, sta)
		if err == nil {
			if p.accepted > 0 {
				after := ""
				if cleanerRuns(lastAccept[idx], time.Now()) {
					after = " (a replay-cache clean-up ran in between)"
					return vk.ViolateSig("replay-after-cleanup", "%s of packet %d accepted a second time %v after its first acceptance%s, while its timestamp is still inside the window", what, idx, time.Since(lastAccept[idx]), after)
				}
				return vk.ViolateSig("replay-"+what, "%s of packet %d accepted although the same sealed identity block had already been accepted %v earlier", what, idx, time.Since(lastAccept[idx]))
			}
			p.accepted++
			lastAccept[idx] = time.Now()
		}
		return nil
	}
	for _, op := range sc.Ops {
		switch op.K {
		case "new":
			skew := time.Duration(op.Skew) * time.Millisecond
			first, tr, err := c08Capture(pub, op.WS, op.Sig, skew)
			if err != nil {
				return res, fmt.Errorf("harness: %v", err)
			}
			p := &c08Packet{first: first, transport: tr, created: time.Now().Add(skew), ws: op.WS}
			if op.Skew != 0 {
				res.Labels = append(res.Labels, "client-clock-skewed")
			}
			pkts = append(pkts, p)
			if err := present(p, len(pkts)-1, p.first, "first presentation"); err != nil {
				return res, err
			}
			if p.accepted == 0 && op.Skew > -179000 && op.Skew < 179000 {
				return res, vk.Violatef("a genuine fresh handshake was not accepted (needed as the base of the replay history)")
			}
			if p.accepted == 0 {
				// stamped by a clock far ahead: refused now, and - since this presentation is remembered - refused for good
				res.Labels = append(res.Labels, "first-presented-before-its-window")
			}
		case "again":
			if len(pkts) == 0 {
				continue
			}
			idx := op.I % len(pkts)
			p := pkts[idx]
			if p.accepted > 0 && inWindow(p) && cleanerRuns(lastAccept[idx], time.Now()) {
				res.NonTrivial = true
				res.Labels = append(res.Labels, "replay-after-cleaner-run-in-window")
			}
			if err := present(p, idx, p.first, "verbatim replay"); err != nil {
				return res, err
			}
		case "variant":
			if len(pkts) == 0 {
				continue
			}
			idx := op.I % len(pkts)
			p := pkts[idx]
			v := c08Variant(p, op.Kind)
			if op.Kind == "rewrap" {
				// the sealed identity block lifted out of the packet and presented in a first packet of the OTHER transport
				// (ClientHello random / session id / key share <-> the WebSocket upgrade's hidden header): no key needed
				tmpl, ttr, err := c08Capture(pub, !p.ws, "firefox", 0)
				if err != nil {
					return res, fmt.Errorf("harness: %v", err)
				}
				v = c08Rewrap(p, tmpl)
				if v == nil {
					return res, fmt.Errorf("harness: cannot re-wrap the sealed block")
				}
				presentVia = ttr
			}
			if inWindow(p) {
				res.NonTrivial = true
				res.Labels = append(res.Labels, "altered-copy-in-window:"+op.Kind)
			}
			if err := present(p, idx, v, "altered copy ("+op.Kind+")"); err != nil {
				return res, err
			}
		case "concurrent":
			if len(pkts) == 0 {
				continue
			}
			idx := op.I % len(pkts)
			p := pkts[idx]
			n := 2 + op.N%15
			var wg sync.WaitGroup
			var ok int32
			for g := 0; g < n; g++ {
				wg.Add(1)
				go func() {
					defer wg.Done()
					if _, _, err := AuthFirstPacket(append([]byte(nil), p.first...), p.transport, sta); err == nil {
						atomic.AddInt32(&ok, 1)
					}
				}()
			}
			wg.Wait()
			if int(ok)+p.accepted > 1 {
				return res, vk.ViolateSig("replay-concurrent", "%d simultaneous presentations of packet %d: %d accepted (already accepted before: %d)", n, idx, ok, p.accepted)
			}
			if ok > 0 {
				p.accepted++
				lastAccept[idx] = time.Now()
			}
			res.Labels = append(res.Labels, "concurrent-presentations")
		case "flood":
			// N other peers present first packets of their own (visitors of the disguised site, probes, other
			// clients): the server's replay memory has to keep what it has seen however busy it is. Up to 2000 of
			// them go through AuthFirstPacket (a genuine ClientHello with a fresh random: not a Cloak client, but
			// registered); beyond that, the remaining ones are registered directly, as AuthFirstPacket would.
			if len(pkts) == 0 {
				continue
			}
			var base *c08Packet
			for _, p := range pkts {
				if !p.ws {
					base = p
				}
			}
			floods++
			for k := 0; k < op.N; k++ {
				var r [32]byte
				vFill(r[:], uint64(0xF100D000+floods), uint64(k)*32)
				if k < 2000 && base != nil && len(base.first) > 43 {
					other := append([]byte(nil), base.first...)
					copy(other[11:43], r[:])
					if _, _, err := AuthFirstPacket(other, base.transport, sta); err == nil {
						return res, vk.Violatef("a ClientHello with a foreign random and somebody else's sealed block was accepted")
					}
					continue
				}
				sta.registerRandom(r)
			}
			res.Labels = append(res.Labels, fmt.Sprintf("flood-of-other-first-packets>=%d", floodClass(op.N)))
		case "advance":
			time.Sleep(time.Duration(op.Ms) * time.Millisecond)
			synctest.Wait()
			select {
			case r := <-duringCh:
				if r.err == nil {
					pkts[r.idx].accepted++
					lastAccept[r.idx] = time.Now()
				}
				res.NonTrivial = true
				res.Labels = append(res.Labels, "presentation-during-cleanup")
			default:
			}
		case "newViaServer":
			// a fresh genuine packet arrives on a connection and is handled by the server's connection handler; the
			// reply reaches the client (N=0), cannot be written because the connection was reset right after the
			// first packet (N=1), or the client hangs up at once (N=2). In every case the server has accepted this
			// handshake - it set up (or joined) a session for it - and later presentations are replays
			first, tr, err := c08Capture(pub, op.WS, op.Sig, 0)
			if err != nil {
				return res, fmt.Errorf("harness: %v", err)
			}
			p := &c08Packet{first: first, transport: tr, created: time.Now(), ws: op.WS}
			pkts = append(pkts, p)
			hnet, hln := &vk.Net{Auto: true, Tap: true}, vk.NewListener()
			if op.N == 1 {
				hnet.OnLink = func(l *vk.Link) { l.BreakWrites(vk.BtoA) }
			}
			conn, _ := (&vk.Dialer{Net: hnet, Ln: hln}).Dial("tcp", "x")
			sconn, _ := hln.Accept()
			go dispatchConnection(sconn, sta)
			conn.Write(first)
			if op.N == 2 {
				conn.Close()
			}
			synctest.Wait()
			replied := len(conn.(*vk.End).Link().Wire(vk.BtoA)) > 0
			if op.N == 0 && !replied {
				return res, vk.Violatef("a genuine fresh handshake arriving on a connection was not answered (needed as the base of the replay history)")
			}
			conn.Close()
			synctest.Wait()
			p.accepted++
			lastAccept[len(pkts)-1] = time.Now()
			res.NonTrivial = true
			res.Labels = append(res.Labels, []string{"first-presentation-on-a-connection:answered", "first-presentation-on-a-connection:reply-undeliverable", "first-presentation-on-a-connection:client-hung-up"}[op.N%3])
		case "newDuringCleanup":
			// a fresh genuine packet, not presented now: it will be presented for the first time while the next
			// clean-up is running; later "again" ops replay it
			first, tr, err := c08Capture(pub, op.WS, op.Sig, 0)
			if err != nil {
				return res, fmt.Errorf("harness: %v", err)
			}
			p := &c08Packet{first: first, transport: tr, created: time.Now(), ws: op.WS}
			pkts = append(pkts, p)
			idx := len(pkts) - 1
			f := func() {
				_, _, err := AuthFirstPacket(append([]byte(nil), p.first...), p.transport, sta)
				duringCh <- duringRes{idx, err}
			}
			armed.Store(&f)
		}
	}
	return res, nil
}

func calledFromCleaner() bool {
	pcs := make([]uintptr, 16)
	n := runtime.Callers(2, pcs)
	frames := runtime.CallersFrames(pcs[:n])
	for {
		f, more := frames.Next()
		if strings.Contains(f.Function, "UsedRandomCleaner") {
			return true
		}
		if !more {
			return false
		}
	}
}

func floodClass(n int) int {
	for _, c := range []int{1000000, 100000, 10000, 1000} {
		if n >= c {
			return c
		}
	}
	return 1
}

func c08Gen(rt *rapid.T) c08Scenario {
	var sc c08Scenario
	n := rapid.IntRange(2, 30).Draw(rt, "nops")
	sc.Ops = append(sc.Ops, c08Op{K: "new", Sig: "firefox"})
	// optionally start close to a clean-up
	if rapid.Bool().Draw(rt, "nearCleanup") {
		k := rapid.IntRange(1, 3).Draw(rt, "k12")
		sc.Ops = []c08Op{{K: "advance", Ms: int64(k)*12*3600*1000 - int64(rapid.IntRange(1, 350).Draw(rt, "before"))*1000}, {K: "new", Sig: "firefox", WS: rapid.IntRange(0, 4).Draw(rt, "ws0") == 0,
			Skew: rapid.SampledFrom([]int64{0, 178000, 170000, 90000, -90000}).Draw(rt, "skew0")}}
	}
	if rapid.IntRange(0, 7).Draw(rt, "early") == 0 {
		// a packet stamped by a client clock several minutes ahead is presented before its window opens, then twice
		// more when the server clock has caught up with it
		sk := rapid.SampledFrom([]int64{200000, 300000, 500000}).Draw(rt, "earlyskew")
		sc.Ops = []c08Op{{K: "new", Sig: "firefox"}, {K: "new", Sig: "chrome", Skew: sk, WS: rapid.IntRange(0, 3).Draw(rt, "ews") == 0},
			{K: "advance", Ms: sk + int64(rapid.IntRange(-150, 150).Draw(rt, "eadv"))*1000}, {K: "again", I: 1}, {K: "advance", Ms: 2000}, {K: "again", I: 1}}
	}
	if rapid.IntRange(0, 3).Draw(rt, "during") == 0 {
		// a handshake that arrives while a clean-up is in progress, replayed shortly afterwards
		k := rapid.IntRange(1, 2).Draw(rt, "dk12")
		sc.Ops = []c08Op{{K: "new", Sig: "firefox"}, {K: "advance", Ms: int64(k)*12*3600*1000 - int64(rapid.IntRange(1, 100).Draw(rt, "dbefore"))*1000 - 1000},
			{K: "new", Sig: "safari"}, {K: "newDuringCleanup", Sig: "firefox", WS: rapid.IntRange(0, 4).Draw(rt, "dws") == 0},
			{K: "advance", Ms: int64(rapid.IntRange(101, 150).Draw(rt, "dadv")) * 1000}, {K: "again", I: 2}}
	}
	if rapid.IntRange(0, 5).Draw(rt, "viaserver") == 0 {
		// a handshake handled by the connection handler (answered, or not answerable), replayed soon afterwards
		sc.Ops = []c08Op{{K: "new", Sig: "firefox"}, {K: "newViaServer", Sig: rapid.SampledFrom([]string{"firefox", "safari", "chrome"}).Draw(rt, "vsig"), WS: rapid.IntRange(0, 3).Draw(rt, "vws") == 0, N: rapid.IntRange(0, 2).Draw(rt, "vfault")},
			{K: "advance", Ms: int64(rapid.IntRange(1, 170).Draw(rt, "vadv")) * 1000}, {K: "again", I: 1}}
	}
	for i := 0; i < n; i++ {
		k := rapid.IntRange(0, 99).Draw(rt, "kind")
		switch {
		case k < 3:
			sc.Ops = append(sc.Ops, c08Op{K: "newViaServer", WS: rapid.IntRange(0, 4).Draw(rt, "ws") == 0, Sig: rapid.SampledFrom([]string{"firefox", "safari", "chrome"}).Draw(rt, "sig"), N: rapid.IntRange(0, 2).Draw(rt, "fault")})
		case k < 12:
			sc.Ops = append(sc.Ops, c08Op{K: "new", WS: rapid.IntRange(0, 4).Draw(rt, "ws") == 0, Sig: rapid.SampledFrom([]string{"firefox", "safari", "chrome"}).Draw(rt, "sig"),
				Skew: rapid.SampledFrom([]int64{0, 0, 178000, -178000, 90000, -90000, 170000}).Draw(rt, "skew")})
		case k < 40:
			sc.Ops = append(sc.Ops, c08Op{K: "again", I: rapid.IntRange(0, 20).Draw(rt, "i")})
		case k < 60:
			sc.Ops = append(sc.Ops, c08Op{K: "variant", I: rapid.IntRange(0, 20).Draw(rt, "i"), Kind: rapid.SampledFrom([]string{"bit255", "bit255", "ciphersuite", "sni", "rewrap", "rewrap", "garble", "garble"}).Draw(rt, "vk")})
		case k == 68:
			sc.Ops = append(sc.Ops, c08Op{K: "flood", N: rapid.SampledFrom([]int{50, 3000, 40000, 70000, 140000, 300000}).Draw(rt, "flood")})
		case k < 68:
			sc.Ops = append(sc.Ops, c08Op{K: "concurrent", I: rapid.IntRange(0, 20).Draw(rt, "i"), N: rapid.IntRange(0, 14).Draw(rt, "n")})
		default:
			ms := rapid.OneOf(
				rapid.Int64Range(1000, 179000),
				rapid.SampledFrom([]int64{1000, 5000, 10000, 60000, 170000, 181000, 359000, 361000, 3600000, 12 * 3600000}),
			).Draw(rt, "ms")
			sc.Ops = append(sc.Ops, c08Op{K: "advance", Ms: ms})
		}
	}
	return sc
}

func TestVerif_C08_Replay(t *testing.T) {
	vk.Run(t, "C08", "Replay", c08Gen, c08Run(t))
}

// ---- concurrency stress: N simultaneous presentations of one genuine packet, real goroutines on all cores ----

type c08Stress struct {
	Packets    int
	Goroutines int
}

func TestVerif_C08_Concurrent(t *testing.T) {
	vk.Run(t, "C08", "Concurrent", func(rt *rapid.T) c08Stress {
		return c08Stress{Packets: rapid.IntRange(20, 60).Draw(rt, "packets"), Goroutines: rapid.SampledFrom([]int{2, 16, 32, 64}).Draw(rt, "g")}
	}, func(sc c08Stress) (vk.Result, error) {
		res := vk.Result{NonTrivial: true}
		pv, pub := vStaticKeys()
		var pkts [][]byte
		var cerr error
		var base time.Time
		berr := vk.Bubble(t, func() {
			base = time.Now()
			for i := 0; i < sc.Packets; i++ {
				first, _, err := c08Capture(pub, false, "firefox", 0)
				if err != nil {
					cerr = err
					return
				}
				pkts = append(pkts, first)
			}
		})
		if berr != nil || cerr != nil {
			return res, fmt.Errorf("harness: capture: %v %v", berr, cerr)
		}
		sta := vState(&State{StaticPv: &pv, UsedRandom: map[[32]byte]int64{}, WorldState: common.WorldState{Rand: rand.Reader, Now: func() time.Time { return base }}})
		for i, p := range pkts {
			var wg sync.WaitGroup
			var ok int32
			start := make(chan struct{})
			for g := 0; g < sc.Goroutines; g++ {
				wg.Add(1)
				go func() {
					defer wg.Done()
					data := append([]byte(nil), p...)
					<-start
					if _, _, err := AuthFirstPacket(data, TLS{}, sta); err == nil {
						atomic.AddInt32(&ok, 1)
					}
				}()
			}
			close(start)
			wg.Wait()
			if ok > 1 {
				return res, vk.ViolateSig("replay-concurrent", "%d simultaneous presentations of genuine packet #%d: %d were accepted", sc.Goroutines, i, ok)
			}
			if ok == 0 {
				return res, vk.Violatef("a genuine fresh packet was accepted by none of %d simultaneous presentations", sc.Goroutines)
			}
		}
		res.Count = int64(sc.Packets)
		return res, nil
	})
}

// ---- the test-and-set of the replay gate, through the schedule point registerRandom.betweenTestAndSet ----

func TestVerif_C08_TestAndSet(t *testing.T) {
	vk.Run(t, "C08", "TestAndSet", func(rt *rapid.T) c08Stress {
		return c08Stress{Packets: 1, Goroutines: rapid.IntRange(1, 6).Draw(rt, "others")}
	}, func(sc c08Stress) (vk.Result, error) {
		res := vk.Result{NonTrivial: true}
		pv, pub := vStaticKeys()
		var pkt []byte
		var cerr error
		var base time.Time
		berr := vk.Bubble(t, func() {
			base = time.Now()
			pkt, _, cerr = c08Capture(pub, false, "safari", 0)
		})
		if berr != nil || cerr != nil {
			return res, fmt.Errorf("harness: capture: %v %v", berr, cerr)
		}
		sta := vState(&State{StaticPv: &pv, UsedRandom: map[[32]byte]int64{}, WorldState: common.WorldState{Rand: rand.Reader, Now: func() time.Time { return base }}})
		h := vArm("registerRandom.betweenTestAndSet")
		defer h.Release()
		var ok int32
		var wg sync.WaitGroup
		present := func() {
			defer wg.Done()
			if _, _, err := AuthFirstPacket(append([]byte(nil), pkt...), TLS{}, sta); err == nil {
				atomic.AddInt32(&ok, 1)
			}
		}
		wg.Add(1)
		go present() // A: parked between looking the random up and recording it
		select {
		case <-h.Reached:
		case <-time.After(20 * time.Second):
			return res, fmt.Errorf("harness: schedule point registerRandom.betweenTestAndSet not reached")
		}
		// others present the same packet while A is parked. With an atomic test-and-set they wait for A;
		// give them time to finish if they are (wrongly) able to. The verdict below does not depend on this wait.
		for g := 0; g < sc.Goroutines; g++ {
			wg.Add(1)
			go present()
		}
		time.Sleep(30 * time.Millisecond)
		h.Release()
		wg.Wait()
		if ok > 1 {
			return res, vk.ViolateSig("replay-concurrent", "%d presentations of one packet overlapped inside the replay gate and %d were accepted", sc.Goroutines+1, ok)
		}
		if ok == 0 {
			return res, vk.Violatef("a genuine fresh packet was accepted by nobody")
		}
		return res, nil
	})
}
