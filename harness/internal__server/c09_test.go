package server

import (
	"bytes"
	"crypto/rand"
	"encoding/base64"
	"encoding/binary"
	"fmt"
	"net"
	"os"
	"path/filepath"
	"sync"
	"sync/atomic"
	"testing"
	"testing/synctest"
	"time"

	"github.com/cbeuw/Cloak/internal/common"
	"github.com/cbeuw/Cloak/internal/server/usermanager"
	vk "github.com/cbeuw/Cloak/internal/verifkit"
	"pgregory.net/rapid"
)

// C09 - unauthenticated peers see only the redirect target, byte for byte; the server never emits a byte of its
// own to them and no input crashes or wedges it.

type c09Seg struct {
	Hex     string // bytes of this segment, base64
	DelayMs int    // virtual delay before the segment is written
}

type c09Case struct {
	Class       string
	Segs        []c09Seg
	PeerCloseMs int      // >0: peer closes that long after its last segment; 0: stays open
	Reply       []c09Seg // what the redirect target writes
	TargetClose int      // ms after its last reply chunk at which the target closes; 0 = stays open
	ReplayFirst bool     // present the (valid) packet once before, so that this presentation is a replay
	NoRedirPort bool     // RedirAddr configured without a port: the port the peer connected to is used
	// the server listens on several ports: the peer connected to Port (0 = 443); before it, another unauthenticated
	// visitor was relayed who had connected to EarlierPort (0 = nobody)
	Port        int `json:",omitempty"`
	EarlierPort int `json:",omitempty"`
	// hello-unserved-method: the name the (otherwise valid) handshake asks for; WS: over the CDN transport
	Method string `json:",omitempty"`
	WS     bool   `json:",omitempty"`
	// hello-early-replayed: a genuine handshake of an authorised user whose clock is that far ahead is presented before
	// its window opens (and relayed); the same bytes come again when the server clock has caught up: a hello the server
	// has seen before is not fresh, whoever sends it now - relayed again
	EarlySkewMs int64 `json:",omitempty"`
}

func unb64(s string) []byte {
	b, _ := base64.StdEncoding.DecodeString(s)
	return b
}

func c09Inner(c c09Case) (vk.Result, error) {
	res := vk.Result{Labels: []string{"class=" + c.Class}}
	dir := c18TmpDir()
	defer os.RemoveAll(dir)
	mgr, err := usermanager.MakeLocalManager(filepath.Join(dir, "userinfo.db"), commonWorldNow())
	if err != nil {
		return res, fmt.Errorf("harness: %v", err)
	}
	defer mgr.Close()
	srv := newVSrv(vSrvOpts{Manager: mgr, Admin: c07AdminUID, Bypass: [][]byte{[]byte("c08-bypass-user!")}, Methods: []string{"shadowsocks"}, AutoNet: true, Tap: true, NoRedirP: c.NoRedirPort})
	defer srv.stop()
	srv.serve()
	var mu sync.Mutex
	var targetGot []byte
	var targetSent []byte
	targetConns := 0
	targetClosedAt := time.Time{}
	var warmup atomic.Bool
	go func() {
		for {
			tc, err := srv.redirLn.Accept()
			if err != nil {
				return
			}
			if warmup.Load() {
				tc.Close()
				continue
			}
			mu.Lock()
			targetConns++
			mu.Unlock()
			go func(tc net.Conn) {
				buf := make([]byte, 8192)
				for {
					n, err := tc.Read(buf)
					mu.Lock()
					targetGot = append(targetGot, buf[:n]...)
					mu.Unlock()
					if err != nil {
						return
					}
				}
			}(tc)
			go func(tc net.Conn) {
				for _, r := range c.Reply {
					time.Sleep(time.Duration(r.DelayMs) * time.Millisecond)
					b := unb64(r.Hex)
					if _, err := tc.Write(b); err != nil {
						return
					}
					mu.Lock()
					targetSent = append(targetSent, b...)
					mu.Unlock()
				}
				if c.TargetClose > 0 {
					time.Sleep(time.Duration(c.TargetClose) * time.Millisecond)
					mu.Lock()
					targetClosedAt = time.Now()
					mu.Unlock()
					tc.Close()
				}
			}(tc)
		}
	}()

	var P []byte
	for _, s := range c.Segs {
		P = append(P, unb64(s.Hex)...)
	}
	// cases whose first packet is (still) a genuine fresh handshake of an authorised user are outside the
	// property's domain (they must be answered, see C06/C07): excluded, counted
	if n, ok := vk.FirstPacketEnd(P); ok && !c.ReplayFirst && !c09Credentialed(c.Class) && (P[0] == 0x16 || P[0] == 0x47) {
		var tr Transport = TLS{}
		if P[0] == 0x47 {
			tr = WebSocket{}
		}
		if _, _, aerr := AuthFirstPacket(append([]byte(nil), P[:n]...), tr, c07FreshState(time.Now())); aerr == nil {
			res.Labels = append(res.Labels, "excluded:still-a-valid-handshake")
			return res, nil
		}
	}
	if c.ReplayFirst {
		// the same first packet is presented once and accepted (it is genuine); the case itself is then a replay
		if c.EarlySkewMs > 0 {
			warmup.Store(true) // this first presentation is relayed too (timestamp ahead of the window); not the subject here
		}
		d := srv.dialer()
		conn, _ := d.Dial("tcp", "x")
		conn.Write(P)
		synctest.Wait()
		conn.Close()
		synctest.Wait()
		if c.EarlySkewMs > 0 {
			time.Sleep(time.Duration(c.EarlySkewMs)*time.Millisecond - 10*time.Second)
			warmup.Store(false)
			res.Labels = append(res.Labels, "presented-before-its-window-then-again-inside-it")
		}
	}
	if c.EarlierPort != 0 {
		warmup.Store(true)
		d := srv.dialer()
		d.ServerPort = c.EarlierPort
		conn, _ := d.Dial("tcp", "x")
		conn.Write([]byte("GET / HTTP/1.0\r\n\r\n"))
		time.Sleep(time.Second)
		conn.Close()
		time.Sleep(time.Second)
		warmup.Store(false)
		res.Labels = append(res.Labels, "earlier-visitor-on-another-port")
	}
	// the peer
	d := srv.dialer()
	d.ServerPort = c.Port
	pc, _ := d.Dial("tcp", "x")
	start := time.Now()
	var peerGot []byte
	var peerReadErr error
	peerDone := make(chan struct{})
	go func() {
		defer close(peerDone)
		buf := make([]byte, 8192)
		for {
			n, err := pc.Read(buf)
			mu.Lock()
			peerGot = append(peerGot, buf[:n]...)
			mu.Unlock()
			if err != nil {
				peerReadErr = err
				return
			}
		}
	}()
	// model of the first-packet reader while the peer writes
	completeAt := time.Duration(-1)
	consumed := 0
	var sentSoFar []byte
	var peerClosedAt time.Duration = -1
	for _, s := range c.Segs {
		time.Sleep(time.Duration(s.DelayMs) * time.Millisecond)
		b := unb64(s.Hex)
		pc.Write(b)
		sentSoFar = append(sentSoFar, b...)
		if completeAt < 0 {
			if n, ok := vk.FirstPacketEnd(sentSoFar); ok {
				completeAt = time.Since(start)
				consumed = n
			}
		}
	}
	if c.PeerCloseMs > 0 {
		time.Sleep(time.Duration(c.PeerCloseMs) * time.Millisecond)
		peerClosedAt = time.Since(start)
		pc.Close()
	}
	_ = consumed
	// let everything settle (relay, deadline, target script)
	time.Sleep(90 * time.Second)
	mu.Lock()
	tg := append([]byte(nil), targetGot...)
	ts := append([]byte(nil), targetSent...)
	pg := append([]byte(nil), peerGot...)
	tconns := targetConns
	tClosed := !targetClosedAt.IsZero()
	mu.Unlock()

	// ---- oracle ----
	// (1) the peer never receives a byte the target did not send
	if !bytes.HasPrefix(ts, pg) {
		return res, vk.ViolateSig("server-emits-bytes", "the peer received %d bytes that are not a prefix of what the redirect target sent (%d bytes): the server emitted bytes of its own or altered the reply", len(pg), len(ts))
	}
	timely := completeAt >= 0 && completeAt < 15*time.Second
	if timely {
		res.NonTrivial = len(P) > 0 && (P[0] == 0x16 || P[0] == 0x47)
		// (2) complete first packet that is not a valid fresh handshake: relayed byte for byte
		if tconns != 1 {
			return res, vk.ViolateSig("not-redirected", "a peer whose first packet (%s, %d bytes) completed after %v was not relayed to the redirect target (target connections: %d)", c.Class, len(P), completeAt, tconns)
		}
		// relayed to the configured redirect target (its configured port, or the port the peer connected to)
		wantPort := 443
		if c.NoRedirPort && c.Port != 0 {
			wantPort = c.Port
		}
		req := srv.sta.RedirDialer.(*vk.Dialer).Requested()
		if len(req) == 0 || req[len(req)-1] != fmt.Sprintf("tcp 10.9.9.9:%d", wantPort) {
			return res, vk.ViolateSig("redirect-address", "unauthenticated peer that connected to port %d relayed to %q, the redirect target is 10.9.9.9 port %d (configured without a port: %v)", c.Port, req, wantPort, c.NoRedirPort)
		}
		if !bytes.HasPrefix(P, tg) {
			return res, vk.ViolateSig("relay-altered", "the redirect target received %d bytes that are not a prefix of the peer's stream (first difference at %d)", len(tg), firstDiffB(tg, P))
		}
		// everything, unless the target hung up first or the peer closed before the relay read it all (never: bytes written before close stay readable)
		if !tClosed && len(tg) != len(P) {
			return res, vk.ViolateSig("relay-truncated", "the redirect target received %d of the peer's %d bytes although it never closed the connection", len(tg), len(P))
		}
		// the peer receives everything the target sent, unless the peer closed first
		if peerClosedAt < 0 && len(pg) != len(ts) {
			return res, vk.ViolateSig("reply-truncated", "the peer received %d of the %d bytes the redirect target sent although it kept the connection open", len(pg), len(ts))
		}
		if c.PeerCloseMs > 0 || tClosed {
			res.Labels = append(res.Labels, "one-side-closed")
		} else {
			res.Labels = append(res.Labels, "both-stay-open")
		}
		res.Labels = append(res.Labels, "first-packet-complete-in-time")
	} else {
		// (3) never completed in time (stalled past the 15 s deadline or closed early): nothing may reach the target
		stalled := completeAt < 0 || completeAt > 15*time.Second
		if stalled {
			if len(tg) != 0 {
				return res, vk.ViolateSig("early-relay", "the first packet never completed within the deadline but the redirect target received %d bytes", len(tg))
			}
			if peerReadErr == nil && peerClosedAt < 0 {
				select {
				case <-peerDone:
				default:
					return res, vk.ViolateSig("peer-not-closed", "a peer that never completed its first packet was neither closed nor redirected after the deadline")
				}
			}
			res.Labels = append(res.Labels, "incomplete-first-packet")
		}
	}
	pc.Close()
	// (4) the server still works: a fresh valid client completes a handshake on the same state
	cfg := vClientCfg{UID: vUIDb64([]byte("c08-bypass-user!")), Method: "shadowsocks", Enc: "plain", NumConn: 1, Browser: "firefox", Transport: "direct", ServerName: "www.example.com"}
	_, remote, auth, err := vMustProcess(cfg, srv.pub, time.Now)
	if err != nil {
		return res, fmt.Errorf("harness: %v", err)
	}
	auth.SessionId = 4242
	tr := remote.Transport.CreateTransport()
	conn, _ := srv.dialer().Dial("tcp", "x")
	hch := make(chan error, 1)
	go func() {
		_, err := tr.Handshake(conn, auth)
		hch <- err
	}()
	synctest.Wait()
	select {
	case herr := <-hch:
		if herr != nil {
			return res, vk.ViolateSig("server-wedged", "after the hostile peer a fresh valid client cannot complete a handshake: %v", herr)
		}
	default:
		return res, vk.ViolateSig("server-wedged", "after the hostile peer a fresh valid client's handshake does not complete")
	}
	conn.Close()
	return res, nil
}

func firstDiffB(a, b []byte) int {
	for i := 0; i < len(a) && i < len(b); i++ {
		if a[i] != b[i] {
			return i
		}
	}
	if len(a) < len(b) {
		return len(a)
	}
	return len(b)
}

// c09Stream builds the peer's byte stream for a class.
func c09Stream(rt *rapid.T, class string, bases []*c07Base) []byte {
	rnd := func(n int, label string) []byte { return rapid.SliceOfN(rapid.Byte(), n, n).Draw(rt, label) }
	switch class {
	case "random":
		n := rapid.OneOf(rapid.IntRange(1, 64), rapid.IntRange(1, 5000)).Draw(rt, "n")
		b := rnd(n, "bytes")
		b[0] = rapid.Byte().Draw(rt, "first")
		if b[0] == 0x16 || b[0] == 0x47 {
			b[0] = 0x17
		}
		return b
	case "tls-length":
		l := rapid.SampledFrom([]int{0, 1, 100, 2994, 2995, 2996, 3000, 16384, 65535}).Draw(rt, "declared")
		body := rapid.SampledFrom([]int{l, l, l + 7, 0, l / 2}).Draw(rt, "bodylen")
		if body > 70000 {
			body = 70000
		}
		b := append([]byte{0x16, 3, 1, byte(l >> 8), byte(l)}, rnd(body, "body")...)
		if rapid.Bool().Draw(rt, "hs") && len(b) > 9 {
			b[5] = 1
			binary.BigEndian.PutUint16(b[7:9], uint16(l-4))
			b[6] = 0
		}
		return b
	case "hello-mutated", "hello-ext-mutated", "hello-wrongkey", "hello-truncated", "hello-stale", "hello-replayed":
		base := bases[rapid.IntRange(0, 2).Draw(rt, "base")]
		b := append([]byte(nil), base.first...)
		switch class {
		case "hello-mutated":
			p := rapid.SampledFrom([]int{11, 30, 44, 60, 75}).Draw(rt, "mpos") // inside random / session id
			b[p] ^= rapid.ByteRange(1, 255).Draw(rt, "mmask")
		case "hello-ext-mutated":
			// structural damage: length fields / extension bodies after the session id
			n := rapid.IntRange(1, 4).Draw(rt, "nmut")
			for i := 0; i < n; i++ {
				p := rapid.IntRange(76, len(b)-1).Draw(rt, "epos")
				b[p] = rapid.SampledFrom([]byte{0, 1, 0x1d, 0x20, 0x33, 0x7f, 0xff, b[p] ^ 1, b[p] ^ 0x80}).Draw(rt, "eval")
			}
		case "hello-truncated":
			cut := rapid.IntRange(1, len(b)-1).Draw(rt, "cut")
			b = b[:cut]
		case "hello-stale":
			// genuine but captured "long ago": the case advances the clock (see generator)
		}
		if rapid.Bool().Draw(rt, "trail") {
			b = append(b, rnd(rapid.IntRange(1, 500).Draw(rt, "ntrail"), "trail")...)
		}
		return b
	case "http":
		var sb bytes.Buffer
		sb.WriteString(rapid.SampledFrom([]string{"GET / HTTP/1.1\r\n", "GET /ws HTTP/1.1\r\n", "GARBAGE\r\n", "G\r\n"}).Draw(rt, "reqline"))
		nh := rapid.IntRange(0, 6).Draw(rt, "nh")
		for i := 0; i < nh; i++ {
			k := rapid.SampledFrom([]string{"Host", "Upgrade", "Connection", "hidden", "Hidden", "X-Long", "Sec-WebSocket-Key"}).Draw(rt, "hk")
			var v string
			switch k {
			case "hidden", "Hidden":
				v = rapid.SampledFrom([]string{"", "AAAA", b64(rnd(96, "h96")), b64(rnd(95, "h95")), b64(rnd(200, "h200")), "!!notbase64!!"}).Draw(rt, "hv")
			case "X-Long":
				v = string(bytes.Repeat([]byte{'a'}, rapid.SampledFrom([]int{10, 1000, 2900, 2990, 3100}).Draw(rt, "long")))
			default:
				v = rapid.SampledFrom([]string{"example.com", "websocket", "Upgrade", "x"}).Draw(rt, "v")
			}
			sb.WriteString(k + ": " + v + "\r\n")
		}
		if rapid.IntRange(0, 4).Draw(rt, "blank") > 0 {
			sb.WriteString("\r\n")
		}
		if rapid.Bool().Draw(rt, "body") {
			sb.Write(rnd(rapid.IntRange(1, 300).Draw(rt, "nbody"), "bodyb"))
		}
		return sb.Bytes()
	case "http-nonewline":
		n := rapid.SampledFrom([]int{10, 2998, 2999, 3000, 3001, 5000}).Draw(rt, "n")
		return append([]byte("G"), bytes.Repeat([]byte{'x'}, n-1)...)
	}
	return []byte{0}
}

func commonWorldNow() common.WorldState {
	return common.WorldState{Rand: rand.Reader, Now: time.Now}
}

// c09Credentialed: classes whose first packet is a genuine, fresh, correctly sealed handshake that must nevertheless
// not be answered: it names a proxy method the server does not serve, or a UID it does not authorise.
func c09Credentialed(class string) bool {
	return class == "hello-unserved-method" || class == "hello-unknown-uid"
}

func c09Gen(t *testing.T) func(rt *rapid.T) c09Case {
	return func(rt *rapid.T) c09Case {
		bases := c07GetBases(t)
		c := c09Case{Class: rapid.SampledFrom([]string{"random", "tls-length", "hello-mutated", "hello-ext-mutated", "hello-ext-mutated", "hello-wrongkey", "hello-truncated", "hello-replayed", "hello-early-replayed", "hello-unserved-method", "hello-unknown-uid", "http", "http", "http-nonewline"}).Draw(rt, "class")}
		if c.Class == "hello-early-replayed" {
			c.EarlySkewMs = rapid.SampledFrom([]int64{200000, 300000, 500000}).Draw(rt, "earlyskew")
			c.WS = rapid.IntRange(0, 3).Draw(rt, "earlyws") == 0
		}
		var P []byte
		if c.Class == "hello-unserved-method" {
			c.Method = rapid.SampledFrom([]string{"tor", "Shadowsocks", "SHADOWSOCKS", "shadowsock", "shadowsocks2"}).Draw(rt, "unserved")
			c.WS = rapid.IntRange(0, 3).Draw(rt, "ws") == 0
		}
		if c.Class == "hello-wrongkey" || c.Class == "hello-replayed" || c.Class == "hello-early-replayed" || c09Credentialed(c.Class) {
			// produced inside the case (needs the bubble clock): marker stream, replaced by the runner
			P = nil
		} else {
			P = c09Stream(rt, c.Class, bases)
		}
		// segmentation
		cuts := rapid.IntRange(0, 5).Draw(rt, "ncuts")
		rest := P
		for i := 0; i < cuts && len(rest) > 1; i++ {
			k := rapid.OneOf(rapid.IntRange(1, 6), rapid.IntRange(1, len(rest)-1)).Draw(rt, "cut")
			if k >= len(rest) {
				k = len(rest) - 1
			}
			c.Segs = append(c.Segs, c09Seg{Hex: b64(rest[:k]), DelayMs: rapid.SampledFrom([]int{0, 0, 1, 200, 3000, 14000, 16000}).Draw(rt, "delay")})
			rest = rest[k:]
		}
		c.Segs = append(c.Segs, c09Seg{Hex: b64(rest), DelayMs: rapid.SampledFrom([]int{0, 0, 5, 2000}).Draw(rt, "lastdelay")})
		c.PeerCloseMs = rapid.SampledFrom([]int{0, 0, 1, 500, 20000, 40000}).Draw(rt, "peerclose")
		nr := rapid.IntRange(0, 4).Draw(rt, "nreply")
		for i := 0; i < nr; i++ {
			c.Reply = append(c.Reply, c09Seg{Hex: b64(rapid.SliceOfN(rapid.Byte(), 1, 3000).Draw(rt, "reply")), DelayMs: rapid.SampledFrom([]int{0, 1, 100, 5000}).Draw(rt, "rdelay")})
		}
		c.TargetClose = rapid.SampledFrom([]int{0, 0, 0, 1, 1000, 60000}).Draw(rt, "tclose")
		c.NoRedirPort = rapid.Bool().Draw(rt, "noredirport")
		c.Port = rapid.SampledFrom([]int{0, 0, 443, 80, 8443}).Draw(rt, "port")
		c.EarlierPort = rapid.SampledFrom([]int{0, 0, 443, 80, 2053}).Draw(rt, "earlierport")
		return c
	}
}

func c09Run(t *testing.T) func(c c09Case) (vk.Result, error) {
	return func(c c09Case) (vk.Result, error) {
		var res vk.Result
		var verr error
		berr := vk.Bubble(t, func() {
			res, verr = vk.Protect(func() (vk.Result, error) {
				if c.Class == "hello-wrongkey" || c.Class == "hello-replayed" || c.Class == "hello-early-replayed" || c09Credentialed(c.Class) {
					// build the genuine-looking hello inside the bubble so that its timestamp is current
					pub := vStaticPub
					if c.Class == "hello-wrongkey" {
						var other [32]byte
						rand.Read(other[:])
						pub = other // not a point derived from the server's key: decryption must fail
					}
					switch c.Class {
					case "hello-unserved-method":
						c08CaptureMethod = c.Method
					case "hello-unknown-uid":
						c08CaptureUID = "c09-nobody-knows"
					}
					skew := time.Duration(0)
					if c.Class == "hello-early-replayed" {
						skew = time.Duration(c.EarlySkewMs) * time.Millisecond
					}
					first, _, err := c08Capture(pub, c.WS, "firefox", skew)
					c08CaptureUID, c08CaptureMethod = "c08-bypass-user!", "shadowsocks"
					if err != nil {
						return vk.Result{}, fmt.Errorf("harness: %v", err)
					}
					c.ReplayFirst = c.Class == "hello-replayed" || c.Class == "hello-early-replayed"
					// keep the generated segmentation pattern: re-cut the real packet at the same number of places
					n := len(c.Segs)
					segs := make([]c09Seg, 0, n)
					rest := first
					for i := 0; i < n-1 && len(rest) > 1; i++ {
						k := 1 + (i*131+7)%(len(rest)-1)
						segs = append(segs, c09Seg{Hex: b64(rest[:k]), DelayMs: c.Segs[i].DelayMs})
						rest = rest[k:]
					}
					segs = append(segs, c09Seg{Hex: b64(rest), DelayMs: c.Segs[n-1].DelayMs})
					c.Segs = segs
				}
				return c09Inner(c)
			})
		})
		if verr == nil && berr != nil {
			verr = vk.Violatef("server goroutines left blocked or crashed after a hostile peer: %v", berr)
		}
		return res, verr
	}
}

func TestVerif_C09_Redirect(t *testing.T) {
	vk.Run(t, "C09", "Redirect", c09Gen(t), c09Run(t))
}

// ---- corpus dump (run manually with VERIF_DUMP_CORPUS=<dir>) and native fuzz target for the first-packet path ----

func TestVerif_C09_DumpCorpus(t *testing.T) {
	dir := os.Getenv("VERIF_DUMP_CORPUS")
	if dir == "" {
		t.Skip("not requested")
	}
	os.MkdirAll(dir, 0o755)
	for i, b := range c07GetBases(t) {
		os.WriteFile(filepath.Join(dir, fmt.Sprintf("hello-%d-%s.bin", i, b.name)), b.first, 0o644)
	}
}

func FuzzVerifFirstPacket(f *testing.F) {
	f.Add([]byte{0x16, 3, 1, 0, 0})
	f.Add([]byte{0x16, 3, 1, 0xff, 0xff, 1})
	f.Add([]byte{0x16, 3, 1, 0x0b, 0xb3})
	f.Add([]byte{0x16, 3, 1, 0x0b, 0xb4})
	f.Add([]byte("GET / HTTP/1.1\r\nHost: a\r\nhidden: AAAA\r\n\r\n"))
	f.Add([]byte("GET / HTTP/1.1\r\n\r\n"))
	f.Add(append([]byte("G"), bytes.Repeat([]byte("x"), 3100)...))
	f.Add([]byte{0x17, 1, 2, 3})
	if dir := os.Getenv("VERIF_CORPUS"); dir != "" {
		files, _ := filepath.Glob(filepath.Join(dir, "C09", "*"))
		for _, fn := range files {
			if b, err := os.ReadFile(fn); err == nil {
				f.Add(b)
			}
		}
	}
	pv, _ := vStaticKeys()
	f.Fuzz(func(t *testing.T, data []byte) {
		if len(data) == 0 || len(data) > 70000 {
			return
		}
		wantN, complete := vk.FirstPacketEnd(data)
		l := vk.NewLink(0, false)
		l.SetAuto(vk.AtoB, true)
		l.A.Write(data)
		if !complete {
			l.A.Close() // the reader must give up with an error instead of waiting
		}
		buf := make([]byte, firstPacketSize)
		n, tr, redir, err := readFirstPacket(l.B, buf, time.Hour)
		if complete {
			if !redir && err != nil {
				t.Fatalf("VERIF-VIOLATION property=C09 sub=fuzz file=- sig=closes-instead-of-redirect: a complete first packet (%d bytes) is answered by closing instead of relaying: %v", wantN, err)
			}
			if n != wantN {
				t.Fatalf("VERIF-VIOLATION property=C09 sub=fuzz file=- sig=prefix-length: first-packet reader consumed %d bytes, the first packet ends after %d: the relay would replay a wrong prefix", n, wantN)
			}
			if !bytes.Equal(buf[:n], data[:n]) {
				t.Fatalf("VERIF-VIOLATION property=C09 sub=fuzz file=- sig=prefix-altered: consumed prefix differs from what the peer sent")
			}
			if err == nil {
				sta := vState(&State{StaticPv: &pv, UsedRandom: map[[32]byte]int64{}, WorldState: commonWorldNow()})
				AuthFirstPacket(buf[:n], tr, sta) // must not panic
			}
		} else if err == nil {
			t.Fatalf("VERIF-VIOLATION property=C09 sub=fuzz file=- sig=incomplete-accepted: an incomplete first packet (%d bytes, then EOF) was accepted", len(data))
		}
		l.A.Close()
		l.B.Close()
	})
}
