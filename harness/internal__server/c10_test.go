package server

import (
	"bytes"
	"fmt"
	"strings"
	"testing"

	vk "github.com/cbeuw/Cloak/internal/verifkit"
)

// C10 - everything on the wire in direct mode is a well-formed TLS record stream: one ClientHello record,
// ServerHello + ChangeCipherSpec + application data in reply, then only application-data records of legal size.

func c10Link(l *vk.Link, serverName string) (dataBoth bool, err error) {
	c2s, s2c := l.Wire(vk.AtoB), l.Wire(vk.BtoA)
	crecs, crest := vk.SplitTLSRecords(c2s)
	if len(crecs) == 0 {
		if len(c2s) == 0 {
			return false, nil // dialled but nothing sent (torn down before the hello)
		}
		return false, vk.Violatef("link %d: client sent %d bytes that do not form a TLS record", l.ID, len(c2s))
	}
	if len(crest) != 0 {
		return false, vk.ViolateSig("partial-record", "link %d: client->server byte stream ends with %d bytes that are not a whole TLS record", l.ID, len(crest))
	}
	first := crecs[0]
	if first.Type != 22 || first.Version != 0x0301 {
		return false, vk.ViolateSig("clienthello-record", "link %d: first client record has type %d version %#04x, want handshake (22) / 0x0301", l.ID, first.Type, first.Version)
	}
	ch, perr := vk.ParseClientHelloHandshake(first.Body)
	if perr != nil {
		return false, vk.ViolateSig("clienthello", "link %d: ClientHello is not structurally valid: %v", l.ID, perr)
	}
	if len(ch.SessionID) != 32 {
		return false, vk.ViolateSig("clienthello", "link %d: ClientHello session id has %d bytes, want 32", l.ID, len(ch.SessionID))
	}
	if ks, ok := ch.KeyShares[29]; !ok || len(ks) != 32 {
		return false, vk.ViolateSig("clienthello", "link %d: ClientHello carries no 32-byte X25519 key share (shares: %d)", l.ID, len(ch.KeyShares))
	}
	if len(ch.SNI) != 1 {
		return false, vk.ViolateSig("clienthello", "link %d: ClientHello carries %d server names, want 1", l.ID, len(ch.SNI))
	}
	if strings.EqualFold(serverName, "random") {
		if !vk.ValidHostname(ch.SNI[0]) || strings.EqualFold(ch.SNI[0], "random") {
			return false, vk.ViolateSig("clienthello", "link %d: randomly generated server name %q is not a valid host name", l.ID, ch.SNI[0])
		}
	} else if ch.SNI[0] != serverName {
		return false, vk.ViolateSig("clienthello", "link %d: ClientHello server name %q, configured %q", l.ID, ch.SNI[0], serverName)
	}
	if len(ch.Random) != 32 {
		return false, vk.Violatef("link %d: ClientHello random missing", l.ID)
	}
	dataC := 0
	for i, rec := range crecs[1:] {
		if rec.Type != 23 || rec.Version != 0x0303 {
			return false, vk.ViolateSig("appdata", "link %d: client record #%d after the hello has type %d version %#04x, want application data (23) / 0x0303", l.ID, i+1, rec.Type, rec.Version)
		}
		if len(rec.Body) == 0 || len(rec.Body) > 1<<14+256 {
			return false, vk.ViolateSig("appdata-length", "link %d: client application-data record #%d has length %d, allowed 1..%d", l.ID, i+1, len(rec.Body), 1<<14+256)
		}
		dataC++
	}
	// server flight
	srecs, srest := vk.SplitTLSRecords(s2c)
	if len(srest) != 0 {
		return false, vk.ViolateSig("partial-record", "link %d: server->client byte stream ends with %d bytes that are not a whole TLS record", l.ID, len(srest))
	}
	if len(srecs) == 0 {
		return false, nil // server never answered (connection torn down early): nothing on the wire to judge
	}
	if len(srecs) < 3 {
		return false, vk.ViolateSig("serverflight", "link %d: server sent %d record(s); the reply must be ServerHello, ChangeCipherSpec and one application-data record", l.ID, len(srecs))
	}
	if srecs[0].Type != 22 || srecs[0].Version != 0x0303 {
		return false, vk.ViolateSig("serverhello", "link %d: first server record has type %d version %#04x, want handshake / 0x0303", l.ID, srecs[0].Type, srecs[0].Version)
	}
	sh, serr := vk.ParseServerHelloHandshake(srecs[0].Body)
	if serr != nil {
		return false, vk.ViolateSig("serverhello", "link %d: ServerHello is not structurally valid: %v", l.ID, serr)
	}
	if !bytes.Equal(sh.SessionID, ch.SessionID) {
		return false, vk.ViolateSig("serverhello", "link %d: ServerHello does not echo the ClientHello's session id", l.ID)
	}
	if len(sh.Random) != 32 || sh.LegacyVersion != 0x0303 {
		return false, vk.ViolateSig("serverhello", "link %d: ServerHello legacy version %#04x / random %d bytes", l.ID, sh.LegacyVersion, len(sh.Random))
	}
	if srecs[1].Type != 20 || srecs[1].Version != 0x0303 || !bytes.Equal(srecs[1].Body, []byte{1}) {
		return false, vk.ViolateSig("ccs", "link %d: second server record is not ChangeCipherSpec (type %d version %#04x body %x)", l.ID, srecs[1].Type, srecs[1].Version, srecs[1].Body)
	}
	dataS := 0
	for i, rec := range srecs[2:] {
		if rec.Type != 23 || rec.Version != 0x0303 {
			return false, vk.ViolateSig("appdata", "link %d: server record #%d has type %d version %#04x, want application data (23) / 0x0303", l.ID, i+2, rec.Type, rec.Version)
		}
		if len(rec.Body) == 0 || len(rec.Body) > 1<<14+256 {
			return false, vk.ViolateSig("appdata-length", "link %d: server application-data record #%d has length %d, allowed 1..%d", l.ID, i+2, len(rec.Body), 1<<14+256)
		}
		if i > 0 {
			dataS++
		}
	}
	return dataC > 0 && dataS > 0, nil
}

func TestVerif_C10_Wire(t *testing.T) {
	vk.Run(t, "C10", "Wire", frGen(8, true), frRun(t, func(fr *frResult) (vk.Result, error) {
		res := vk.Result{Labels: []string{"browser=" + fr.sc.Client.Browser, fmt.Sprintf("numconn=%d", fr.sc.Client.NumConn)}}
		both := 0
		for _, l := range fr.cliLinks {
			ok, err := c10Link(l, fr.sc.Client.ServerName)
			if err != nil {
				return res, err
			}
			if ok {
				both++
			}
		}
		res.NonTrivial = both > 0
		res.Count = int64(len(fr.cliLinks))
		if res.Count == 0 {
			res.Count = 1
		}
		vk.AddLabel("C10", "Wire", "connections-with-data-both-ways", int64(both))
		vk.AddLabel("C10", "Wire", "connections-parsed", int64(len(fr.cliLinks)))
		return res, nil
	}))
}
