package server

import (
	"bytes"
	"fmt"
	"strings"
	"testing"
	"testing/synctest"
	"time"

	"github.com/cbeuw/Cloak/internal/client"
	"pgregory.net/rapid"

	vk "github.com/cbeuw/Cloak/internal/verifkit"
)

// C10 - everything on the wire in direct mode is a well-formed TLS record stream: one ClientHello record,
// ServerHello + ChangeCipherSpec + application data in reply, then only application-data records of legal size.

func c10Link(l *vk.Link, serverName string) (dataBoth bool, err error) {
	c2s, s2c := l.Wire(vk.AtoB), l.Wire(vk.BtoA)
	crecs, crest := vk.SplitTLSRecords(c2s)
	if len(crecs) == 0 {
		if len(c2s) == 0 {
			return false, nil // dialled but nothing sent (torn down before the hello)
		}
		return false, vk.Violatef("link %d: client sent %d bytes that do not form a TLS record", l.ID, len(c2s))
	}
	if len(crest) != 0 {
		return false, vk.ViolateSig("partial-record", "link %d: client->server byte stream ends with %d bytes that are not a whole TLS record", l.ID, len(crest))
	}
	first := crecs[0]
	if first.Type != 22 || first.Version != 0x0301 {
		return false, vk.ViolateSig("clienthello-record", "link %d: first client record has type %d version %#04x, want handshake (22) / 0x0301", l.ID, first.Type, first.Version)
	}
	ch, perr := vk.ParseClientHelloHandshake(first.Body)
	if perr != nil {
		return false, vk.ViolateSig("clienthello", "link %d: ClientHello is not structurally valid: %v", l.ID, perr)
	}
	if len(ch.SessionID) != 32 {
		return false, vk.ViolateSig("clienthello", "link %d: ClientHello session id has %d bytes, want 32", l.ID, len(ch.SessionID))
	}
	if ks, ok := ch.KeyShares[29]; !ok || len(ks) != 32 {
		return false, vk.ViolateSig("clienthello", "link %d: ClientHello carries no 32-byte X25519 key share (shares: %d)", l.ID, len(ch.KeyShares))
	}
	if len(ch.SNI) != 1 {
		return false, vk.ViolateSig("clienthello", "link %d: ClientHello carries %d server names, want 1", l.ID, len(ch.SNI))
	}
	if strings.EqualFold(serverName, "random") {
		if !vk.ValidHostname(ch.SNI[0]) || strings.EqualFold(ch.SNI[0], "random") {
			return false, vk.ViolateSig("clienthello", "link %d: randomly generated server name %q is not a valid host name", l.ID, ch.SNI[0])
		}
	} else if ch.SNI[0] != serverName {
		return false, vk.ViolateSig("clienthello", "link %d: ClientHello server name %q, configured %q", l.ID, ch.SNI[0], serverName)
	}
	if len(ch.Random) != 32 {
		return false, vk.Violatef("link %d: ClientHello random missing", l.ID)
	}
	dataC := 0
	for i, rec := range crecs[1:] {
		if rec.Type != 23 || rec.Version != 0x0303 {
			return false, vk.ViolateSig("appdata", "link %d: client record #%d after the hello has type %d version %#04x, want application data (23) / 0x0303", l.ID, i+1, rec.Type, rec.Version)
		}
		if len(rec.Body) == 0 || len(rec.Body) > 1<<14+256 {
			return false, vk.ViolateSig("appdata-length", "link %d: client application-data record #%d has length %d, allowed 1..%d", l.ID, i+1, len(rec.Body), 1<<14+256)
		}
		dataC++
	}
	// server flight
	srecs, srest := vk.SplitTLSRecords(s2c)
	if len(srest) != 0 {
		return false, vk.ViolateSig("partial-record", "link %d: server->client byte stream ends with %d bytes that are not a whole TLS record", l.ID, len(srest))
	}
	if len(srecs) == 0 {
		return false, nil // server never answered (connection torn down early): nothing on the wire to judge
	}
	if len(srecs) < 3 {
		return false, vk.ViolateSig("serverflight", "link %d: server sent %d record(s); the reply must be ServerHello, ChangeCipherSpec and one application-data record", l.ID, len(srecs))
	}
	if srecs[0].Type != 22 || srecs[0].Version != 0x0303 {
		return false, vk.ViolateSig("serverhello", "link %d: first server record has type %d version %#04x, want handshake / 0x0303", l.ID, srecs[0].Type, srecs[0].Version)
	}
	sh, serr := vk.ParseServerHelloHandshake(srecs[0].Body)
	if serr != nil {
		return false, vk.ViolateSig("serverhello", "link %d: ServerHello is not structurally valid: %v", l.ID, serr)
	}
	if !bytes.Equal(sh.SessionID, ch.SessionID) {
		return false, vk.ViolateSig("serverhello", "link %d: ServerHello does not echo the ClientHello's session id", l.ID)
	}
	if len(sh.Random) != 32 || sh.LegacyVersion != 0x0303 {
		return false, vk.ViolateSig("serverhello", "link %d: ServerHello legacy version %#04x / random %d bytes", l.ID, sh.LegacyVersion, len(sh.Random))
	}
	if srecs[1].Type != 20 || srecs[1].Version != 0x0303 || !bytes.Equal(srecs[1].Body, []byte{1}) {
		return false, vk.ViolateSig("ccs", "link %d: second server record is not ChangeCipherSpec (type %d version %#04x body %x)", l.ID, srecs[1].Type, srecs[1].Version, srecs[1].Body)
	}
	dataS := 0
	for i, rec := range srecs[2:] {
		if rec.Type != 23 || rec.Version != 0x0303 {
			return false, vk.ViolateSig("appdata", "link %d: server record #%d has type %d version %#04x, want application data (23) / 0x0303", l.ID, i+2, rec.Type, rec.Version)
		}
		if len(rec.Body) == 0 || len(rec.Body) > 1<<14+256 {
			return false, vk.ViolateSig("appdata-length", "link %d: server application-data record #%d has length %d, allowed 1..%d", l.ID, i+2, len(rec.Body), 1<<14+256)
		}
		if i > 0 {
			dataS++
		}
	}
	return dataC > 0 && dataS > 0, nil
}

func TestVerif_C10_Wire(t *testing.T) {
	vk.Run(t, "C10", "Wire", frGen(8, true), frRun(t, func(fr *frResult) (vk.Result, error) {
		res := vk.Result{Labels: []string{"browser=" + fr.sc.Client.Browser, fmt.Sprintf("numconn=%d", fr.sc.Client.NumConn)}}
		both := 0
		for _, l := range fr.cliLinks {
			ok, err := c10Link(l, fr.sc.Client.ServerName)
			if err != nil {
				return res, err
			}
			if ok {
				both++
			}
		}
		res.NonTrivial = both > 0
		res.Count = int64(len(fr.cliLinks))
		if res.Count == 0 {
			res.Count = 1
		}
		vk.AddLabel("C10", "Wire", "connections-with-data-both-ways", int64(both))
		vk.AddLabel("C10", "Wire", "connections-parsed", int64(len(fr.cliLinks)))
		return res, nil
	}))
}

// ---- unordered (UDP) sessions in direct mode: datagram traffic, including empty datagrams from the proxy target ----

type c10Dgram struct {
	Client vClientCfg
	C2S    []int // datagram sizes sent by the client application on one stream
	S2C    []int // datagram sizes the proxy target sends back (0 = empty datagram)
}

func c10DgramInner(sc c10Dgram) (vk.Result, error) {
	res := vk.Result{}
	raw := sc.Client.raw([32]byte{})
	srv := newVSrv(vSrvOpts{Bypass: [][]byte{raw.UID}, Methods: []string{sc.Client.Method}, AutoNet: true})
	defer srv.stop()
	proxyLn := vk.NewListener()
	defer proxyLn.Close()
	srv.sta.ProxyDialer = &vk.DatagramDialer{Ln: proxyLn}
	srv.serve()
	go func() {
		for {
			pc, err := proxyLn.Accept()
			if err != nil {
				return
			}
			go func() {
				buf := make([]byte, 65536)
				first := true
				for {
					_, err := pc.Read(buf)
					if err != nil {
						return
					}
					if first {
						first = false
						for i, n := range sc.S2C {
							b := make([]byte, n)
							vFill(b, 0xd9, uint64(i))
							if _, err := pc.Write(b); err != nil {
								return
							}
						}
					}
				}
			}()
		}
	}()
	cnet := &vk.Net{Tap: true, Auto: true}
	_, remote, auth, err := vMustProcess(sc.Client, srv.pub, time.Now)
	if err != nil {
		return res, fmt.Errorf("harness: %v", err)
	}
	auth.SessionId = 99
	sesh := client.MakeSession(remote, auth, &vk.Dialer{Net: cnet, Ln: srv.cliLn})
	defer sesh.Close()
	st, err := sesh.OpenStream()
	if err != nil {
		return res, vk.Violatef("OpenStream failed: %v", err)
	}
	go func() {
		buf := make([]byte, 65536)
		for {
			if _, err := st.Read(buf); err != nil {
				return
			}
		}
	}()
	for i, n := range sc.C2S {
		b := make([]byte, n)
		vFill(b, 0xc1, uint64(i))
		st.Write(b)
		synctest.Wait()
	}
	synctest.Wait()
	sesh.Close()
	synctest.Wait()
	both := 0
	for _, l := range cnet.All() {
		ok, err := c10Link(l, sc.Client.ServerName)
		if err != nil {
			return res, err
		}
		if ok {
			both++
		}
	}
	res.NonTrivial = both > 0
	res.Count = int64(len(cnet.All()))
	for _, n := range sc.S2C {
		if n == 0 {
			res.Labels = append(res.Labels, "empty-datagram-from-proxy-target")
			break
		}
	}
	return res, nil
}

func TestVerif_C10_Datagrams(t *testing.T) {
	vk.Run(t, "C10", "Datagrams", func(rt *rapid.T) c10Dgram {
		sc := c10Dgram{Client: vClientCfg{
			UID: vUIDb64(rapid.SliceOfN(rapid.Byte(), 16, 16).Draw(rt, "uid")), Method: "openvpn",
			Enc:     rapid.SampledFrom([]string{"plain", "aes-256-gcm", "aes-128-gcm", "chacha20-poly1305"}).Draw(rt, "enc"),
			NumConn: rapid.IntRange(0, 4).Draw(rt, "numconn"), Browser: frBrowserGen.Draw(rt, "browser"),
			Transport: "direct", ServerName: "www.bing.com", UDP: true}}
		size := rapid.OneOf(rapid.SampledFrom([]int{0, 0, 1, 1200, 16132, 8192}), rapid.IntRange(0, 2000))
		for i, n := 0, rapid.IntRange(1, 6).Draw(rt, "nc2s"); i < n; i++ {
			k := size.Draw(rt, "c2s")
			if k == 0 {
				k = 1 // Stream.Write of nothing sends nothing
			}
			sc.C2S = append(sc.C2S, k)
		}
		for i, n := 0, rapid.IntRange(0, 6).Draw(rt, "ns2c"); i < n; i++ {
			sc.S2C = append(sc.S2C, size.Draw(rt, "s2c"))
		}
		return sc
	}, func(sc c10Dgram) (vk.Result, error) {
		var res vk.Result
		var verr error
		berr := vk.Bubble(t, func() {
			res, verr = vk.Protect(func() (vk.Result, error) { return c10DgramInner(sc) })
		})
		if verr == nil && berr != nil {
			verr = fmt.Errorf("harness: bubble: %v", berr)
		}
		return res, verr
	})
}
