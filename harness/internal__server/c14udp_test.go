package server

import (
	"bytes"
	"encoding/binary"
	"fmt"
	"net"
	"sync"
	"testing"
	"time"

	"github.com/cbeuw/Cloak/internal/client"
	mux "github.com/cbeuw/Cloak/internal/multiplex"
	vk "github.com/cbeuw/Cloak/internal/verifkit"
	"pgregory.net/rapid"
)

// C14 (UDP rig, real time, loopback sockets): proxy clients -> client.RouteUDP -> unordered session ->
// server.serveSession -> UDP proxy server. Checks message boundaries, at-most-once and stream isolation (each
// source address has its own stream). "Exactly once" is only reported: loopback UDP may drop.

type c14uCase struct {
	Enc     string
	NumConn int
	Clients [][]int // per proxy client (own UDP source address): datagram sizes, sent in order
	Echo    bool    // the proxy server echoes every datagram back
	// Stall > 0 (needs >= 2 clients): after every client's first datagram has gone through, the tunnel connection that
	// carries client 0 (NumConn <= 0) resp. the session's first connection stops draining for Stall milliseconds with
	// a full send buffer - a congested path - while client 0 sends the rest of its datagrams and the other clients
	// theirs; then it recovers. Nothing is closed and no error occurs anywhere.
	Stall int
	// SrcIPs (optional, per proxy client): the loopback address the client sends from; with SharePort all of them use the
	// same source port (distinct hosts that happen to use one port number, as fixed-port UDP applications do)
	SrcIPs    []string `json:",omitempty"`
	SharePort bool     `json:",omitempty"`
}

func c14uPayload(clientIdx, k, n int) []byte {
	b := make([]byte, n)
	vFill(b, uint64(clientIdx)<<16|uint64(k), 0)
	if n >= 4 {
		binary.BigEndian.PutUint16(b[0:2], uint16(clientIdx))
		binary.BigEndian.PutUint16(b[2:4], uint16(k))
	}
	return b
}

func c14uRun(sc c14uCase) (vk.Result, error) {
	res := vk.Result{}
	// UDP proxy server: records (per peer address = per server-side stream socket) and optionally echoes
	ps, err := net.ListenUDP("udp", &net.UDPAddr{IP: net.IPv4(127, 0, 0, 1)})
	if err != nil {
		return res, fmt.Errorf("harness: %v", err)
	}
	defer ps.Close()
	var mu sync.Mutex
	byPeer := map[string][][]byte{}
	go func() {
		buf := make([]byte, 65536)
		for {
			n, addr, err := ps.ReadFromUDP(buf)
			if err != nil {
				return
			}
			d := append([]byte(nil), buf[:n]...)
			mu.Lock()
			byPeer[addr.String()] = append(byPeer[addr.String()], d)
			mu.Unlock()
			if sc.Echo {
				ps.WriteToUDP(d, addr)
			}
		}
	}()
	uid := []byte("c14-udp-bypass-u")
	srv := newVSrv(vSrvOpts{Bypass: [][]byte{uid}, Methods: []string{"openvpn"}, AutoNet: true})
	srv.sta.ProxyBook["openvpn"] = ps.LocalAddr()
	srv.sta.ProxyDialer = &net.Dialer{}
	srv.serve()
	defer srv.stop()
	cfg := vClientCfg{UID: vUIDb64(uid), Method: "openvpn", Enc: sc.Enc, NumConn: sc.NumConn, Browser: "firefox", Transport: "direct", ServerName: "www.example.com", UDP: true}
	_, remote, auth, err := vMustProcess(cfg, srv.pub, time.Now)
	if err != nil {
		return res, fmt.Errorf("harness: %v", err)
	}
	var smu sync.Mutex
	var sessions []*mux.Session
	sid := uint32(100)
	seshMaker := func() *mux.Session {
		a := auth
		smu.Lock()
		sid++
		a.SessionId = sid
		smu.Unlock()
		s := client.MakeSession(remote, a, srv.dialer())
		smu.Lock()
		sessions = append(sessions, s)
		smu.Unlock()
		return s
	}
	lc, err := net.ListenUDP("udp", &net.UDPAddr{IP: net.IPv4(127, 0, 0, 1)})
	if err != nil {
		return res, fmt.Errorf("harness: %v", err)
	}
	// RouteUDP never returns; its goroutine stays parked in ReadFrom on lc (closing lc would make it spin), so lc is
	// deliberately left open until the process exits
	go client.RouteUDP(func() (*net.UDPConn, error) { return lc, nil }, 300*time.Second, remote.Singleplex, seshMaker)
	ckAddr := lc.LocalAddr().(*net.UDPAddr)

	type pcli struct {
		conn *net.UDPConn
		sent [][]byte
		got  [][]byte
	}
	clis := make([]*pcli, len(sc.Clients))
	var wg sync.WaitGroup
	total := 0
	for i, sizes := range sc.Clients {
		var laddr *net.UDPAddr
		if i < len(sc.SrcIPs) && sc.SrcIPs[i] != "" {
			laddr = &net.UDPAddr{IP: net.ParseIP(sc.SrcIPs[i])}
			if sc.SharePort && i > 0 && clis[0] != nil {
				laddr.Port = clis[0].conn.LocalAddr().(*net.UDPAddr).Port
			}
		}
		c, err := net.DialUDP("udp", laddr, ckAddr)
		if err != nil && laddr != nil {
			// the port is taken on that address (or the address cannot be used here): any port will do
			laddr = nil
			c, err = net.DialUDP("udp", nil, ckAddr)
		}
		if err != nil {
			return res, fmt.Errorf("harness: %v", err)
		}
		if laddr != nil && laddr.Port != 0 {
			res.Labels = append(res.Labels, "clients-on-different-addresses-sharing-a-port")
		}
		p := &pcli{conn: c}
		clis[i] = p
		defer c.Close()
		for k, n := range sizes {
			p.sent = append(p.sent, c14uPayload(i, k, n))
		}
		total += len(sizes)
		wg.Add(1)
		go func(p *pcli) {
			defer wg.Done()
			buf := make([]byte, 65536)
			for {
				p.conn.SetReadDeadline(time.Now().Add(1500 * time.Millisecond))
				n, err := p.conn.Read(buf)
				if err != nil {
					return
				}
				mu.Lock()
				p.got = append(p.got, append([]byte(nil), buf[:n]...))
				mu.Unlock()
			}
		}(p)
	}
	received := func() int {
		mu.Lock()
		defer mu.Unlock()
		n := 0
		for _, l := range byPeer {
			n += len(l)
		}
		return n
	}
	stalled := false
	if sc.Stall > 0 && len(clis) >= 2 {
		// first datagrams one client after the other, each awaited at the proxy server: the tunnel connections are
		// created in client order (patience only; if one does not arrive the case runs without the stall)
		ok := true
		for i, p := range clis {
			p.conn.Write(p.sent[0])
			for dl := time.Now().Add(3 * time.Second); received() < i+1; time.Sleep(2 * time.Millisecond) {
				if time.Now().After(dl) {
					ok = false
					break
				}
			}
		}
		links := srv.net.All()
		if ok && len(links) > 0 {
			stalled = true
			l := links[0]
			l.SetAuto(vk.AtoB, false)
			l.SetLimit(vk.AtoB, 1)
			for k := 1; k < len(clis[0].sent); k++ {
				clis[0].conn.Write(clis[0].sent[k])
			}
			time.Sleep(5 * time.Millisecond)
			for k := 1; ; k++ {
				any := false
				for _, p := range clis[1:] {
					if k < len(p.sent) {
						any = true
						p.conn.Write(p.sent[k])
					}
				}
				if !any {
					break
				}
				time.Sleep(200 * time.Microsecond)
			}
			time.Sleep(time.Duration(sc.Stall) * time.Millisecond)
			l.SetLimit(vk.AtoB, 0)
			l.SetAuto(vk.AtoB, true)
		}
	}
	// send, interleaving the clients
	for k := 0; !stalled; k++ {
		any := false
		for _, p := range clis {
			if k < len(p.sent) {
				any = true
				p.conn.Write(p.sent[k])
			}
		}
		if !any {
			break
		}
		time.Sleep(2 * time.Millisecond)
	}
	// patience: until everything expected has arrived or nothing moves any more (not a verdict)
	deadline := time.Now().Add(4 * time.Second)
	for time.Now().Before(deadline) {
		if received() >= total {
			break
		}
		time.Sleep(20 * time.Millisecond)
	}
	wg.Wait()
	smu.Lock()
	nSessions, closedEarly := len(sessions), 0
	for _, s := range sessions {
		if s.IsClosed() {
			closedEarly++
		}
		go s.Close()
	}
	smu.Unlock()
	if remote.Singleplex {
		// NumConn <= 0: one connection (one session) per stream, i.e. per proxy client; the network is healthy and the
		// stream timeout far away, so every one of them is still open now
		if nSessions != len(clis) || closedEarly > 0 {
			return res, vk.ViolateSig("udp-singleplex", "NumConn=%d (one connection per stream): %d proxy clients sent datagrams, %d sessions were made and %d of them were closed again while their proxy clients were alive", sc.NumConn, len(clis), nSessions, closedEarly)
		}
		res.Labels = append(res.Labels, "singleplex")
	}

	mu.Lock()
	defer mu.Unlock()
	// server side: every datagram is one whole datagram some client sent, at most as often as sent, and all
	// datagrams of one server-side socket (= one stream) come from one proxy client
	remaining := make([][][]byte, len(clis))
	for i, p := range clis {
		remaining[i] = append([][]byte(nil), p.sent...)
	}
	delivered := 0
	for peer, list := range byPeer {
		owner := -1
		for _, d := range list {
			found := -1
			for i := range remaining {
				for j, m := range remaining[i] {
					if bytes.Equal(m, d) {
						found = i
						remaining[i] = append(remaining[i][:j], remaining[i][j+1:]...)
						break
					}
				}
				if found >= 0 {
					break
				}
			}
			if found < 0 {
				return res, vk.ViolateSig("udp-datagram", "the UDP proxy server received a %d-byte datagram on stream socket %s that no proxy client sent in that form (merged, split, altered or duplicated)", len(d), peer)
			}
			if owner >= 0 && found != owner && len(d) >= 4 {
				return res, vk.ViolateSig("udp-isolation", "datagrams of proxy clients %d and %d arrived through the same stream (server-side socket %s)", owner, found, peer)
			}
			if len(d) >= 4 {
				owner = found
			}
			delivered++
		}
	}
	// client side: every echo belongs to the client that receives it
	for i, p := range clis {
		mine := append([][]byte(nil), p.sent...)
		for _, d := range p.got {
			found := false
			for j, m := range mine {
				if bytes.Equal(m, d) {
					mine = append(mine[:j], mine[j+1:]...)
					found = true
					break
				}
			}
			if !found {
				return res, vk.ViolateSig("udp-isolation", "proxy client %d received a %d-byte datagram that is not an echo of one of its own datagrams (foreign, merged, split or duplicated)", i, len(d))
			}
		}
	}
	res.NonTrivial = len(clis) >= 2
	res.Labels = append(res.Labels, fmt.Sprintf("clients=%d", len(clis)))
	if stalled {
		res.Labels = append(res.Labels, "one-tunnel-connection-stalled-then-recovered")
	}
	vk.AddLabel("C14", "UDPRig", "datagrams-sent", int64(total))
	vk.AddLabel("C14", "UDPRig", "datagrams-delivered", int64(delivered))
	return res, nil
}

func TestVerif_C14_UDPRig(t *testing.T) {
	vk.Run(t, "C14", "UDPRig", func(rt *rapid.T) c14uCase {
		sc := c14uCase{Enc: rapid.SampledFrom([]string{"plain", "aes-256-gcm", "chacha20-poly1305", "aes-128-gcm"}).Draw(rt, "enc"), NumConn: rapid.SampledFrom([]int{0, 0, 1, 2, 3, 4}).Draw(rt, "numconn"), Echo: rapid.Bool().Draw(rt, "echo")}
		nc := rapid.IntRange(1, 5).Draw(rt, "nclients")
		size := rapid.OneOf(rapid.SampledFrom([]int{4, 5, 100, 1200, 1472, 8000, 8192}), rapid.IntRange(4, 3000))
		for i := 0; i < nc; i++ {
			var l []int
			for k, n := 0, rapid.IntRange(1, 12).Draw(rt, "ndg"); k < n; k++ {
				l = append(l, size.Draw(rt, "size"))
			}
			sc.Clients = append(sc.Clients, l)
		}
		if rapid.IntRange(0, 1).Draw(rt, "shape") == 0 {
			// a congested tunnel connection: client 0 has a few datagrams, the others many small ones
			sc.Stall = rapid.SampledFrom([]int{30, 100, 250}).Draw(rt, "stall")
			sc.NumConn = rapid.SampledFrom([]int{0, 0, 0, -1, 1, 2, 4}).Draw(rt, "numconn-stall")
			small := rapid.OneOf(rapid.SampledFrom([]int{4, 5, 64, 100}), rapid.IntRange(4, 300))
			sc.Clients = nil
			for i, nc := 0, rapid.IntRange(2, 4).Draw(rt, "nclients-stall"); i < nc; i++ {
				n := rapid.IntRange(4, 10).Draw(rt, "ndg0")
				if i > 0 {
					n = rapid.IntRange(40, 150).Draw(rt, "ndgN")
				}
				var l []int
				for k := 0; k < n; k++ {
					l = append(l, small.Draw(rt, "size"))
				}
				sc.Clients = append(sc.Clients, l)
			}
		}
		if rapid.IntRange(0, 2).Draw(rt, "addrs") == 0 && len(sc.Clients) >= 2 {
			// proxy clients on different (loopback) hosts, all using the same source port
			ips := rapid.Permutation([]string{"127.0.0.1", "127.1.0.1", "127.0.1.1", "127.1.1.1", "127.2.0.1", "127.0.0.2"}).Draw(rt, "ips")
			sc.SrcIPs = ips[:min(len(ips), len(sc.Clients))]
			sc.SharePort = rapid.IntRange(0, 3).Draw(rt, "shareport") > 0
		}
		return sc
	}, c14uRun)
}

// C20 SingleplexUDP: "NumConn <= 0 selects one-connection-per-stream mode" on the UDP path (client.RouteUDP): the
// UDP rig of C14 with NumConn from {0, -1} and several proxy clients at the same time; every proxy client gets a session
// of its own and none of them is closed while its client is alive.
func TestVerif_C20_SingleplexUDP(t *testing.T) {
	vk.Run(t, "C20", "SingleplexUDP", func(rt *rapid.T) c14uCase {
		sc := c14uCase{Enc: rapid.SampledFrom([]string{"plain", "aes-256-gcm", "chacha20-poly1305", "aes-128-gcm"}).Draw(rt, "enc"), NumConn: rapid.SampledFrom([]int{0, 0, -1}).Draw(rt, "numconn"), Echo: rapid.Bool().Draw(rt, "echo")}
		nc := rapid.IntRange(2, 4).Draw(rt, "nclients")
		for i := 0; i < nc; i++ {
			var l []int
			for k, n := 0, rapid.IntRange(2, 8).Draw(rt, "ndg"); k < n; k++ {
				l = append(l, rapid.SampledFrom([]int{4, 100, 1200, 1472}).Draw(rt, "size"))
			}
			sc.Clients = append(sc.Clients, l)
		}
		return sc
	}, func(sc c14uCase) (vk.Result, error) {
		return vk.Protect(func() (vk.Result, error) { return c14uRun(sc) })
	})
}
