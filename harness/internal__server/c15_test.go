package server

import (
	"bytes"
	"crypto/rand"
	"encoding/base64"
	"encoding/json"
	"fmt"
	"net"
	"net/http"
	"net/http/httptest"
	"os"
	"path/filepath"
	"testing"
	"testing/synctest"
	"time"

	"github.com/cbeuw/Cloak/internal/common"
	mux "github.com/cbeuw/Cloak/internal/multiplex"
	"github.com/cbeuw/Cloak/internal/server/usermanager"
	vk "github.com/cbeuw/Cloak/internal/verifkit"
	"pgregory.net/rapid"
)

// C15 - connections join the right session (same UID+session id => one session, one key; different pairs never
// share); the per-user session cap is never exceeded; exhausted or expired users cannot start a session.

type c15Attempt struct {
	U   int    `json:"u"`
	Sid uint32 `json:"sid"`
}

type c15Step struct {
	K        string       `json:"k"` // connect | close | edit | wait
	Attempts []c15Attempt `json:"a,omitempty"`
	U        int          `json:"u,omitempty"`
	Sid      uint32       `json:"sid,omitempty"`
	Field    string       `json:"f,omitempty"` // edit: cap upcredit downcredit expiry
	Val      int64        `json:"v,omitempty"`
}

type c15User struct {
	Bypass bool
	Cap    int
}

type c15Scenario struct {
	Bolt    bool
	Users   []c15User
	Browser string
	Steps   []c15Step
}

func c15UID(i int) []byte {
	u := []byte("c15-user-0000000")
	u[15] = byte('0' + i)
	return u
}

type c15UserModel struct {
	bypass      bool
	cap         int64
	up, down    int64
	expiry      int64
	live        map[uint32][32]byte // live sessions and their keys
	everCreated int
	// admittedUnderCap is the largest number of concurrent sessions that was legitimately reached (<= cap at the time)
	admittedUnderCap int64
}

func (m *c15UserModel) authorised(now int64) bool {
	return m.bypass || (m.up > 0 && m.down > 0 && m.expiry >= now)
}

func c15Inner(sc c15Scenario) (vk.Result, error) {
	res := vk.Result{}
	var mgr usermanager.UserManager
	var boltMgr interface {
		usermanager.UserManager
		Close() error
	}
	fm := newFakeManager()
	if sc.Bolt {
		dir := c18TmpDir()
		defer os.RemoveAll(dir)
		m, err := usermanager.MakeLocalManager(filepath.Join(dir, "userinfo.db"), common.WorldState{Rand: rand.Reader, Now: time.Now})
		if err != nil {
			return res, fmt.Errorf("harness: %v", err)
		}
		defer m.Close()
		boltMgr = m
		mgr = m
	} else {
		mgr = fm
	}
	now := time.Now().Unix()
	models := make([]*c15UserModel, len(sc.Users))
	var bypass [][]byte
	for i, u := range sc.Users {
		models[i] = &c15UserModel{bypass: u.Bypass, cap: int64(u.Cap), up: 1 << 40, down: 1 << 40, expiry: now + 1000000, live: map[uint32][32]byte{}}
		if u.Bypass {
			bypass = append(bypass, c15UID(i))
			continue
		}
		if sc.Bolt {
			boltMgr.WriteUserInfo(usermanager.UserInfo{UID: c15UID(i), SessionsCap: usermanager.JustInt32(int32(u.Cap)), UpRate: usermanager.JustInt64(1 << 30), DownRate: usermanager.JustInt64(1 << 30),
				UpCredit: usermanager.JustInt64(1 << 40), DownCredit: usermanager.JustInt64(1 << 40), ExpiryTime: usermanager.JustInt64(now + 1000000)})
		} else {
			var a [16]byte
			copy(a[:], c15UID(i))
			fm.users[a] = &vFakeUser{UpRate: 1 << 30, DownRate: 1 << 30, UpCredit: 1 << 40, DownCredit: 1 << 40, Expiry: now + 1000000, Cap: u.Cap}
		}
	}
	srv := newVSrv(vSrvOpts{Manager: mgr, Bypass: bypass, Methods: []string{"shadowsocks"}, AutoNet: true})
	defer srv.stop()
	srv.serve()
	go func() { // the redirect target swallows refused connections
		for {
			c, err := srv.redirLn.Accept()
			if err != nil {
				return
			}
			go func(c net.Conn) {
				buf := make([]byte, 4096)
				for {
					if _, err := c.Read(buf); err != nil {
						return
					}
				}
			}(c)
		}
	}()
	var router *usermanager.APIRouter
	if sc.Bolt {
		router = usermanager.APIRouterOf(boltMgr)
	}
	var openConns []net.Conn
	defer func() {
		for _, c := range openConns {
			c.Close()
		}
	}()
	sameStepSamePair, atCap := false, false

	check := func(phase string) error {
		for i, m := range models {
			var arr [16]byte
			copy(arr[:], c15UID(i))
			srv.sta.Panel.activeUsersM.RLock()
			user := srv.sta.Panel.activeUsers[arr]
			srv.sta.Panel.activeUsersM.RUnlock()
			n := 0
			if user != nil {
				n = user.NumSession()
			}
			// the cap is enforced when a session is created (lowering it later does not close sessions): a user
			// may only be above its cap if the cap was lowered after those sessions had been admitted
			if !m.bypass && int64(n) > m.cap && int64(n) > m.admittedUnderCap {
				return vk.ViolateSig("cap-exceeded", "%s: user %d has %d concurrent sessions, its cap is %d and it never was allowed more than %d", phase, i, n, m.cap, m.admittedUnderCap)
			}
			if n != len(m.live) {
				return vk.ViolateSig("session-count", "%s: user %d: server holds %d sessions, the handshakes that were answered imply %d", phase, i, n, len(m.live))
			}
			if user != nil {
				user.sessionsM.RLock()
				seen := map[*mux.Session]uint32{}
				for sid, sesh := range user.sessions {
					if other, dup := seen[sesh]; dup {
						user.sessionsM.RUnlock()
						return vk.ViolateSig("shared-session", "%s: user %d: session ids %d and %d share one session", phase, i, sid, other)
					}
					seen[sesh] = sid
					if k, ok := m.live[sid]; ok && sesh.GetSessionKey() != k {
						user.sessionsM.RUnlock()
						return vk.ViolateSig("key-mismatch", "%s: user %d session %d: the key the clients were given differs from the session's key", phase, i, sid)
					}
				}
				user.sessionsM.RUnlock()
			}
		}
		return nil
	}

	for si, st := range sc.Steps {
		phase := fmt.Sprintf("step %d (%s)", si, st.K)
		switch st.K {
		case "connect":
			type result struct {
				key [32]byte
				err error
				ok  bool
			}
			results := make([]chan result, len(st.Attempts))
			pairCount := map[c15Attempt]int{}
			newPerUser := map[int]map[uint32]bool{}
			for ai, a := range st.Attempts {
				a.U = a.U % len(sc.Users)
				st.Attempts[ai] = a
				pairCount[a]++
				if _, live := models[a.U].live[a.Sid]; !live {
					if newPerUser[a.U] == nil {
						newPerUser[a.U] = map[uint32]bool{}
					}
					newPerUser[a.U][a.Sid] = true
				}
				cfg := vClientCfg{UID: base64.StdEncoding.EncodeToString(c15UID(a.U)), Method: "shadowsocks", Enc: "aes-128-gcm", NumConn: 1, Browser: sc.Browser, Transport: "direct", ServerName: "www.example.com"}
				_, remote, auth, err := vMustProcess(cfg, srv.pub, time.Now)
				if err != nil {
					return res, fmt.Errorf("harness: %v", err)
				}
				auth.SessionId = a.Sid
				tr := remote.Transport.CreateTransport()
				conn, _ := srv.dialer().Dial("tcp", "x")
				openConns = append(openConns, conn)
				ch := make(chan result, 1)
				results[ai] = ch
				go func() {
					k, err := tr.Handshake(conn, auth)
					ch <- result{k, err, err == nil}
				}()
			}
			for _, n := range pairCount {
				if n >= 2 {
					sameStepSamePair = true
				}
			}
			synctest.Wait()
			tnow := time.Now().Unix()
			liveBefore := map[int]int{}
			for i, m := range models {
				liveBefore[i] = len(m.live)
			}
			// collect
			gotKeys := map[c15Attempt][][32]byte{}
			answered := map[c15Attempt]int{}
			for ai, a := range st.Attempts {
				select {
				case r := <-results[ai]:
					if r.ok {
						gotKeys[a] = append(gotKeys[a], r.key)
						answered[a]++
					}
				default:
				}
			}
			for a, keys := range gotKeys {
				m := models[a.U]
				for _, k := range keys[1:] {
					if k != keys[0] {
						return res, vk.ViolateSig("key-mismatch", "%s: two connections presenting user %d / session id %d were given different session keys", phase, a.U, a.Sid)
					}
				}
				if old, live := m.live[a.Sid]; live {
					if old != keys[0] {
						return res, vk.ViolateSig("key-mismatch", "%s: a connection joining the live session %d of user %d was given a key different from the one its earlier connections got", phase, a.Sid, a.U)
					}
				} else {
					if !m.authorised(tnow) {
						return res, vk.ViolateSig("unauthorised-session", "%s: user %d (upCredit=%d downCredit=%d expiry-now=%d) was allowed to start session %d", phase, a.U, m.up, m.down, m.expiry-tnow, a.Sid)
					}
					m.live[a.Sid] = keys[0]
					m.everCreated++
				}
			}
			for u, m := range models {
				created := int64(len(m.live) - liveBefore[u])
				room := m.cap - int64(liveBefore[u])
				if room < 0 {
					room = 0
				}
				if !m.bypass && created > room {
					return res, vk.ViolateSig("cap-exceeded", "%s: user %d had %d sessions and a cap of %d, yet %d new sessions were created", phase, u, liveBefore[u], m.cap, created)
				}
				if int64(len(m.live)) <= m.cap && int64(len(m.live)) > m.admittedUnderCap {
					m.admittedUnderCap = int64(len(m.live))
				}
				if int64(liveBefore[u]) > m.admittedUnderCap {
					m.admittedUnderCap = int64(liveBefore[u])
				}
			}
			// attempts that had to be answered: joining a live session, or new sessions that all fit under the cap
			for a, n := range pairCount {
				m := models[a.U]
				_, liveNow := m.live[a.Sid]
				mustAnswer := false
				if liveNow && answered[a] > 0 {
					mustAnswer = true // the pair got a session: every connection of that pair must have joined it
				}
				if mustAnswer && answered[a] != n {
					return res, vk.ViolateSig("not-joined", "%s: %d connections presented user %d / session id %d, the session exists, but only %d were attached to it", phase, n, a.U, a.Sid, answered[a])
				}
				if !liveNow && m.authorised(tnow) && (m.bypass || int64(liveBefore[a.U]+len(newPerUser[a.U])) <= m.cap) {
					return res, vk.ViolateSig("valid-rejected", "%s: user %d is authorised and stays within its cap (%d live before, %d new, cap %d) but session %d was not created", phase, a.U, liveBefore[a.U], len(newPerUser[a.U]), m.cap, a.Sid)
				}
				if !m.bypass && int64(liveBefore[a.U]+len(newPerUser[a.U])) > m.cap && newPerUser[a.U][a.Sid] {
					atCap = true
				}
			}
		case "close":
			u := st.U % len(sc.Users)
			m := models[u]
			if len(m.live) < 2 {
				continue // closing a user's last session is C17's subject
			}
			if _, ok := m.live[st.Sid]; !ok {
				// pick some live sid deterministically
				var min uint32
				first := true
				for sid := range m.live {
					if first || sid < min {
						min, first = sid, false
					}
				}
				st.Sid = min
			}
			var arr [16]byte
			copy(arr[:], c15UID(u))
			srv.sta.Panel.activeUsersM.RLock()
			user := srv.sta.Panel.activeUsers[arr]
			srv.sta.Panel.activeUsersM.RUnlock()
			if user != nil {
				user.CloseSession(st.Sid, "closed by test")
			}
			delete(m.live, st.Sid)
			synctest.Wait()
		case "edit":
			u := st.U % len(sc.Users)
			m := models[u]
			if m.bypass {
				continue
			}
			switch st.Field {
			case "cap":
				m.cap = st.Val
			case "upcredit":
				m.up = st.Val
			case "downcredit":
				m.down = st.Val
			case "expiry":
				m.expiry = time.Now().Unix() + st.Val
			}
			if sc.Bolt {
				ui := map[string]interface{}{"UID": c15UID(u)}
				switch st.Field {
				case "cap":
					ui["SessionsCap"] = int32(st.Val)
				case "upcredit":
					ui["UpCredit"] = st.Val
				case "downcredit":
					ui["DownCredit"] = st.Val
				case "expiry":
					ui["ExpiryTime"] = m.expiry
				}
				b, _ := json.Marshal(ui)
				req, _ := http.NewRequest("POST", "/admin/users/"+base64.URLEncoding.EncodeToString(c15UID(u)), bytes.NewReader(b))
				rr := httptest.NewRecorder()
				router.ServeHTTP(rr, req)
				if rr.Code/100 != 2 {
					return res, fmt.Errorf("harness: admin API edit failed: %d %s", rr.Code, rr.Body.String())
				}
			} else {
				var a [16]byte
				copy(a[:], c15UID(u))
				fm.mu.Lock()
				fu := fm.users[a]
				fu.Cap, fu.UpCredit, fu.DownCredit, fu.Expiry = int(m.cap), m.up, m.down, m.expiry
				fm.mu.Unlock()
			}
			res.Labels = append(res.Labels, "admin-edit:"+st.Field)
		case "wait":
			time.Sleep(time.Duration(st.Val) * time.Second)
		}
		if err := check(phase); err != nil {
			return res, err
		}
	}
	res.NonTrivial = sameStepSamePair || atCap
	if sameStepSamePair {
		res.Labels = append(res.Labels, "simultaneous-handshakes-same-pair")
	}
	if atCap {
		res.Labels = append(res.Labels, "handshake-attempted-at-cap")
	}
	if sc.Bolt {
		res.Labels = append(res.Labels, "bolt-manager")
	}
	return res, nil
}

func c15Gen(rt *rapid.T) c15Scenario {
	sc := c15Scenario{Bolt: rapid.IntRange(0, 1).Draw(rt, "bolt") == 0, Browser: rapid.SampledFrom([]string{"firefox", "safari", "chrome"}).Draw(rt, "browser")}
	nu := rapid.IntRange(1, 3).Draw(rt, "nusers")
	for i := 0; i < nu; i++ {
		sc.Users = append(sc.Users, c15User{Bypass: rapid.IntRange(0, 3).Draw(rt, "bypass") == 0, Cap: rapid.SampledFrom([]int{0, 1, 2, 2, 3, 3, 4}).Draw(rt, "cap")})
	}
	sids := []uint32{0, 1, 2, 3, 0xffffffff}
	if rapid.IntRange(0, 9).Draw(rt, "shape") < 4 {
		// the shape the admission clauses are about: a user that already has a live session (so that only the
		// per-session authorisation is consulted) is edited through the admin API and then asks for another session
		u := rapid.IntRange(0, nu-1).Draw(rt, "su")
		sc.Users[u].Bypass = false
		if sc.Users[u].Cap < 2 {
			sc.Users[u].Cap = 2 + rapid.IntRange(0, 2).Draw(rt, "scap")
		}
		first := rapid.SampledFrom(sids).Draw(rt, "s1")
		sc.Steps = append(sc.Steps, c15Step{K: "connect", Attempts: []c15Attempt{{U: u, Sid: first}}})
		ne := rapid.IntRange(1, 2).Draw(rt, "nedits")
		for j := 0; j < ne; j++ {
			f := rapid.SampledFrom([]string{"cap", "upcredit", "downcredit", "expiry"}).Draw(rt, "sfield")
			var v int64
			switch f {
			case "cap":
				v = int64(rapid.IntRange(0, 4).Draw(rt, "scapv"))
			case "expiry":
				v = rapid.SampledFrom([]int64{-10, -1, -50, 0, 100, 1000000}).Draw(rt, "sexpv")
			default:
				v = rapid.SampledFrom([]int64{0, -1, -5, -1 << 62, -1 << 63, 1, 1 << 40}).Draw(rt, "scredv")
			}
			sc.Steps = append(sc.Steps, c15Step{K: "edit", U: u, Field: f, Val: v})
		}
		second := rapid.SampledFrom(sids).Draw(rt, "s2")
		sc.Steps = append(sc.Steps, c15Step{K: "connect", Attempts: []c15Attempt{{U: u, Sid: second}, {U: u, Sid: first}}})
	}
	ns := rapid.IntRange(1, 8).Draw(rt, "nsteps")
	for i := 0; i < ns; i++ {
		k := rapid.IntRange(0, 99).Draw(rt, "kind")
		switch {
		case k < 60:
			st := c15Step{K: "connect"}
			n := rapid.OneOf(rapid.IntRange(1, 6), rapid.IntRange(1, 24)).Draw(rt, "nattempts")
			npairs := rapid.IntRange(1, 4).Draw(rt, "npairs")
			var pairs []c15Attempt
			for p := 0; p < npairs; p++ {
				pairs = append(pairs, c15Attempt{U: rapid.IntRange(0, nu-1).Draw(rt, "au"), Sid: rapid.SampledFrom(sids).Draw(rt, "asid")})
			}
			for a := 0; a < n; a++ {
				st.Attempts = append(st.Attempts, pairs[rapid.IntRange(0, npairs-1).Draw(rt, "pick")])
			}
			sc.Steps = append(sc.Steps, st)
		case k < 75:
			sc.Steps = append(sc.Steps, c15Step{K: "close", U: rapid.IntRange(0, nu-1).Draw(rt, "cu"), Sid: rapid.SampledFrom(sids).Draw(rt, "csid")})
		case k < 95:
			f := rapid.SampledFrom([]string{"cap", "upcredit", "downcredit", "expiry"}).Draw(rt, "field")
			var v int64
			switch f {
			case "cap":
				v = int64(rapid.IntRange(0, 4).Draw(rt, "capv"))
			case "expiry":
				v = rapid.SampledFrom([]int64{-10, -1, -50, 100, 1000000}).Draw(rt, "expv")
			default:
				v = rapid.SampledFrom([]int64{0, -5, -1 << 63, 1, 1 << 40}).Draw(rt, "credv")
			}
			eu := rapid.IntRange(0, nu-1).Draw(rt, "eu")
			sc.Steps = append(sc.Steps, c15Step{K: "edit", U: eu, Field: f, Val: v})
			if rapid.IntRange(0, 9).Draw(rt, "follow") < 7 {
				// the edited user then asks for another session (and joins an existing one)
				sc.Steps = append(sc.Steps, c15Step{K: "connect", Attempts: []c15Attempt{{U: eu, Sid: rapid.SampledFrom(sids).Draw(rt, "fsid")}, {U: eu, Sid: rapid.SampledFrom(sids).Draw(rt, "fsid2")}}})
			}
		default:
			sc.Steps = append(sc.Steps, c15Step{K: "wait", Val: int64(rapid.SampledFrom([]int{1, 2, 3}).Draw(rt, "w"))})
		}
	}
	return sc
}

func TestVerif_C15_Sessions(t *testing.T) {
	vk.Run(t, "C15", "Sessions", c15Gen, func(sc c15Scenario) (vk.Result, error) {
		var res vk.Result
		var verr error
		berr := vk.Bubble(t, func() {
			res, verr = vk.Protect(func() (vk.Result, error) { return c15Inner(sc) })
		})
		if verr == nil && berr != nil {
			verr = fmt.Errorf("harness: bubble: %v", berr)
		}
		return res, verr
	})
}
