package server

import (
	"bytes"
	"crypto/rand"
	"encoding/base64"
	"encoding/json"
	"fmt"
	"io"
	"net"
	"net/http"
	"net/http/httptest"
	"os"
	"path/filepath"
	"testing"
	"testing/synctest"
	"time"

	"github.com/cbeuw/Cloak/internal/client"
	"github.com/cbeuw/Cloak/internal/common"
	mux "github.com/cbeuw/Cloak/internal/multiplex"
	"github.com/cbeuw/Cloak/internal/server/usermanager"
	vk "github.com/cbeuw/Cloak/internal/verifkit"
	"pgregory.net/rapid"
)

// C16 - usage is charged exactly once (upload from upload credit, download from download credit, never from
// another user) and users whose credit is exhausted, who expired or were deleted are cut off.

type c16Op struct {
	K    string  `json:"k"` // session halfopen traffic collect commit upload closesession proxyfail topup exhaust expire delete
	U    int     `json:"u,omitempty"`
	I    int     `json:"i,omitempty"` // client session index
	N    int     `json:"n,omitempty"` // bytes / number of connections
	Echo int     `json:"echo,omitempty"`
	Amt  int64   `json:"amt,omitempty"`
	Par  []c16Op `json:"par,omitempty"`
}

type c16Scenario struct {
	Bolt  bool
	Users int
	Ops   []c16Op
}

const c16Initial = int64(50_000_000)

type c16Sesh struct {
	u     int
	sesh  *mux.Session
	links []*vk.Link
	st    *mux.Stream
}

type c16Model struct {
	topUp, topDown int64
	terminatedEver bool
	deleted        bool
	expired        bool
}

type c16Store interface {
	credits(uid []byte) (up, down int64, ok bool)
	set(uid []byte, field string, v int64)
	delete(uid []byte)
}

type c16Fake struct{ fm *vFakeManager }

func (f c16Fake) credits(uid []byte) (int64, int64, bool) {
	f.fm.mu.Lock()
	defer f.fm.mu.Unlock()
	u := f.fm.get(uid)
	if u == nil {
		return 0, 0, false
	}
	return u.UpCredit, u.DownCredit, true
}
func (f c16Fake) set(uid []byte, field string, v int64) {
	f.fm.mu.Lock()
	defer f.fm.mu.Unlock()
	u := f.fm.get(uid)
	if u == nil {
		return
	}
	switch field {
	case "UpCredit":
		u.UpCredit = v
	case "DownCredit":
		u.DownCredit = v
	case "ExpiryTime":
		u.Expiry = v
	case "UpRate":
		u.UpRate = v
	case "DownRate":
		u.DownRate = v
	}
}
func (f c16Fake) delete(uid []byte) { f.fm.DeleteUser(uid) }

type c16Bolt struct {
	mgr    usermanager.UserManager
	router *usermanager.APIRouter
}

func (b c16Bolt) credits(uid []byte) (int64, int64, bool) {
	ui, err := b.mgr.GetUserInfo(uid)
	if err != nil || ui.UpCredit == nil {
		return 0, 0, false
	}
	return *ui.UpCredit, *ui.DownCredit, true
}
func (b c16Bolt) set(uid []byte, field string, v int64) {
	body, _ := json.Marshal(map[string]interface{}{"UID": uid, field: v})
	req, _ := http.NewRequest("POST", "/admin/users/"+base64.URLEncoding.EncodeToString(uid), bytes.NewReader(body))
	b.router.ServeHTTP(httptest.NewRecorder(), req)
}
func (b c16Bolt) delete(uid []byte) {
	req, _ := http.NewRequest("DELETE", "/admin/users/"+base64.URLEncoding.EncodeToString(uid), nil)
	b.router.ServeHTTP(httptest.NewRecorder(), req)
}

// c16Volume sums the application-data record bodies after the handshake on a client<->server link.
// Upload volume counts only records the server actually read (a client may write a last record and close; if the
// server tears the session down first, those bytes were never carried by it).
func c16Volume(l *vk.Link) (up, down int64) {
	wire := l.Wire(vk.AtoB)
	if c := l.Consumed(vk.AtoB); c < int64(len(wire)) {
		wire = wire[:c]
	}
	recs, _ := vk.SplitTLSRecords(wire)
	for i, r := range recs {
		if i >= 1 && r.Type == 23 {
			up += int64(len(r.Body))
		}
	}
	recs, _ = vk.SplitTLSRecords(l.Wire(vk.BtoA))
	for i, r := range recs {
		if i >= 3 && r.Type == 23 {
			down += int64(len(r.Body))
		}
	}
	return
}

func c16Inner(sc c16Scenario) (vk.Result, error) {
	res := vk.Result{}
	var store c16Store
	var mgr usermanager.UserManager
	now := time.Now().Unix()
	if sc.Bolt {
		dir := c18TmpDir()
		defer os.RemoveAll(dir)
		m, err := usermanager.MakeLocalManager(filepath.Join(dir, "userinfo.db"), common.WorldState{Rand: rand.Reader, Now: time.Now})
		if err != nil {
			return res, fmt.Errorf("harness: %v", err)
		}
		defer m.Close()
		for i := 0; i < sc.Users; i++ {
			m.WriteUserInfo(usermanager.UserInfo{UID: c15UID(i), SessionsCap: usermanager.JustInt32(20), UpRate: usermanager.JustInt64(1 << 40), DownRate: usermanager.JustInt64(1 << 40),
				UpCredit: usermanager.JustInt64(c16Initial), DownCredit: usermanager.JustInt64(c16Initial), ExpiryTime: usermanager.JustInt64(now + 1000000)})
		}
		mgr = m
		store = c16Bolt{m, usermanager.APIRouterOf(m)}
	} else {
		fm := newFakeManager()
		for i := 0; i < sc.Users; i++ {
			var a [16]byte
			copy(a[:], c15UID(i))
			fm.users[a] = &vFakeUser{UpRate: 1 << 40, DownRate: 1 << 40, UpCredit: c16Initial, DownCredit: c16Initial, Expiry: now + 1000000, Cap: 20}
		}
		mgr = fm
		store = c16Fake{fm}
	}
	srv := newVSrv(vSrvOpts{Manager: mgr, Methods: []string{"shadowsocks"}, AutoNet: true})
	defer srv.stop()
	srv.serve()
	// proxy server: reads a 4-byte big-endian echo length first, then echoes that many bytes of what follows
	go func() {
		for {
			pc, err := srv.proxyLn.Accept()
			if err != nil {
				return
			}
			go func(pc net.Conn) {
				defer pc.Close()
				buf := make([]byte, 32768)
				for {
					n, err := pc.Read(buf)
					if n > 0 {
						// echo a fixed fraction: the first byte of every chunk tells how much of it to send back (x/255)
						k := n * int(buf[0]) / 255
						if k > 0 {
							pc.Write(buf[:k])
						}
					}
					if err != nil {
						return
					}
				}
			}(pc)
		}
	}()
	go func() {
		for {
			rc, err := srv.redirLn.Accept()
			if err != nil {
				return
			}
			go io.Copy(io.Discard, rc)
		}
	}()
	models := make([]*c16Model, sc.Users)
	for i := range models {
		models[i] = &c16Model{}
	}
	var seshs []*c16Sesh
	nHalf := 0
	defer func() {
		for _, s := range seshs {
			go s.sesh.Close()
		}
	}()
	overlapped := false

	volumes := func(u int) (up, down int64) {
		for _, s := range seshs {
			if s.u != u {
				continue
			}
			for _, l := range s.links {
				a, b := c16Volume(l)
				up += a
				down += b
			}
		}
		return
	}
	active := func(u int) bool {
		var arr [16]byte
		copy(arr[:], c15UID(u))
		srv.sta.Panel.activeUsersM.RLock()
		defer srv.sta.Panel.activeUsersM.RUnlock()
		_, ok := srv.sta.Panel.activeUsers[arr]
		return ok
	}
	check := func(phase string, afterUpload bool, cutoffValid bool) error {
		for u, m := range models {
			up, down, ok := store.credits(c15UID(u))
			if !ok {
				continue // deleted
			}
			volUp, volDown := volumes(u)
			chargedUp := c16Initial + m.topUp - up
			chargedDown := c16Initial + m.topDown - down
			if chargedUp > volUp {
				return vk.ViolateSig("overcharged", "%s: user %d was charged %d bytes of upload credit but only %d bytes of its traffic went client->server (charged twice, or for another user's or another direction's traffic)", phase, u, chargedUp, volUp)
			}
			if chargedDown > volDown {
				return vk.ViolateSig("overcharged", "%s: user %d was charged %d bytes of download credit but only %d bytes went server->client", phase, u, chargedDown, volDown)
			}
			if chargedUp < 0 || chargedDown < 0 {
				return vk.ViolateSig("credit-grew", "%s: user %d's stored credit grew without a top-up (upload %d, download %d)", phase, u, -chargedUp, -chargedDown)
			}
			if afterUpload && !m.terminatedEver && active(u) {
				if (chargedUp != volUp || chargedDown != volDown) && os.Getenv("VERIF_DEBUG") != "" {
					for si, s := range seshs {
						if s.u != u {
							continue
						}
						for _, l := range s.links {
							a, b := c16Volume(l)
							recs, _ := vk.SplitTLSRecords(l.Wire(vk.AtoB))
							var lens []int
							for _, r := range recs {
								lens = append(lens, len(r.Body))
							}
							fmt.Printf("DEBUG sesh %d closed=%v link %d up=%d down=%d c2s records=%v unread=%d\n", si, s.sesh.IsClosed(), l.ID, a, b, lens, l.Unread(vk.AtoB))
						}
					}
				}
				if chargedUp != volUp || chargedDown != volDown {
					return vk.ViolateSig("undercharged", "%s: traffic has stopped and a usage upload completed, user %d stayed active: charged %d/%d bytes (up/down), carried %d/%d", phase, u, chargedUp, chargedDown, volUp, volDown)
				}
			}
			if afterUpload && cutoffValid {
				cut := up <= 0 || down <= 0 || m.expired
				if cut {
					for si, s := range seshs {
						if s.u == u && !s.sesh.IsClosed() {
							return vk.ViolateSig("not-cut-off", "%s: user %d has credit %d/%d (expired=%v) after a usage upload but its session #%d is still open", phase, u, up, down, m.expired, si)
						}
					}
				}
			}
		}
		if afterUpload && cutoffValid {
			for u, m := range models {
				if m.deleted {
					for si, s := range seshs {
						if s.u == u && !s.sesh.IsClosed() {
							return vk.ViolateSig("not-cut-off", "%s: user %d was deleted, a usage upload completed, but its session #%d is still open", phase, u, si)
						}
					}
				}
			}
		}
		for u, m := range models {
			if !active(u) {
				for _, s := range seshs {
					if s.u == u {
						m.terminatedEver = true
					}
				}
			}
		}
		return nil
	}

	serverClosed := false
	var exec func(op c16Op) (afterUpload bool, err error)
	exec = func(op c16Op) (bool, error) {
		switch op.K {
		case "session":
			u := op.U % sc.Users
			if models[u].deleted {
				return false, nil
			}
			cfg := vClientCfg{UID: base64.StdEncoding.EncodeToString(c15UID(u)), Method: "shadowsocks", Enc: "plain", NumConn: 1 + op.N%3, Browser: "firefox", Transport: "direct", ServerName: "www.example.com"}
			_, remote, auth, err := vMustProcess(cfg, srv.pub, time.Now)
			if err != nil {
				return false, fmt.Errorf("harness: %v", err)
			}
			auth.SessionId = uint32(1000 + len(seshs))
			cnet := &vk.Net{Tap: true, Auto: true}
			up, down, ok := store.credits(c15UID(u))
			if !ok || up <= 0 || down <= 0 || models[u].expired {
				return false, nil // would be refused (C15): MakeSession would retry for ever
			}
			s := client.MakeSession(remote, auth, &vk.Dialer{Net: cnet, Ln: srv.cliLn})
			seshs = append(seshs, &c16Sesh{u: u, sesh: s, links: cnet.All()})
		case "halfopen":
			// a connection attempt of user u for a new session id is cut between its first packet and the server's
			// reply: the server has registered a session that has no connection (it stays around until its inactivity
			// timer fires); everything that applies to the user's sessions applies with it around
			u := op.U % sc.Users
			if models[u].deleted {
				return false, nil
			}
			up, down, ok := store.credits(c15UID(u))
			if !ok || up <= 0 || down <= 0 || models[u].expired {
				return false, nil
			}
			cfg := vClientCfg{UID: base64.StdEncoding.EncodeToString(c15UID(u)), Method: "shadowsocks", Enc: "plain", NumConn: 1, Browser: "firefox", Transport: "direct", ServerName: "www.example.com"}
			_, remote, auth, err := vMustProcess(cfg, srv.pub, time.Now)
			if err != nil {
				return false, fmt.Errorf("harness: %v", err)
			}
			nHalf++
			auth.SessionId = uint32(500000 + nHalf)
			hnet := &vk.Net{Auto: true}
			hnet.OnLink = func(l *vk.Link) { l.BreakWrites(vk.BtoA) }
			conn, _ := (&vk.Dialer{Net: hnet, Ln: srv.cliLn}).Dial("tcp", "x")
			tr := remote.Transport.CreateTransport()
			go tr.Handshake(conn, auth)
			synctest.Wait()
			conn.Close()
			synctest.Wait()
		case "traffic":
			if len(seshs) == 0 {
				return false, nil
			}
			s := seshs[op.I%len(seshs)]
			if s.sesh.IsClosed() {
				return false, nil
			}
			if s.st == nil {
				st, err := s.sesh.OpenStream()
				if err != nil {
					return false, nil
				}
				s.st = st
				go io.Copy(io.Discard, st)
			}
			n := 1 + op.N
			b := make([]byte, n)
			vFill(b, uint64(op.N), 0)
			for i := 0; i < n; i += 4096 {
				b[i] = byte(op.Echo) // echo fraction per chunk
			}
			// write in 4096-byte pieces so that every proxy read starts with the marker byte
			for i := 0; i < n; i += 4096 {
				j := i + 4096
				if j > n {
					j = n
				}
				if _, err := s.st.Write(b[i:j]); err != nil {
					break
				}
				synctest.Wait()
			}
		case "proxyfail":
			// the proxy target cannot be reached when the session's next stream arrives: the server closes the
			// (live) session itself and tells the client so
			if len(seshs) == 0 {
				return false, nil
			}
			s := seshs[op.I%len(seshs)]
			if s.sesh.IsClosed() {
				return false, nil
			}
			d, ok := srv.sta.ProxyDialer.(*vk.Dialer)
			if !ok {
				return false, fmt.Errorf("harness: proxy dialer is not a vk.Dialer")
			}
			d.SetFail(true)
			if st, err := s.sesh.OpenStream(); err == nil {
				st.Write([]byte{0})
				synctest.Wait()
			}
			d.SetFail(false)
			serverClosed = true
		case "collect":
			srv.sta.Panel.updateUsageQueue()
		case "commit":
			srv.sta.Panel.commitUpdate()
		case "upload":
			srv.sta.Panel.updateUsageQueue()
			srv.sta.Panel.commitUpdate()
			return true, nil
		case "closesession":
			if len(seshs) == 0 {
				return false, nil
			}
			s := seshs[op.I%len(seshs)]
			go s.sesh.Close()
		case "topup":
			u := op.U % sc.Users
			if models[u].deleted {
				return false, nil
			}
			// flush pending usage first so that the absolute write does not swallow a pending deduction
			srv.sta.Panel.updateUsageQueue()
			srv.sta.Panel.commitUpdate()
			synctest.Wait()
			up, down, ok := store.credits(c15UID(u))
			if !ok {
				return true, nil
			}
			if op.N%2 == 0 {
				store.set(c15UID(u), "UpCredit", up+op.Amt)
				models[u].topUp += op.Amt
			} else {
				store.set(c15UID(u), "DownCredit", down+op.Amt)
				models[u].topDown += op.Amt
			}
			return true, nil
		case "exhaust":
			u := op.U % sc.Users
			if models[u].deleted {
				return false, nil
			}
			srv.sta.Panel.updateUsageQueue()
			srv.sta.Panel.commitUpdate()
			synctest.Wait()
			up, down, ok := store.credits(c15UID(u))
			if !ok {
				return true, nil
			}
			// leave a few bytes of credit: the next traffic + upload must terminate the user
			if op.N%2 == 0 {
				store.set(c15UID(u), "UpCredit", op.Amt%50)
				models[u].topUp += op.Amt%50 - up
			} else {
				store.set(c15UID(u), "DownCredit", op.Amt%50)
				models[u].topDown += op.Amt%50 - down
			}
			return true, nil
		case "expire":
			u := op.U % sc.Users
			if models[u].deleted {
				return false, nil // writing a field of a deleted user would re-create it as a partial record
			}
			// any moment before now, as an administrator might write it: ten seconds ago, 0, 1, a negative number
			exp := time.Now().Unix() - 10
			switch op.N % 4 {
			case 1:
				exp = 0
			case 2:
				exp = 1
			case 3:
				exp = -5
			}
			store.set(c15UID(u), "ExpiryTime", exp)
			models[u].expired = true
		case "rates":
			// an administrator gives the user other (still generous) rates while it may be active; whatever the server
			// does with them, the user's traffic keeps being charged
			u := op.U % sc.Users
			if models[u].deleted {
				return false, nil
			}
			store.set(c15UID(u), "UpRate", 200000000+op.Amt)
			store.set(c15UID(u), "DownRate", 300000000+op.Amt)
		case "delete":
			u := op.U % sc.Users
			store.delete(c15UID(u))
			models[u].deleted = true
		}
		return false, nil
	}

	for oi, op := range sc.Ops {
		phase := fmt.Sprintf("after op %d (%s)", oi, op.K)
		var afterUpload bool
		if len(op.Par) > 0 {
			overlapped = true
			done := make(chan struct{}, len(op.Par)+1)
			all := append([]c16Op{op}, op.Par...)
			for _, p := range all {
				p := p
				p.Par = nil
				go func() {
					exec(p)
					done <- struct{}{}
				}()
			}
			for range all {
				<-done
			}
		} else {
			var err error
			afterUpload, err = exec(op)
			if err != nil {
				return res, err
			}
		}
		synctest.Wait()
		if err := check(phase, afterUpload, op.K == "upload"); err != nil {
			return res, err
		}
	}
	// final: stop traffic, upload, compare
	synctest.Wait()
	srv.sta.Panel.updateUsageQueue()
	srv.sta.Panel.commitUpdate()
	synctest.Wait()
	if err := check("after the final usage upload", true, true); err != nil {
		return res, err
	}
	// and once more: a second upload without traffic must not charge anything again
	srv.sta.Panel.updateUsageQueue()
	srv.sta.Panel.commitUpdate()
	synctest.Wait()
	if err := check("after a second upload without traffic", true, true); err != nil {
		return res, err
	}
	res.NonTrivial = overlapped
	if overlapped {
		res.Labels = append(res.Labels, "collection-and-commit-overlapped")
	}
	if sc.Bolt {
		res.Labels = append(res.Labels, "bolt-manager")
	}
	if serverClosed {
		res.Labels = append(res.Labels, "server-closed-a-live-session")
	}
	for _, m := range models {
		if m.terminatedEver {
			res.Labels = append(res.Labels, "user-terminated")
			break
		}
	}
	return res, nil
}

func c16Gen(rt *rapid.T) c16Scenario {
	sc := c16Scenario{Bolt: rapid.IntRange(0, 2).Draw(rt, "bolt") == 0, Users: rapid.IntRange(1, 3).Draw(rt, "users")}
	n := rapid.IntRange(3, 20).Draw(rt, "nops")
	nsesh := 0
	for i := 0; i < n; i++ {
		k := rapid.IntRange(0, 99).Draw(rt, "kind")
		switch {
		case k < 18 || nsesh == 0:
			sc.Ops = append(sc.Ops, c16Op{K: "session", U: rapid.IntRange(0, sc.Users-1).Draw(rt, "u"), N: rapid.IntRange(0, 2).Draw(rt, "nconn")})
			nsesh++
		case k < 50:
			sc.Ops = append(sc.Ops, c16Op{K: "traffic", I: rapid.IntRange(0, nsesh-1).Draw(rt, "i"), N: rapid.SampledFrom([]int{0, 10, 500, 4095, 4096, 20000, 70000}).Draw(rt, "n"), Echo: rapid.SampledFrom([]int{0, 255, 128, 30}).Draw(rt, "echo")})
		case k < 58:
			sc.Ops = append(sc.Ops, c16Op{K: "collect"})
		case k < 64:
			sc.Ops = append(sc.Ops, c16Op{K: "commit"})
		case k < 74:
			sc.Ops = append(sc.Ops, c16Op{K: "upload"})
		case k < 80:
			// two rounds at once, as regularQueueUpload may do
			sc.Ops = append(sc.Ops, c16Op{K: "collect", Par: []c16Op{{K: "commit"}, {K: "collect"}, {K: "commit"}}})
		case k == 80 || k == 81:
			sc.Ops = append(sc.Ops, c16Op{K: "halfopen", U: rapid.IntRange(0, sc.Users-1).Draw(rt, "hu")})
		case k < 83:
			sc.Ops = append(sc.Ops, c16Op{K: "closesession", I: rapid.IntRange(0, nsesh-1).Draw(rt, "ci")})
		case k < 86:
			sc.Ops = append(sc.Ops, c16Op{K: "proxyfail", I: rapid.IntRange(0, nsesh-1).Draw(rt, "pi")})
		case k < 91:
			sc.Ops = append(sc.Ops, c16Op{K: "topup", U: rapid.IntRange(0, sc.Users-1).Draw(rt, "tu"), N: rapid.IntRange(0, 1).Draw(rt, "dir"), Amt: rapid.Int64Range(1, 1000000).Draw(rt, "amt")})
		case k < 95:
			sc.Ops = append(sc.Ops, c16Op{K: "exhaust", U: rapid.IntRange(0, sc.Users-1).Draw(rt, "xu"), N: rapid.IntRange(0, 1).Draw(rt, "xdir"), Amt: rapid.Int64Range(0, 49).Draw(rt, "xamt")})
		case k < 96:
			// other rates, and the user connects again (a new session, or none if it is refused)
			ru := rapid.IntRange(0, sc.Users-1).Draw(rt, "ru")
			sc.Ops = append(sc.Ops, c16Op{K: "rates", U: ru, Amt: rapid.Int64Range(1, 1000000).Draw(rt, "ramt")})
			sc.Ops = append(sc.Ops, c16Op{K: "session", U: ru, N: rapid.IntRange(0, 2).Draw(rt, "rnconn")})
			nsesh++
		case k < 98:
			sc.Ops = append(sc.Ops, c16Op{K: "expire", U: rapid.IntRange(0, sc.Users-1).Draw(rt, "eu"), N: rapid.IntRange(0, 3).Draw(rt, "ev")})
		default:
			sc.Ops = append(sc.Ops, c16Op{K: "delete", U: rapid.IntRange(0, sc.Users-1).Draw(rt, "du")})
		}
	}
	return sc
}

func TestVerif_C16_Usage(t *testing.T) {
	vk.Run(t, "C16", "Usage", c16Gen, func(sc c16Scenario) (vk.Result, error) {
		var res vk.Result
		var verr error
		berr := vk.Bubble(t, func() {
			res, verr = vk.Protect(func() (vk.Result, error) { return c16Inner(sc) })
		})
		if verr == nil && berr != nil {
			verr = fmt.Errorf("harness: bubble: %v", berr)
		}
		return res, verr
	})
}
