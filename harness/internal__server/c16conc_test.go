package server

import (
	"bytes"
	"crypto/rand"
	"encoding/base64"
	"encoding/json"
	"fmt"
	"net/http"
	"net/http/httptest"
	"os"
	"path/filepath"
	"time"

	"github.com/cbeuw/Cloak/internal/common"
	"github.com/cbeuw/Cloak/internal/server/usermanager"
	"runtime"
	"sync"
	"sync/atomic"
	"testing"

	mux "github.com/cbeuw/Cloak/internal/multiplex"
	vk "github.com/cbeuw/Cloak/internal/verifkit"
	"pgregory.net/rapid"
)

// C16 (2) Concurrent, real time: usage is counted by the sessions' connection goroutines (valve.AddRx / AddTx, as
// switchboard.deplex and send do) at the same time as upload rounds collect and commit it. The user stays active
// throughout. After the traffic has stopped and one more upload has completed, stored credit must equal initial
// credit minus exactly what was counted, in both directions; at no moment may more have been deducted than counted.

type c16Conc struct {
	Counters int // goroutines counting traffic
	Adds     int // AddRx/AddTx calls per goroutine
	Chunk    int64
	Rounds   int // upload rounds running concurrently (each: collect + commit), back to back until the traffic stops
	Users    int
	// Admin: the real (bolt) user database is used and, while traffic is counted and uploaded, an administrator keeps
	// changing fields OTHER than the credits (sessions cap, rates, expiry) of the same users through the admin API
	Admin bool `json:",omitempty"`
}

func c16ConcRun(sc c16Conc) (vk.Result, error) {
	res := vk.Result{NonTrivial: true}
	fm := newFakeManager()
	var mgr usermanager.UserManager = fm
	var router *usermanager.APIRouter
	if sc.Admin {
		dir := c18TmpDir()
		defer os.RemoveAll(dir)
		lm, err := usermanager.MakeLocalManager(filepath.Join(dir, "userinfo.db"), common.WorldState{Rand: rand.Reader, Now: time.Now})
		if err != nil {
			return res, fmt.Errorf("harness: %v", err)
		}
		defer lm.Close()
		mgr = lm
		router = usermanager.APIRouterOf(lm)
	}
	panel := vPanel(mgr)
	const initial = int64(1) << 60
	type usr struct {
		rec      *ActiveUser
		uid      [16]byte
		up, down int64 // counted
	}
	users := make([]*usr, sc.Users)
	for i := range users {
		u := &usr{}
		copy(u.uid[:], c15UID(i))
		fm.users[u.uid] = &vFakeUser{UpRate: 1 << 40, DownRate: 1 << 40, UpCredit: initial, DownCredit: initial, Expiry: 1 << 40, Cap: 10}
		if sc.Admin {
			mgr.WriteUserInfo(usermanager.UserInfo{UID: u.uid[:], SessionsCap: usermanager.JustInt32(10), UpRate: usermanager.JustInt64(1 << 40), DownRate: usermanager.JustInt64(1 << 40),
				UpCredit: usermanager.JustInt64(initial), DownCredit: usermanager.JustInt64(initial), ExpiryTime: usermanager.JustInt64(1 << 40)})
		}
		rec, err := panel.GetUser(u.uid[:])
		if err != nil {
			return res, fmt.Errorf("harness: %v", err)
		}
		if _, _, err := rec.GetSession(1, mux.SessionConfig{}); err != nil {
			return res, fmt.Errorf("harness: %v", err)
		}
		u.rec = rec
		users[i] = u
	}
	var wg sync.WaitGroup
	var stop atomic.Bool
	var overcharged atomic.Value
	for g := 0; g < sc.Counters; g++ {
		wg.Add(1)
		go func(g int) {
			defer wg.Done()
			u := users[g%len(users)]
			for k := 0; k < sc.Adds; k++ {
				n := sc.Chunk + int64(k%7)
				if (k+g)%2 == 0 {
					// count first, then publish the total the oracle compares with (never ahead of the valve)
					u.rec.valve.AddRx(n)
					atomic.AddInt64(&u.up, n)
				} else {
					u.rec.valve.AddTx(n)
					atomic.AddInt64(&u.down, n)
				}
				if k%64 == 0 {
					runtime.Gosched()
				}
			}
		}(g)
	}
	var rwg sync.WaitGroup
	rounds, posts := int64(0), int64(0)
	for r := 0; r < sc.Rounds; r++ {
		rwg.Add(1)
		go func() {
			defer rwg.Done()
			for !stop.Load() {
				panel.updateUsageQueue()
				panel.commitUpdate()
				atomic.AddInt64(&rounds, 1)
				runtime.Gosched()
			}
		}()
	}
	if sc.Admin {
		rwg.Add(1)
		go func() {
			defer rwg.Done()
			for k := 0; !stop.Load(); k++ {
				u := users[k%len(users)]
				field := []string{"SessionsCap", "UpRate", "DownRate", "ExpiryTime"}[k%4]
				var v interface{} = int64(1<<40 + k)
				if field == "SessionsCap" {
					v = int32(10 + k%5)
				}
				body, _ := json.Marshal(map[string]interface{}{"UID": u.uid[:], field: v})
				req, _ := http.NewRequest("POST", "/admin/users/"+base64.URLEncoding.EncodeToString(u.uid[:]), bytes.NewReader(body))
				router.ServeHTTP(httptest.NewRecorder(), req)
				atomic.AddInt64(&posts, 1)
				runtime.Gosched()
			}
		}()
	}
	wg.Wait()
	stop.Store(true)
	rwg.Wait()
	// traffic has stopped: one more upload
	panel.updateUsageQueue()
	panel.commitUpdate()
	_ = overcharged
	for i, u := range users {
		fm.mu.Lock()
		up, down := fm.users[u.uid].UpCredit, fm.users[u.uid].DownCredit
		fm.mu.Unlock()
		if sc.Admin {
			ui, gerr := mgr.GetUserInfo(u.uid[:])
			if gerr != nil || ui.UpCredit == nil || ui.DownCredit == nil {
				return res, vk.Violatef("user %d: record unreadable after the run: %v", i, gerr)
			}
			up, down = *ui.UpCredit, *ui.DownCredit
		}
		cu, cd := initial-up, initial-down
		if cu != atomic.LoadInt64(&u.up) || cd != atomic.LoadInt64(&u.down) {
			kind := "undercharged"
			if cu > u.up || cd > u.down {
				kind = "overcharged"
			}
			return res, vk.ViolateSig(kind, "user %d stayed active, traffic stopped, an upload completed: charged %d/%d bytes (up/down), counted by its connections %d/%d - %d/%d bytes differ (%d upload rounds and %d admin updates of other fields ran while %d goroutines were counting)", i, cu, cd, u.up, u.down, u.up-cu, u.down-cd, atomic.LoadInt64(&rounds), atomic.LoadInt64(&posts), sc.Counters)
		}
	}
	for _, u := range users {
		u.rec.closeAllSessions("")
	}
	res.Labels = append(res.Labels, fmt.Sprintf("upload-rounds-during-traffic>=%d", bucket(atomic.LoadInt64(&rounds))))
	if sc.Admin {
		res.Labels = append(res.Labels, "admin-updates-during-traffic")
	}
	return res, nil
}

func bucket(n int64) int64 {
	b := int64(1)
	for b*10 <= n {
		b *= 10
	}
	if n == 0 {
		return 0
	}
	return b
}

func TestVerif_C16_Concurrent(t *testing.T) {
	vk.Run(t, "C16", "Concurrent", func(rt *rapid.T) c16Conc {
		return c16Conc{Counters: rapid.IntRange(1, 8).Draw(rt, "counters"), Adds: rapid.SampledFrom([]int{20000, 100000, 300000}).Draw(rt, "adds"), Chunk: rapid.SampledFrom([]int64{1, 1500, 16401}).Draw(rt, "chunk"),
			Rounds: rapid.IntRange(1, 3).Draw(rt, "rounds"), Users: rapid.IntRange(1, 3).Draw(rt, "users"), Admin: rapid.IntRange(0, 2).Draw(rt, "admin") == 0}
	}, func(sc c16Conc) (vk.Result, error) {
		return vk.Protect(func() (vk.Result, error) { return c16ConcRun(sc) })
	})
}
