package server

import (
	"encoding/base64"
	"fmt"
	"net"
	"runtime"
	"strings"
	"sync"
	"sync/atomic"
	"testing"
	"testing/synctest"
	"time"

	mux "github.com/cbeuw/Cloak/internal/multiplex"
	"github.com/cbeuw/Cloak/internal/server/usermanager"
	vk "github.com/cbeuw/Cloak/internal/verifkit"
	"pgregory.net/rapid"
)

// C17 - user bookkeeping never deadlocks and never loses track of a live session.

// ---- (1) lock order: operations overlapping at the schedule point usage.firstLockHeld ----

type c17Lock struct {
	Held   string   // operation parked at the point: "collect" (updateUsageQueue)
	Others []string // operations run while it is parked: commit collect getuser terminate isactive
	Users  int
}

func c17Panel(nUsers int) (*userPanel, *vFakeManager, []*ActiveUser) {
	fm := newFakeManager()
	panel := vPanel(fm)
	var users []*ActiveUser
	for i := 0; i < nUsers; i++ {
		uid := c15UID(i)
		var a [16]byte
		copy(a[:], uid)
		fm.users[a] = &vFakeUser{UpRate: 1 << 30, DownRate: 1 << 30, UpCredit: 1 << 50, DownCredit: 1 << 50, Expiry: 1 << 40, Cap: 10}
		u, err := panel.GetUser(uid)
		if err != nil {
			panic(err)
		}
		u.valve.AddRx(100)
		u.valve.AddTx(100)
		users = append(users, u)
	}
	return panel, fm, users
}

// c17StuckOnLocks reports whether the current goroutine dump shows operation goroutines parked in mutex acquisition.
func c17StuckOnLocks() (bool, string) {
	buf := make([]byte, 4<<20)
	n := runtime.Stack(buf, true)
	dump := string(buf[:n])
	stuck := 0
	var where []string
	for _, g := range strings.Split(dump, "\n\n") {
		if !strings.Contains(g, "internal/server.(*userPanel)") && !strings.Contains(g, "internal/server.(*ActiveUser)") {
			continue
		}
		if strings.Contains(g, "sync.(*Mutex).Lock") || strings.Contains(g, "sync.(*RWMutex).Lock") || strings.Contains(g, "sync.(*RWMutex).RLock") {
			stuck++
			for _, l := range strings.Split(g, "\n") {
				if strings.Contains(l, "internal/server.(*userPanel)") || strings.Contains(l, "internal/server.(*ActiveUser)") {
					where = append(where, strings.TrimSpace(strings.SplitN(l, "(0x", 2)[0]))
					break
				}
			}
		}
	}
	return stuck >= 2, strings.Join(where, " <-> ")
}

// c17WaitAll waits for all operations. A deadlock is declared only if nothing made progress for 10 s (finished
// operations and the optional progress counter both unchanged) AND two goroutine dumps one second apart show
// the same operation goroutines parked in mutex acquisition. Slow-but-moving runs are waited for (up to 10 min,
// then reported as inconclusive), so a loaded machine cannot produce a deadlock verdict.
func c17WaitAll(done []chan struct{}, what string, progress *int64) error {
	finished := func() int {
		n := 0
		for _, d := range done {
			select {
			case <-d:
				n++
			default:
			}
		}
		return n
	}
	start := time.Now()
	lastChange := time.Now()
	lastFin, lastProg := -1, int64(-1)
	for {
		fin := finished()
		if fin == len(done) {
			return nil
		}
		var prog int64
		if progress != nil {
			prog = atomic.LoadInt64(progress)
		}
		if fin != lastFin || prog != lastProg {
			lastFin, lastProg, lastChange = fin, prog, time.Now()
		}
		if time.Since(lastChange) > 10*time.Second {
			s1, w1 := c17StuckOnLocks()
			time.Sleep(time.Second)
			s2, w2 := c17StuckOnLocks()
			var prog2 int64
			if progress != nil {
				prog2 = atomic.LoadInt64(progress)
			}
			if s1 && s2 && w1 == w2 && finished() == fin && prog2 == prog {
				return vk.ViolateSig("deadlock", "%s: bookkeeping operations block each other for ever (lock cycle, no progress for %v): %s", what, time.Since(lastChange).Round(time.Second), w1)
			}
			// a single operation queued on a lock while every goroutine inside the code under test is blocked in the
			// same place in two dumps: the lock's holder is gone (returned without releasing it) or will never move
			if w1 != "" && w1 == w2 && finished() == fin && prog2 == prog {
				if ok, where := vk.StuckForGood(time.Second); ok && finished() == fin {
					return vk.ViolateSig("deadlock", "%s: a bookkeeping operation blocks for ever on a lock nobody will release (no progress for %v; every goroutine in the code under test is blocked: %s)", what, time.Since(lastChange).Round(time.Second), where)
				}
			}
		}
		if time.Since(start) > 10*time.Minute {
			return fmt.Errorf("harness: operations did not finish within 10 minutes but no stable lock cycle is visible (inconclusive)")
		}
		time.Sleep(50 * time.Millisecond)
	}
}

func c17LockRun(sc c17Lock) (vk.Result, error) {
	res := vk.Result{NonTrivial: true}
	panel, _, users := c17Panel(sc.Users)
	// pending usage so that commitUpdate takes its full path
	panel.updateUsageQueue()
	for _, u := range users {
		u.valve.AddRx(7)
	}
	h := vArm("usage.firstLockHeld")
	defer h.Release()
	var done []chan struct{}
	run := func(f func()) {
		d := make(chan struct{})
		done = append(done, d)
		go func() { defer close(d); f() }()
	}
	run(func() { panel.updateUsageQueue() })
	select {
	case <-h.Reached:
	case <-time.After(10 * time.Second):
		return res, fmt.Errorf("harness: schedule point usage.firstLockHeld not reached")
	}
	for _, o := range sc.Others {
		switch o {
		case "commit":
			run(func() { panel.commitUpdate() })
			res.Labels = append(res.Labels, "commit-overlaps-collection")
		case "collect":
			run(func() { panel.updateUsageQueue() })
		case "getuser":
			run(func() { panel.GetUser(c15UID(0)) })
		case "isactive":
			run(func() { panel.isActive(c15UID(0)) })
		case "terminate":
			u := users[len(users)-1]
			run(func() { panel.TerminateActiveUser(u, "test") })
		}
	}
	// let the others reach whatever they block on, then let the parked collection continue
	time.Sleep(20 * time.Millisecond)
	h.Release()
	if err := c17WaitAll(done, "usage collection overlapping "+strings.Join(sc.Others, "+"), nil); err != nil {
		return res, err
	}
	return res, nil
}

func TestVerif_C17_LockOrder(t *testing.T) {
	vk.Run(t, "C17", "LockOrder", func(rt *rapid.T) c17Lock {
		sc := c17Lock{Held: "collect", Users: rapid.IntRange(1, 3).Draw(rt, "users")}
		n := rapid.IntRange(1, 4).Draw(rt, "nothers")
		for i := 0; i < n; i++ {
			sc.Others = append(sc.Others, rapid.SampledFrom([]string{"commit", "commit", "collect", "getuser", "isactive", "terminate"}).Draw(rt, "other"))
		}
		return sc
	}, c17LockRun)
}

// ---- (2) plain contention: the periodic upload running twice at once, with admissions and terminations ----

type c17Stress struct {
	Goroutines int
	Iterations int
	Users      int
}

func TestVerif_C17_Contention(t *testing.T) {
	vk.Run(t, "C17", "Contention", func(rt *rapid.T) c17Stress {
		return c17Stress{Goroutines: rapid.IntRange(2, 12).Draw(rt, "g"), Iterations: rapid.IntRange(200, 3000).Draw(rt, "it"), Users: rapid.IntRange(1, 4).Draw(rt, "users")}
	}, func(sc c17Stress) (vk.Result, error) {
		res := vk.Result{NonTrivial: true}
		panel, _, users := c17Panel(sc.Users)
		var done []chan struct{}
		var ops int64
		for g := 0; g < sc.Goroutines; g++ {
			d := make(chan struct{})
			done = append(done, d)
			go func(g int) {
				defer close(d)
				for i := 0; i < sc.Iterations; i++ {
					switch (g + i) % 4 {
					case 0, 1:
						// what regularQueueUpload does every minute (two rounds may overlap)
						for _, u := range users {
							u.valve.AddRx(1)
						}
						panel.updateUsageQueue()
						panel.commitUpdate()
					case 2:
						panel.GetUser(c15UID(i % sc.Users))
					default:
						panel.isActive(c15UID(i % sc.Users))
					}
					atomic.AddInt64(&ops, 1)
				}
			}(g)
		}
		if err := c17WaitAll(done, fmt.Sprintf("%d goroutines running upload rounds and admissions", sc.Goroutines), &ops); err != nil {
			return res, err
		}
		res.Count = 1
		return res, nil
	})
}

// ---- (3) a connection arriving while its user's last session closes (schedule point dispatch.userResolved) ----

type c17Op struct {
	K    string `json:"k"`             // connect | release | drop | upload | exhaust | topup
	U    int    `json:"u,omitempty"`   // user
	Sid  uint32 `json:"sid,omitempty"` // session id
	Hold bool   `json:"hold,omitempty"`
	I    int    `json:"i,omitempty"` // client index for drop
}

type c17Scenario struct {
	Users int
	Ops   []c17Op
}

type c17Client struct {
	u      int
	sid    uint32
	conn   net.Conn
	key    [32]byte
	ok     bool
	done   chan struct{}
	reader chan error // result of a parked read on the connection (nil while alive)
	closed bool
	held   bool
}

func c17OrphanInner(sc c17Scenario) (vk.Result, error) {
	res := vk.Result{}
	fm := newFakeManager()
	for i := 0; i < sc.Users; i++ {
		var a [16]byte
		copy(a[:], c15UID(i))
		fm.users[a] = &vFakeUser{UpRate: 1 << 30, DownRate: 1 << 30, UpCredit: 1 << 50, DownCredit: 1 << 50, Expiry: 1 << 40, Cap: 50}
	}
	srv := newVSrv(vSrvOpts{Manager: fm, Methods: []string{"shadowsocks"}, AutoNet: true})
	defer srv.stop()
	srv.serve()
	var clients []*c17Client
	var hold *vHold
	var heldClient *c17Client
	resumedAfterTermination := false
	defer func() {
		if hold != nil {
			hold.Release()
		}
		for _, c := range clients {
			c.conn.Close()
		}
	}()

	alive := func(c *c17Client) bool {
		if !c.ok || c.closed {
			return false
		}
		select {
		case <-c.reader:
			c.closed = true
			return false
		default:
			return true
		}
	}
	check := func(phase string) error {
		for ci, c := range clients {
			select {
			case <-c.done:
			default:
				continue // handshake still in flight (held)
			}
			if c.ok && c.reader == nil {
				// park a reader on the connection: it returns when the server closes the connection
				c.reader = make(chan error, 1)
				tc := c.conn
				rch := c.reader
				go func() {
					buf := make([]byte, 64)
					_, err := tc.Read(buf)
					rch <- err
				}()
				synctest.Wait()
			}
			if !alive(c) {
				continue
			}
			var arr [16]byte
			copy(arr[:], c15UID(c.u))
			srv.sta.Panel.activeUsersM.RLock()
			user := srv.sta.Panel.activeUsers[arr]
			srv.sta.Panel.activeUsersM.RUnlock()
			if user == nil {
				return vk.ViolateSig("orphan-session", "%s: client %d holds a live session (user %d, session id %d) but the server has no active record of that user: its usage is not reported and it cannot be terminated", phase, ci, c.u, c.sid)
			}
			user.sessionsM.RLock()
			sesh := user.sessions[c.sid]
			user.sessionsM.RUnlock()
			if sesh == nil || sesh.GetSessionKey() != c.key || sesh.IsClosed() {
				return vk.ViolateSig("orphan-session", "%s: client %d holds a live session (user %d, session id %d) that is not owned by the user's active record (record has it: %v)", phase, ci, c.u, c.sid, sesh != nil)
			}
		}
		return nil
	}

	for oi, op := range sc.Ops {
		phase := fmt.Sprintf("after op %d (%s)", oi, op.K)
		switch op.K {
		case "connect":
			u := op.U % sc.Users
			cfg := vClientCfg{UID: base64.StdEncoding.EncodeToString(c15UID(u)), Method: "shadowsocks", Enc: "plain", NumConn: 1, Browser: "firefox", Transport: "direct", ServerName: "www.example.com"}
			_, remote, auth, err := vMustProcess(cfg, srv.pub, time.Now)
			if err != nil {
				return res, fmt.Errorf("harness: %v", err)
			}
			auth.SessionId = op.Sid
			c := &c17Client{u: u, sid: op.Sid, done: make(chan struct{})}
			if op.Hold && hold == nil {
				hold = vArm("dispatch.userResolved")
				c.held = true
				heldClient = c
			}
			tr := remote.Transport.CreateTransport()
			conn, _ := srv.dialer().Dial("tcp", "x")
			c.conn = conn
			clients = append(clients, c)
			go func() {
				defer close(c.done)
				k, err := tr.Handshake(conn, auth)
				if err == nil {
					c.key, c.ok = k, true
					c.conn = tr
				}
			}()
		case "release":
			if hold != nil {
				// was the user's record terminated while the connection was parked?
				if heldClient != nil {
					var arr [16]byte
					copy(arr[:], c15UID(heldClient.u))
					srv.sta.Panel.activeUsersM.RLock()
					_, still := srv.sta.Panel.activeUsers[arr]
					srv.sta.Panel.activeUsersM.RUnlock()
					if !still && hold.IsReached() {
						resumedAfterTermination = true
					}
				}
				hold.Release()
				hold = nil
				heldClient = nil
			}
		case "drop":
			if len(clients) == 0 {
				continue
			}
			c := clients[op.I%len(clients)]
			select {
			case <-c.done:
				c.closed = true
				c.conn.Close()
			default:
			}
		case "upload":
			srv.sta.Panel.updateUsageQueue()
			srv.sta.Panel.commitUpdate()
		case "exhaust":
			var a [16]byte
			copy(a[:], c15UID(op.U%sc.Users))
			fm.mu.Lock()
			fm.users[a].UpCredit = 0
			fm.mu.Unlock()
			srv.sta.Panel.updateUsageQueue()
			srv.sta.Panel.commitUpdate()
		case "topup":
			var a [16]byte
			copy(a[:], c15UID(op.U%sc.Users))
			fm.mu.Lock()
			fm.users[a].UpCredit = 1 << 50
			fm.mu.Unlock()
		}
		synctest.Wait()
		if hold == nil || op.K != "connect" {
			if err := check(phase); err != nil {
				return res, err
			}
		}
	}
	if hold != nil {
		hold.Release()
		hold = nil
		synctest.Wait()
		if err := check("after the final release"); err != nil {
			return res, err
		}
	}
	// a terminated user has no live session
	for u := 0; u < sc.Users; u++ {
		var arr [16]byte
		copy(arr[:], c15UID(u))
		srv.sta.Panel.activeUsersM.RLock()
		_, active := srv.sta.Panel.activeUsers[arr]
		srv.sta.Panel.activeUsersM.RUnlock()
		if !active {
			for ci, c := range clients {
				if c.u == u && alive(c) {
					return res, vk.ViolateSig("orphan-session", "user %d has no active record (terminated) but client %d still holds a live session", u, ci)
				}
			}
		}
	}
	res.NonTrivial = resumedAfterTermination
	if resumedAfterTermination {
		res.Labels = append(res.Labels, "dispatch-resumed-after-user-terminated")
	}
	_ = usermanager.TERMINATE
	_ = mux.ErrBrokenSession
	return res, nil
}

func c17OrphanGen(rt *rapid.T) c17Scenario {
	sc := c17Scenario{Users: rapid.IntRange(1, 2).Draw(rt, "users")}
	sids := []uint32{1, 2, 3, 4}
	n := rapid.IntRange(2, 14).Draw(rt, "nops")
	holding := false
	nclients := 0
	if rapid.IntRange(0, 9).Draw(rt, "pattern") < 6 {
		// the targeted shape: a second connection is parked after resolving the user, the user's only session goes away
		u := rapid.IntRange(0, sc.Users-1).Draw(rt, "pu")
		sc.Ops = append(sc.Ops, c17Op{K: "connect", U: u, Sid: 1}, c17Op{K: "connect", U: u, Sid: rapid.SampledFrom([]uint32{1, 2}).Draw(rt, "psid"), Hold: true})
		if rapid.Bool().Draw(rt, "viaExhaust") {
			sc.Ops = append(sc.Ops, c17Op{K: "exhaust", U: u}, c17Op{K: "topup", U: u})
		} else {
			sc.Ops = append(sc.Ops, c17Op{K: "drop", I: 0})
		}
		sc.Ops = append(sc.Ops, c17Op{K: "release"})
		nclients = 2
		if rapid.Bool().Draw(rt, "successor") {
			sc.Ops = append(sc.Ops, c17Op{K: "connect", U: u, Sid: 3}, c17Op{K: "drop", I: 1})
			nclients = 3
		}
	}
	for i := 0; i < n; i++ {
		k := rapid.IntRange(0, 99).Draw(rt, "kind")
		switch {
		case k < 40:
			op := c17Op{K: "connect", U: rapid.IntRange(0, sc.Users-1).Draw(rt, "u"), Sid: rapid.SampledFrom(sids).Draw(rt, "sid")}
			if !holding && nclients > 0 && rapid.IntRange(0, 2).Draw(rt, "hold") > 0 {
				op.Hold = true
				holding = true
			}
			nclients++
			sc.Ops = append(sc.Ops, op)
		case k < 65 && nclients > 0:
			sc.Ops = append(sc.Ops, c17Op{K: "drop", I: rapid.IntRange(0, nclients-1).Draw(rt, "i")})
		case k < 80 && holding:
			sc.Ops = append(sc.Ops, c17Op{K: "release"})
			holding = false
		case k < 88:
			sc.Ops = append(sc.Ops, c17Op{K: "upload"})
		case k < 94:
			sc.Ops = append(sc.Ops, c17Op{K: "exhaust", U: rapid.IntRange(0, sc.Users-1).Draw(rt, "eu")})
		default:
			sc.Ops = append(sc.Ops, c17Op{K: "topup", U: rapid.IntRange(0, sc.Users-1).Draw(rt, "tu")})
		}
	}
	return sc
}

func TestVerif_C17_Orphan(t *testing.T) {
	vk.Run(t, "C17", "Orphan", c17OrphanGen, func(sc c17Scenario) (vk.Result, error) {
		var res vk.Result
		var verr error
		berr := vk.Bubble(t, func() {
			res, verr = vk.Protect(func() (vk.Result, error) { return c17OrphanInner(sc) })
		})
		if verr == nil && berr != nil {
			verr = fmt.Errorf("harness: bubble: %v", berr)
		}
		return res, verr
	})
}

var _ = sync.Mutex{}
