package server

import (
	"fmt"
	"runtime"
	"sync"
	"testing"
	"testing/synctest"

	mux "github.com/cbeuw/Cloak/internal/multiplex"
	vk "github.com/cbeuw/Cloak/internal/verifkit"
	"pgregory.net/rapid"
)

// C17 (4) Records: the bookkeeping operations as the server's goroutines issue them, one at a time but in any order
// and arbitrarily late - in particular on a record that has meanwhile been replaced: the goroutine serving a
// session reports its end (ActiveUser.CloseSession) whenever it gets round to it, and an upload round terminates
// the record it resolved earlier. After every operation: each live session of a limited user belongs to the record
// registered for its UID and is listed there; a record that is not registered has no live session.

type c17rOp struct {
	K   string // connect connect|| upload-fails lateclose peerclose terminate upload exhaust topup connect+close connect+upload admin-edit
	U   int
	Sid uint32
	I   int
}

type c17rCase struct {
	Users int
	Ops   []c17rOp
}

func c17rRun(sc c17rCase) (vk.Result, error) {
	res := vk.Result{}
	fm := newFakeManager()
	panel := vPanel(fm)
	for i := 0; i < sc.Users; i++ {
		var a [16]byte
		copy(a[:], c15UID(i))
		fm.users[a] = &vFakeUser{UpRate: 1 << 30, DownRate: 1 << 30, UpCredit: 1 << 50, DownCredit: 1 << 50, Expiry: 1 << 40, Cap: 10}
	}
	type rec struct {
		u int
		r *ActiveUser
	}
	type ses struct {
		rec int
		sid uint32
		s   *mux.Session
	}
	var recs []rec
	var sess []ses
	staleOp, duringAuth, simultaneous, uploadFailed, adminEdit := false, false, false, false, false
	fm.userYield = 300
	cfg := mux.SessionConfig{Obfuscator: mux.Obfuscator{}, Valve: nil, Unordered: false}
	var bk sync.Mutex // guards recs and sess while admissions run in parallel
	connect := func(u int, sid uint32, phase string, par bool) error {
		for {
			r, err := panel.GetUser(c15UID(u))
			if err != nil {
				return nil // exhausted user: refused
			}
			s, existing, err := r.GetSession(sid, cfg)
			if err == ErrUserTerminated {
				if !par {
					return vk.Violatef("%s: the record registered for user %d is a terminated one: the user cannot connect any more", phase, u)
				}
				continue // as dispatchConnection does
			}
			bk.Lock()
			ri := -1
			for j := range recs {
				if recs[j].r == r {
					ri = j
				}
			}
			if ri < 0 {
				recs = append(recs, rec{u, r})
				ri = len(recs) - 1
			}
			if err == nil && !existing {
				sess = append(sess, ses{ri, sid, s})
			}
			bk.Unlock()
			return nil // err != nil: refused by the user manager (no credit, cap)
		}
	}
	check := func(phase string) error {
		for i, s := range sess {
			if s.s.IsClosed() {
				continue
			}
			r := recs[s.rec]
			var a [16]byte
			copy(a[:], c15UID(r.u))
			panel.activeUsersM.RLock()
			reg := panel.activeUsers[a]
			panel.activeUsersM.RUnlock()
			if reg != r.r {
				return vk.ViolateSig("orphan-session", "%s: session #%d (user %d, id %d) is live but its record is not the one registered for the user (registered: %v) - its usage is not reported and it cannot be terminated", phase, i, r.u, s.sid, reg != nil)
			}
			r.r.sessionsM.RLock()
			listed := r.r.sessions[s.sid] == s.s
			r.r.sessionsM.RUnlock()
			if !listed {
				return vk.ViolateSig("orphan-session", "%s: session #%d (user %d, id %d) is live but not listed in its user's record", phase, i, r.u, s.sid)
			}
		}
		return nil
	}
	for i, op := range sc.Ops {
		phase := fmt.Sprintf("after op %d (%s)", i, op.K)
		switch op.K {
		case "connect", "connect+close", "connect+upload":
			if op.K == "connect+upload" {
				// while this admission's authorisation query runs (the user's record is busy admitting), an upload round
				// comes by
				fm.mu.Lock()
				fm.onAuthorise = func() {
					go func() {
						panel.updateUsageQueue()
						panel.commitUpdate()
					}()
					for k := 0; k < 300; k++ {
						runtime.Gosched()
					}
				}
				fm.mu.Unlock()
				duringAuth = true
			}
			if op.K == "connect+close" && len(sess) > 0 {
				// while this admission's authorisation query runs, the goroutine serving another session reports its end
				s := sess[op.I%len(sess)]
				fm.mu.Lock()
				fm.onAuthorise = func() {
					go recs[s.rec].r.CloseSession(s.sid, "")
					for k := 0; k < 200; k++ {
						runtime.Gosched()
					}
				}
				fm.mu.Unlock()
				duringAuth = true
			}
			u := op.U % sc.Users
			if err := connect(u, op.Sid, phase, op.K != "connect"); err != nil {
				return res, err
			}
		case "connect||":
			// two connections of one user with different session ids are admitted at the same time (the user database
			// "takes a while": the fake yields inside AuthenticateUser until the second caller arrives)
			u := op.U % sc.Users
			var cerr [2]error
			var cwg sync.WaitGroup
			for k := 0; k < 2; k++ {
				cwg.Add(1)
				go func(k int) {
					defer cwg.Done()
					cerr[k] = connect(u, op.Sid+uint32(k), phase, true)
				}(k)
			}
			cwg.Wait()
			simultaneous = true
			for _, e := range cerr {
				if e != nil {
					return res, e
				}
			}
		case "lateclose":
			if len(sess) == 0 {
				continue
			}
			s := sess[op.I%len(sess)]
			if s.rec != len(recs)-1 {
				staleOp = true
			}
			recs[s.rec].r.CloseSession(s.sid, "")
		case "peerclose":
			if len(sess) == 0 {
				continue
			}
			sess[op.I%len(sess)].s.Close()
		case "terminate":
			if len(recs) == 0 {
				continue
			}
			ri := op.I % len(recs)
			for j := ri + 1; j < len(recs); j++ {
				if recs[j].u == recs[ri].u {
					staleOp = true
				}
			}
			panel.TerminateActiveUser(recs[ri].r, "terminated by an upload round")
		case "upload":
			panel.updateUsageQueue()
			panel.commitUpdate()
		case "upload-fails":
			// the user database is unavailable for one round: the round fails, everything else must go on
			fm.mu.Lock()
			fm.failUploads = 1
			fm.mu.Unlock()
			for _, r := range recs {
				r.r.valve.AddRx(10)
			}
			panel.updateUsageQueue()
			if err := panel.commitUpdate(); err != nil {
				uploadFailed = true
			}
			fm.mu.Lock()
			fm.failUploads = 0
			fm.mu.Unlock()
		case "exhaust", "topup":
			var a [16]byte
			copy(a[:], c15UID(op.U%sc.Users))
			fm.mu.Lock()
			if op.K == "exhaust" {
				fm.users[a].UpCredit = 0
			} else {
				fm.users[a].UpCredit = 1 << 50
			}
			fm.mu.Unlock()
		case "admin-edit":
			// an administrator changes the user's record in the database while the user may be active: other rates,
			// another cap, a later expiry. The user stays authorised; whatever the server does with the new values, the
			// user's live sessions stay with the one record the server knows
			var a [16]byte
			copy(a[:], c15UID(op.U%sc.Users))
			fm.mu.Lock()
			fu := fm.users[a]
			switch op.I % 4 {
			case 0:
				fu.UpRate, fu.DownRate = int64(1<<20+op.I), int64(1<<21+op.I)
			case 1:
				fu.DownRate = int64(1<<22 + op.I)
			case 2:
				fu.Cap = 12 + op.I
			case 3:
				fu.Expiry = 1<<40 + int64(op.I)
			}
			fm.mu.Unlock()
			adminEdit = true
		}
		synctest.Wait()
		if err := check(phase); err != nil {
			return res, err
		}
	}
	for _, s := range sess {
		s.s.Close()
	}
	res.NonTrivial = staleOp || duringAuth || simultaneous
	if simultaneous {
		res.Labels = append(res.Labels, "simultaneous-admissions-of-one-user")
	}
	if uploadFailed {
		res.Labels = append(res.Labels, "an-upload-round-failed")
	}
	if adminEdit {
		res.Labels = append(res.Labels, "record-edited-by-an-administrator-meanwhile")
	}
	if duringAuth {
		res.Labels = append(res.Labels, "session-end-reported-during-an-authorisation-query")
	}
	fm.mu.Lock()
	fm.onAuthorise = nil
	fm.mu.Unlock()
	if staleOp {
		res.Labels = append(res.Labels, "operation-on-a-replaced-record")
	}
	return res, nil
}

func TestVerif_C17_Records(t *testing.T) {
	vk.Run(t, "C17", "Records", func(rt *rapid.T) c17rCase {
		sc := c17rCase{Users: rapid.IntRange(1, 2).Draw(rt, "users")}
		n := rapid.IntRange(2, 16).Draw(rt, "nops")
		for i := 0; i < n; i++ {
			k := rapid.IntRange(0, 99).Draw(rt, "kind")
			op := c17rOp{U: rapid.IntRange(0, sc.Users-1).Draw(rt, "u"), Sid: rapid.Uint32Range(1, 3).Draw(rt, "sid"), I: rapid.IntRange(0, 7).Draw(rt, "i")}
			switch {
			case k < 20:
				op.K = "connect"
			case k < 25:
				op.K = "connect||"
			case k < 31:
				op.K = "connect+close"
			case k < 35:
				op.K = "connect+upload"
			case k < 55:
				op.K = "lateclose"
			case k < 65:
				op.K = "peerclose"
			case k < 80:
				op.K = "terminate"
			case k < 85:
				op.K = "upload"
			case k < 88:
				op.K = "upload-fails"
			case k < 92:
				op.K = "exhaust"
			case k < 95:
				op.K = "topup"
			default:
				op.K = "admin-edit"
			}
			sc.Ops = append(sc.Ops, op)
		}
		return sc
	}, func(sc c17rCase) (vk.Result, error) {
		var res vk.Result
		var verr error
		berr := vk.Bubble(t, func() {
			res, verr = vk.Protect(func() (vk.Result, error) { return c17rRun(sc) })
		})
		if verr == nil && berr != nil {
			verr = fmt.Errorf("harness: bubble: %v", berr)
		}
		return res, verr
	})
}
