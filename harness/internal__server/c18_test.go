package server

import (
	"bytes"
	"encoding/base64"
	"encoding/json"
	"fmt"
	"net/http"
	"net/http/httptest"
	"os"
	"path/filepath"
	"testing"
	"time"

	"github.com/cbeuw/Cloak/internal/common"
	mux "github.com/cbeuw/Cloak/internal/multiplex"
	"github.com/cbeuw/Cloak/internal/server/usermanager"
	vk "github.com/cbeuw/Cloak/internal/verifkit"
	"pgregory.net/rapid"
)

// C18 - the user database + admin API behave as a keyed store (partial updates keep other fields, rejected
// requests change nothing, deletes delete, state survives reopen) and no record the API can create makes the
// server panic when its owner connects, is listed, or has usage uploaded.

var c18Fields = []string{"SessionsCap", "UpRate", "DownRate", "UpCredit", "DownCredit", "ExpiryTime"}

type c18Op struct {
	K    string   `json:"k"` // post badpost get list delete reopen connect upload
	U    int      `json:"u"`
	Set  [6]bool  `json:"set,omitempty"`
	Val  [6]int64 `json:"val,omitempty"`
	Bad  string   `json:"bad,omitempty"` // mismatch garbage notb64 empty illtyped
	Up   int64    `json:"up,omitempty"`
	Down int64    `json:"down,omitempty"`
	Via  string   `json:"via,omitempty"` // upload: "manager" or "panel"
}

type c18Scenario struct {
	Ops []c18Op
}

type c18Rec struct {
	set [6]bool
	val [6]int64
}

var c18Now = time.Unix(1700000000, 0)

// c18NUsers: users 0..3 have 16-byte UIDs (what clients present); users 4 and 5 are records an administrator created
// under a UID of another length (the API accepts any): a 3-byte one and a 20-byte one that extends user 0's UID.
// They take part in the store operations only - no client can connect as them.
const c18NUsers = 6

func c18UID(i int) []byte {
	u := []byte("c18-user-0000000")
	u[15] = byte('0' + i)
	switch i {
	case 4:
		return []byte("c18")
	case 5:
		return append(c18UID(0), 'l', 'o', 'n', 'g')
	}
	return u
}

func c18TmpDir() string {
	if st, err := os.Stat("/dev/shm"); err == nil && st.IsDir() {
		if d, err := os.MkdirTemp("/dev/shm", "verif-c18-"); err == nil {
			return d
		}
	}
	d, _ := os.MkdirTemp(".", "verif-c18-")
	return d
}

type c18Env struct {
	dir    string
	path   string
	mgr    usermanager.UserManager
	closer interface{ Close() error }
	router *usermanager.APIRouter
	panel  *userPanel
}

func (e *c18Env) open() error {
	m, err := usermanager.MakeLocalManager(e.path, common.WorldOfTime(c18Now))
	if err != nil {
		return err
	}
	e.mgr = m
	e.closer = m
	e.router = usermanager.APIRouterOf(m)
	e.panel = vPanel(m)
	return nil
}

func (e *c18Env) do(method, url string, body []byte) (int, []byte) {
	req, _ := http.NewRequest(method, url, bytes.NewReader(body))
	rr := httptest.NewRecorder()
	e.router.ServeHTTP(rr, req)
	return rr.Code, rr.Body.Bytes()
}

func c18Decode(b []byte) (map[string]*int64, []byte, error) {
	var raw map[string]json.RawMessage
	if err := json.Unmarshal(b, &raw); err != nil {
		return nil, nil, err
	}
	out := map[string]*int64{}
	for _, f := range c18Fields {
		r, ok := raw[f]
		if !ok || string(r) == "null" {
			out[f] = nil
			continue
		}
		var v int64
		if err := json.Unmarshal(r, &v); err != nil {
			return nil, nil, err
		}
		out[f] = &v
	}
	var uid []byte
	if r, ok := raw["UID"]; ok {
		json.Unmarshal(r, &uid)
	}
	return out, uid, nil
}

func c18Compare(what string, got map[string]*int64, want *c18Rec) error {
	for i, f := range c18Fields {
		g := got[f]
		if want.set[i] {
			if g == nil || *g != want.val[i] {
				return vk.ViolateSig("store-mismatch", "%s: field %s reads %s, the operation sequence implies %d", what, f, pstr(g), want.val[i])
			}
		} else if g != nil && *g != 0 {
			return vk.ViolateSig("store-mismatch", "%s: field %s was never written but reads %d", what, f, *g)
		}
	}
	return nil
}

func pstr(p *int64) string {
	if p == nil {
		return "null"
	}
	return fmt.Sprint(*p)
}

// c18CheckAll reads every UID through GET and the list and compares with the model.
func c18CheckAll(e *c18Env, model map[int]*c18Rec, phase string) error {
	for u := 0; u < c18NUsers; u++ {
		code, body := e.do("GET", "/admin/users/"+base64.URLEncoding.EncodeToString(c18UID(u)), nil)
		rec := model[u]
		if rec == nil {
			if code != http.StatusNotFound {
				return vk.ViolateSig("store-mismatch", "%s: GET of a user that does not exist (never created or deleted) returns %d, want 404", phase, code)
			}
			continue
		}
		if code != 200 {
			return vk.ViolateSig("store-mismatch", "%s: GET of existing user %d returns %d: %s", phase, u, code, body)
		}
		got, uid, err := c18Decode(body)
		if err != nil {
			return vk.Violatef("%s: GET returned undecodable JSON %q: %v", phase, body, err)
		}
		if !bytes.Equal(uid, c18UID(u)) {
			return vk.Violatef("%s: GET returned UID %q for user %d", phase, uid, u)
		}
		if err := c18Compare(fmt.Sprintf("%s: GET user %d", phase, u), got, rec); err != nil {
			return err
		}
	}
	code, body := e.do("GET", "/admin/users", nil)
	if code != 200 {
		return vk.ViolateSig("store-mismatch", "%s: listing users returns %d: %s", phase, code, body)
	}
	var list []json.RawMessage
	if err := json.Unmarshal(body, &list); err != nil {
		return vk.Violatef("%s: list returned undecodable JSON: %v", phase, err)
	}
	if len(list) != len(model) {
		return vk.ViolateSig("store-mismatch", "%s: list has %d users, the operation sequence implies %d", phase, len(list), len(model))
	}
	for _, item := range list {
		got, uid, err := c18Decode(item)
		if err != nil {
			return vk.Violatef("%s: list item undecodable: %v", phase, err)
		}
		found := false
		for u, rec := range model {
			if bytes.Equal(uid, c18UID(u)) {
				found = true
				if err := c18Compare(fmt.Sprintf("%s: list entry of user %d", phase, u), got, rec); err != nil {
					return err
				}
			}
		}
		if !found {
			return vk.ViolateSig("store-mismatch", "%s: list contains user %q that should not exist", phase, uid)
		}
	}
	return nil
}

// c18Run executes the scenario inside a synctest bubble: users with tiny rates make the session-closing
// frame wait minutes in the token bucket, which must cost virtual time only.
func c18Run(t *testing.T) func(sc c18Scenario) (vk.Result, error) {
	return func(sc c18Scenario) (res vk.Result, err error) {
		berr := vk.Bubble(t, func() {
			res, err = vk.Protect(func() (vk.Result, error) { return c18RunInner(sc) })
		})
		if err == nil && berr != nil {
			err = fmt.Errorf("harness: bubble: %v", berr)
		}
		return
	}
}

func c18RunInner(sc c18Scenario) (res vk.Result, err error) {
	e := &c18Env{dir: c18TmpDir()}
	defer os.RemoveAll(e.dir)
	e.path = filepath.Join(e.dir, "userinfo.db")
	if oerr := e.open(); oerr != nil {
		return res, fmt.Errorf("harness: open db: %v", oerr)
	}
	defer func() {
		if e.closer != nil {
			// a panic inside a bolt transaction leaves the database locked: closing would block
			if err == nil {
				e.closer.Close()
			}
		}
	}()
	model := map[int]*c18Rec{}
	partial, rejected, reopened := false, false, false
	for i, op := range sc.Ops {
		phase := fmt.Sprintf("after op %d (%s user %d)", i, op.K, op.U)
		uid := c18UID(op.U)
		url := "/admin/users/" + base64.URLEncoding.EncodeToString(uid)
		switch op.K {
		case "post":
			body := map[string]interface{}{"UID": uid}
			nset := 0
			for f := range c18Fields {
				if op.Set[f] {
					nset++
					if f == 0 {
						body[c18Fields[f]] = int32(op.Val[f])
					} else {
						body[c18Fields[f]] = op.Val[f]
					}
				}
			}
			if nset < 6 {
				partial = true
			}
			b, _ := json.Marshal(body)
			code, rb := e.do("POST", url, b)
			if code/100 != 2 {
				return res, vk.Violatef("%s: a well-formed POST was answered with %d: %s", phase, code, rb)
			}
			rec := model[op.U]
			if rec == nil {
				rec = &c18Rec{}
				model[op.U] = rec
			}
			for f := range c18Fields {
				if op.Set[f] {
					rec.set[f] = true
					rec.val[f] = op.Val[f]
					if f == 0 {
						rec.val[f] = int64(int32(op.Val[f]))
					}
				}
			}
		case "badpost":
			rejected = true
			var code int
			switch op.Bad {
			case "mismatch":
				other := c18UID((op.U + 1) % 4)
				b, _ := json.Marshal(map[string]interface{}{"UID": other, "UpCredit": op.Val[3], "SessionsCap": int32(op.Val[0])})
				code, _ = e.do("POST", url, b)
			case "illtyped":
				// syntactically valid, right UID, well-formed values for some fields - and one value that does not fit its
				// field's type. encoding/json keeps filling the other fields after such an error.
				bads := []string{`"SessionsCap":2147483648`, `"SessionsCap":-2147483649`, `"UpCredit":9223372036854775808`, `"DownCredit":1.5`, `"UpRate":"12"`, `"DownRate":true`, `"ExpiryTime":[1]`, `"UpCredit":{"a":1}`, `"SessionsCap":1e10`}
				bad := bads[int(uint64(op.Val[3])%uint64(len(bads)))]
				ub, _ := json.Marshal(uid)
				var raw string
				if op.Val[0]%2 == 0 {
					raw = fmt.Sprintf(`{"UID":%s,"UpRate":77,"DownCredit":88,%s}`, ub, bad)
				} else {
					raw = fmt.Sprintf(`{%s,"UID":%s,"ExpiryTime":99,"DownRate":5}`, bad, ub)
				}
				code, _ = e.do("POST", url, []byte(raw))
			case "garbage":
				code, _ = e.do("POST", url, []byte(`{"UID": "AAAA", "UpRate": "many"`))
			case "notb64":
				code, _ = e.do("POST", "/admin/users/%25%25notbase64!", []byte(`{}`))
			default:
				code, _ = e.do("POST", url, nil)
			}
			if code/100 == 2 {
				return res, vk.ViolateSig("bad-request-accepted", "%s: malformed/mismatching request (%s) was answered with %d", phase, op.Bad, code)
			}
			// rejected => nothing changes (checked below)
		case "get", "list":
			// reads are checked after every step anyway
		case "delete":
			code, rb := e.do("DELETE", url, nil)
			if model[op.U] != nil {
				if code/100 != 2 {
					return res, vk.Violatef("%s: DELETE of an existing user answered %d: %s", phase, code, rb)
				}
				delete(model, op.U)
			} else {
				rejected = true
			}
		case "reopen":
			reopened = true
			if cerr := e.closer.Close(); cerr != nil {
				return res, fmt.Errorf("harness: close: %v", cerr)
			}
			if oerr := e.open(); oerr != nil {
				return res, vk.Violatef("%s: database cannot be reopened: %v", phase, oerr)
			}
		case "connect":
			if len(uid) != 16 {
				continue // no client can present such a UID
			}
			// what dispatchConnection does for a user outside the bypass list, without any recover()
			user, gerr := e.panel.GetUser(uid)
			if gerr == nil {
				obfs, _ := mux.MakeObfuscator(mux.EncryptionMethodPlain, [32]byte{})
				sesh, _, serr := user.GetSession(1, mux.SessionConfig{Obfuscator: obfs, MsgOnWireSizeLimit: appDataMaxLength})
				_ = sesh
				if serr != nil {
					user.CloseSession(1, "")
				} else {
					user.CloseSession(1, "")
				}
				res.Labels = append(res.Labels, "connect-admitted")
			} else if model[op.U] != nil {
				res.Labels = append(res.Labels, "connect-refused")
			}
		case "upload":
			if len(uid) != 16 {
				continue // usage is only ever uploaded for UIDs clients presented
			}
			if op.Via == "panel" {
				up, down := op.Up, op.Down
				var a [16]byte
				copy(a[:], uid)
				vQueueUsage(e.panel, a, up, down)
				if cerr := e.panel.commitUpdate(); cerr != nil {
					return res, vk.Violatef("%s: usage upload failed: %v", phase, cerr)
				}
			} else {
				_, uerr := e.mgr.UploadStatus([]usermanager.StatusUpdate{{UID: uid, Active: true, NumSession: 1, UpUsage: op.Up, DownUsage: op.Down, Timestamp: c18Now.Unix()}})
				if uerr != nil {
					return res, vk.Violatef("%s: UploadStatus failed: %v", phase, uerr)
				}
			}
			if rec := model[op.U]; rec != nil {
				rec.val[3] -= op.Up
				rec.set[3] = true
				rec.val[4] -= op.Down
				rec.set[4] = true
			}
		}
		if cerr := c18CheckAll(e, model, phase); cerr != nil {
			return res, cerr
		}
	}
	res.NonTrivial = partial || rejected || reopened
	if partial {
		res.Labels = append(res.Labels, "partial-update")
	}
	if rejected {
		res.Labels = append(res.Labels, "rejected-request")
	}
	if reopened {
		res.Labels = append(res.Labels, "reopen")
	}
	return res, nil
}

func c18Gen(rt *rapid.T) c18Scenario {
	var sc c18Scenario
	vals := rapid.OneOf(
		rapid.SampledFrom([]int64{0, 1, -1, 2, 100, 1 << 31, -(1 << 31), 1<<63 - 1, -(1 << 63), 1700000001, 1699999999, 1 << 40}),
		rapid.Int64Range(-1000, 100000),
	)
	n := rapid.IntRange(1, 14).Draw(rt, "nops")
	for i := 0; i < n; i++ {
		op := c18Op{U: rapid.SampledFrom([]int{0, 0, 1, 1, 2, 3, 4, 5}).Draw(rt, "u")}
		op.K = rapid.SampledFrom([]string{"post", "post", "post", "postgood", "postgood", "postgoodless", "badpost", "get", "list", "delete", "reopen", "connect", "connect", "upload", "upload"}).Draw(rt, "k")
		switch op.K {
		case "post":
			// which of the six optional fields the request carries: all, none (the UID alone - a legal request that
			// creates or keeps a record), exactly one, or any subset
			shape := rapid.IntRange(0, 5).Draw(rt, "full")
			one := -1
			if shape == 3 {
				one = rapid.IntRange(0, 5).Draw(rt, "onefield")
			}
			for f := range c18Fields {
				switch {
				case shape <= 1:
					op.Set[f] = true
				case shape == 2:
					op.Set[f] = false
				case shape == 3:
					op.Set[f] = f == one
				default:
					op.Set[f] = rapid.Bool().Draw(rt, "set")
				}
				if op.Set[f] {
					if f == 0 {
						op.Val[f] = rapid.SampledFrom([]int64{0, 1, 2, 10, -1, 1<<31 - 1, -(1 << 31)}).Draw(rt, "cap")
					} else {
						op.Val[f] = vals.Draw(rt, "val")
					}
				}
			}
		case "postgood", "postgoodless":
			// a record that authorises its owner: positive rates and credit, expiry in the future ("less": with one of
			// the six fields left out - the administrator never set it)
			less := op.K == "postgoodless"
			op.K = "post"
			pos := rapid.SampledFrom([]int64{1, 2, 100, 1000000, 1 << 40, 1<<63 - 1, 12345678901})
			for f := range c18Fields {
				op.Set[f] = true
			}
			op.Val = [6]int64{rapid.SampledFrom([]int64{1, 2, 10, 1<<31 - 1}).Draw(rt, "gcap"), pos.Draw(rt, "gup"), pos.Draw(rt, "gdown"), pos.Draw(rt, "gupc"), pos.Draw(rt, "gdownc"),
				rapid.SampledFrom([]int64{1700000000, 1700000001, 1 << 40, 1<<63 - 1}).Draw(rt, "gexp")}
			if less {
				op.Set[rapid.IntRange(0, 5).Draw(rt, "omit")] = false
			}
		case "badpost":
			op.Bad = rapid.SampledFrom([]string{"mismatch", "mismatch", "garbage", "notb64", "empty", "illtyped", "illtyped", "illtyped"}).Draw(rt, "bad")
			op.Val[3] = vals.Draw(rt, "bv")
			op.Val[0] = 3
			if op.Bad == "illtyped" {
				op.Val[3] = int64(rapid.IntRange(0, 8).Draw(rt, "illkind"))
				op.Val[0] = int64(rapid.IntRange(0, 1).Draw(rt, "illorder"))
			}
		case "upload":
			op.Up = vals.Draw(rt, "up")
			op.Down = vals.Draw(rt, "down")
			op.Via = rapid.SampledFrom([]string{"manager", "panel"}).Draw(rt, "via")
		}
		sc.Ops = append(sc.Ops, op)
	}
	return sc
}

func TestVerif_C18_Store(t *testing.T) {
	vk.Run(t, "C18", "Store", c18Gen, c18Run(t))
}
