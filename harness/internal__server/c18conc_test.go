package server

import (
	"encoding/base64"
	"encoding/json"
	"fmt"
	"os"
	"path/filepath"
	"sync"
	"testing"

	"github.com/cbeuw/Cloak/internal/server/usermanager"
	vk "github.com/cbeuw/Cloak/internal/verifkit"
	"pgregory.net/rapid"
)

// C18 (2) Concurrent, real time: the keyed-store statement when the operations on one user overlap - admin requests
// from several API connections, and the usage upload the server performs on its own. 2-4 operations on the same UID
// are issued at the same moment; the record read back afterwards (also after close/reopen) must be the result of
// SOME order of those operations applied one after the other to the record as it was before (every operation is one
// atomic step of the store).

type c18cOp struct {
	K   string // post delete upload
	Set [6]bool
	Val [6]int64
	Up  int64
	Dn  int64
}

type c18Conc struct {
	Exists bool // the user exists (with a full record) before the batch
	Ops    []c18cOp
	Reopen bool
}

type c18cState struct {
	exists bool
	val    [6]int64
}

func (s c18cState) apply(op c18cOp) c18cState {
	switch op.K {
	case "post":
		s.exists = true
		for f := 0; f < 6; f++ {
			if op.Set[f] {
				s.val[f] = op.Val[f]
				if f == 0 {
					s.val[f] = int64(int32(op.Val[f]))
				}
			}
		}
	case "delete":
		s = c18cState{}
	case "upload":
		if s.exists {
			s.val[3] -= op.Up
			s.val[4] -= op.Dn
		}
	}
	return s
}

func c18ConcRun(sc c18Conc) (res vk.Result, err error) {
	res.NonTrivial = true
	e := &c18Env{dir: c18TmpDir()}
	defer os.RemoveAll(e.dir)
	e.path = filepath.Join(e.dir, "userinfo.db")
	if oerr := e.open(); oerr != nil {
		return res, fmt.Errorf("harness: open db: %v", oerr)
	}
	defer func() {
		if e.closer != nil && err == nil {
			e.closer.Close()
		}
	}()
	uid := c18UID(1)
	url := "/admin/users/" + base64.URLEncoding.EncodeToString(uid)
	init := c18cState{}
	if sc.Exists {
		init = c18cState{exists: true, val: [6]int64{3, 1000, 2000, 5000000, 6000000, 1800000000}}
		body, _ := json.Marshal(map[string]interface{}{"UID": uid, "SessionsCap": int32(3), "UpRate": 1000, "DownRate": 2000, "UpCredit": 5000000, "DownCredit": 6000000, "ExpiryTime": 1800000000})
		if code, rb := e.do("POST", url, body); code/100 != 2 {
			return res, fmt.Errorf("harness: initial POST answered %d: %s", code, rb)
		}
	}
	start := make(chan struct{})
	var wg sync.WaitGroup
	var mu sync.Mutex
	var firstErr error
	for _, op := range sc.Ops {
		wg.Add(1)
		go func(op c18cOp) {
			defer wg.Done()
			<-start
			_, perr := vk.Protect(func() (vk.Result, error) {
				switch op.K {
				case "post":
					body := map[string]interface{}{"UID": uid}
					for f := range c18Fields {
						if op.Set[f] {
							if f == 0 {
								body[c18Fields[f]] = int32(op.Val[f])
							} else {
								body[c18Fields[f]] = op.Val[f]
							}
						}
					}
					b, _ := json.Marshal(body)
					if code, rb := e.do("POST", url, b); code/100 != 2 {
						return vk.Result{}, vk.Violatef("a well-formed POST was answered with %d: %s", code, rb)
					}
				case "delete":
					e.do("DELETE", url, nil)
				case "upload":
					if _, uerr := e.mgr.UploadStatus([]usermanager.StatusUpdate{{UID: uid, Active: true, NumSession: 1, UpUsage: op.Up, DownUsage: op.Dn, Timestamp: c18Now.Unix()}}); uerr != nil {
						return vk.Result{}, vk.Violatef("UploadStatus failed: %v", uerr)
					}
				}
				return vk.Result{}, nil
			})
			if perr != nil {
				mu.Lock()
				if firstErr == nil {
					firstErr = perr
				}
				mu.Unlock()
			}
		}(op)
	}
	close(start)
	wg.Wait()
	if firstErr != nil {
		return res, firstErr
	}
	// every sequential order of the batch
	outcomes := map[c18cState]bool{}
	idx := make([]int, len(sc.Ops))
	for i := range idx {
		idx[i] = i
	}
	permutationsOf(idx, func(p []int) {
		s := init
		for _, i := range p {
			s = s.apply(sc.Ops[i])
		}
		outcomes[s] = true
	})
	read := func(phase string) error {
		code, body := e.do("GET", url, nil)
		var got c18cState
		if code == 200 {
			fields, _, derr := c18Decode(body)
			if derr != nil {
				return vk.Violatef("%s: GET returns an undecodable record: %v", phase, derr)
			}
			got.exists = true
			for i, f := range c18Fields {
				if fields[f] != nil {
					got.val[i] = *fields[f]
				}
			}
		} else if code != 404 {
			return vk.Violatef("%s: GET answered %d", phase, code)
		}
		if !outcomes[got] {
			return vk.ViolateSig("not-atomic", "%s: after %d overlapping operations on one user (%s) the record reads exists=%v %v, which no order of those operations applied one after the other produces (record before: exists=%v %v)", phase, len(sc.Ops), c18cDescribe(sc.Ops), got.exists, got.val, init.exists, init.val)
		}
		return nil
	}
	if err := read("after the batch"); err != nil {
		return res, err
	}
	if sc.Reopen {
		e.closer.Close()
		if oerr := e.open(); oerr != nil {
			e.closer = nil
			return res, fmt.Errorf("harness: reopen: %v", oerr)
		}
		if err := read("after close and reopen"); err != nil {
			return res, err
		}
	}
	res.Labels = append(res.Labels, fmt.Sprintf("ops=%d", len(sc.Ops)))
	if len(outcomes) > 1 {
		res.Labels = append(res.Labels, "order-matters")
	}
	return res, nil
}

func c18cDescribe(ops []c18cOp) string {
	s := ""
	for i, op := range ops {
		if i > 0 {
			s += " | "
		}
		s += op.K
		if op.K == "post" {
			for f := 0; f < 6; f++ {
				if op.Set[f] {
					s += fmt.Sprintf(" %s=%d", c18Fields[f], op.Val[f])
				}
			}
		}
		if op.K == "upload" {
			s += fmt.Sprintf(" -%d/-%d", op.Up, op.Dn)
		}
	}
	return s
}

func permutationsOf(a []int, f func([]int)) {
	var rec func(k int)
	rec = func(k int) {
		if k == len(a) {
			f(a)
			return
		}
		for i := k; i < len(a); i++ {
			a[k], a[i] = a[i], a[k]
			rec(k + 1)
			a[k], a[i] = a[i], a[k]
		}
	}
	rec(0)
}

func TestVerif_C18_Concurrent(t *testing.T) {
	vk.Run(t, "C18", "Concurrent", func(rt *rapid.T) c18Conc {
		sc := c18Conc{Exists: rapid.IntRange(0, 3).Draw(rt, "exists") > 0, Reopen: rapid.Bool().Draw(rt, "reopen")}
		n := rapid.IntRange(2, 4).Draw(rt, "nops")
		for i := 0; i < n; i++ {
			op := c18cOp{K: rapid.SampledFrom([]string{"post", "post", "post", "delete", "upload"}).Draw(rt, "k")}
			switch op.K {
			case "post":
				any := false
				for f := 0; f < 6; f++ {
					if rapid.IntRange(0, 2).Draw(rt, "set") == 0 {
						op.Set[f] = true
						any = true
						op.Val[f] = int64(10*(i+1) + f)
					}
				}
				if !any {
					f := rapid.IntRange(0, 5).Draw(rt, "one")
					op.Set[f], op.Val[f] = true, int64(10*(i+1)+f)
				}
			case "upload":
				op.Up, op.Dn = int64(100*(i+1)), int64(1000*(i+1))
			}
			sc.Ops = append(sc.Ops, op)
		}
		return sc
	}, func(sc c18Conc) (vk.Result, error) {
		return vk.Protect(func() (vk.Result, error) { return c18ConcRun(sc) })
	})
}
