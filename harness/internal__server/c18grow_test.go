package server

import (
	"encoding/base64"
	"encoding/json"
	"fmt"
	"os"
	"path/filepath"
	"sync"
	"sync/atomic"
	"testing"
	"time"

	vk "github.com/cbeuw/Cloak/internal/verifkit"
	"pgregory.net/rapid"
)

// C18 (3) ListWhileGrowing, real time: the listing while the database grows. One API connection keeps creating
// users (the database file has to be enlarged and re-mapped every now and then), others keep listing. Every listing
// must consist of records that were created, each with the values it was created with - and the process must survive.

type c18Grow struct {
	Users   int
	Listers int
	Pad     int // extra bytes per UID beyond 16 (records with longer keys make the file grow faster)
}

func c18GrowRun(sc c18Grow) (res vk.Result, err error) {
	res.NonTrivial = true
	e := &c18Env{dir: c18TmpDir()}
	defer os.RemoveAll(e.dir)
	e.path = filepath.Join(e.dir, "userinfo.db")
	if oerr := e.open(); oerr != nil {
		return res, fmt.Errorf("harness: open db: %v", oerr)
	}
	defer func() {
		if err == nil {
			e.closer.Close()
		}
	}()
	uidOf := func(i int) []byte {
		u := []byte(fmt.Sprintf("c18grow-%08d", i))
		for k := 0; k < sc.Pad; k++ {
			u = append(u, byte('a'+k%26))
		}
		return u
	}
	var created, listings atomic.Int64
	var stop atomic.Bool
	var mu sync.Mutex
	var firstErr error
	fail := func(e error) {
		mu.Lock()
		if firstErr == nil {
			firstErr = e
		}
		mu.Unlock()
		stop.Store(true)
	}
	var wg sync.WaitGroup
	for l := 0; l < sc.Listers; l++ {
		wg.Add(1)
		go func() {
			defer wg.Done()
			for !stop.Load() {
				upper := created.Load()
				code, body := e.do("GET", "/admin/users", nil)
				if code != 200 {
					fail(vk.Violatef("listing answered %d", code))
					return
				}
				listings.Add(1)
				var list []json.RawMessage
				if jerr := json.Unmarshal(body, &list); jerr != nil {
					fail(vk.Violatef("listing is not valid JSON: %v", jerr))
					return
				}
				if int64(len(list)) < upper {
					fail(vk.ViolateSig("list-mismatch", "listing has %d users although %d had been created before it started", len(list), upper))
					return
				}
				for _, item := range list {
					fields, uid, derr := c18Decode(item)
					if derr != nil {
						fail(vk.Violatef("list item undecodable: %v", derr))
						return
					}
					var idx int
					if n, _ := fmt.Sscanf(string(uid), "c18grow-%08d", &idx); n != 1 || string(uid) != string(uidOf(idx)) {
						fail(vk.ViolateSig("list-mismatch", "listing contains a user with UID %q that was never created (while users were being added)", uid))
						return
					}
					if fields["UpCredit"] == nil || *fields["UpCredit"] != int64(1000+idx) {
						fail(vk.ViolateSig("list-mismatch", "listing shows user %d with UpCredit %v, created with %d", idx, pstr(fields["UpCredit"]), 1000+idx))
						return
					}
				}
			}
		}()
	}
	finished := make(chan struct{})
	go func() {
		defer close(finished)
		c18GrowWriter(sc.Users, uidOf, e, &created, &stop, fail)
		stop.Store(true)
		wg.Wait()
	}()
	// liveness: requests must keep being answered. No progress for 10 s while every goroutine inside the code under
	// test is blocked in the same place in two dumps is a deadlock; slowness alone is never a verdict
	last, lastChange, start := int64(-1), time.Now(), time.Now()
wait:
	for {
		select {
		case <-finished:
			break wait
		case <-time.After(200 * time.Millisecond):
		}
		if p := created.Load() + listings.Load(); p != last {
			last, lastChange = p, time.Now()
			continue
		}
		if time.Since(lastChange) > 10*time.Second {
			if ok, where := vk.StuckForGood(time.Second); ok && created.Load()+listings.Load() == last {
				// the stuck goroutines (and the database they hold) are abandoned
				return res, vk.ViolateSig("api-deadlock", "the user-management API stopped answering while users were being added and listed (%d created, %d listings so far; no progress for %v): %s", created.Load(), listings.Load(), time.Since(lastChange).Round(time.Second), where)
			}
		}
		if time.Since(start) > 8*time.Minute {
			return res, fmt.Errorf("harness: the run did not finish within 8 minutes but is not provably stuck (inconclusive)")
		}
	}
	if firstErr != nil {
		return res, firstErr
	}
	res.Labels = append(res.Labels, fmt.Sprintf("users=%d", sc.Users))
	return res, nil
}

func c18GrowWriter(users int, uidOf func(int) []byte, e *c18Env, created *atomic.Int64, stop *atomic.Bool, fail func(error)) {
	for i := 0; i < users && !stop.Load(); i++ {
		uid := uidOf(i)
		body, _ := json.Marshal(map[string]interface{}{"UID": uid, "SessionsCap": int32(1), "UpRate": 1, "DownRate": 1, "UpCredit": 1000 + i, "DownCredit": 5, "ExpiryTime": 99})
		if code, rb := e.do("POST", "/admin/users/"+base64.URLEncoding.EncodeToString(uid), body); code/100 != 2 {
			fail(vk.Violatef("a well-formed POST was answered with %d: %s", code, rb))
			break
		}
		created.Add(1)
	}
}

func TestVerif_C18_ListWhileGrowing(t *testing.T) {
	vk.Run(t, "C18", "ListWhileGrowing", func(rt *rapid.T) c18Grow {
		return c18Grow{Users: rapid.SampledFrom([]int{300, 1500, 4000}).Draw(rt, "users"), Listers: rapid.IntRange(1, 6).Draw(rt, "listers"), Pad: rapid.SampledFrom([]int{0, 0, 100, 1000}).Draw(rt, "pad")}
	}, func(sc c18Grow) (vk.Result, error) {
		return vk.Protect(func() (vk.Result, error) { return c18GrowRun(sc) })
	})
}
