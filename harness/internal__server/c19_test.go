package server

import (
	"fmt"
	"os"
	"sort"
	"sync"
	"sync/atomic"
	"testing"
	"testing/synctest"
	"time"

	"github.com/cbeuw/Cloak/internal/common"
	mux "github.com/cbeuw/Cloak/internal/multiplex"
	vk "github.com/cbeuw/Cloak/internal/verifkit"
	"pgregory.net/rapid"
)

// C19 - a limited user's throughput never exceeds the configured rates (all sessions/connections together),
// and a backlogged sender is not held below the rate. Exact on the virtual clock.

type c19Writer struct {
	Sesh, Stream int
	Rx           bool // true: client->server (limited by the up rate); false: server->client (down rate)
	Sizes        []int
	PauseEvery   int // 0 = backlogged
	PauseMs      int
	StartMs      int `json:",omitempty"` // the writer starts that much later
}

type c19Case struct {
	RxRate, TxRate int64
	Sessions       int
	Conns          int
	Streams        int
	Seconds        int
	Unordered      bool // datagram mode: data becomes readable the moment the limiter lets the frame through
	// ParallelAdmit: the user is not active yet and its sessions are admitted at the same time, each by its own
	// goroutine doing what dispatchConnection does (GetUser, then GetSession), while the user database "takes a while"
	ParallelAdmit bool `json:",omitempty"`
	// CloseStormMs > 0: at that moment the server closes every stream of the user at once (the proxied endpoints hang
	// up): the closing notices are traffic to the user like any other
	CloseStormMs int `json:",omitempty"`
	// EarlierRx/EarlierTx > 0: the user has been active before on this server, with these rates configured; all its
	// sessions ended, an administrator then set the rates of this case, and now the user comes back
	// DropSession0Ms > 0: at that moment every connection of the user's first session is reset (with whatever its
	// senders have queued in the limiter); the user's other sessions carry on
	DropSession0Ms int   `json:",omitempty"`
	EarlierRx      int64 `json:",omitempty"`
	EarlierTx int64 `json:",omitempty"`
	Writers   []c19Writer
}

type c19Ev struct {
	t time.Duration
	n int
}

// c19Bound checks, for every pair of events a<=b, bytes[a..b] <= 1.01*rate*(tb-ta) + rate*1s + extraMsgs*maxMsg.
func c19Bound(evs []c19Ev, rate int64, what string, extraMsgs int) error {
	if len(evs) == 0 {
		return nil
	}
	sort.SliceStable(evs, func(i, j int) bool { return evs[i].t < evs[j].t })
	maxMsg := 0
	for _, e := range evs {
		if e.n > maxMsg {
			maxMsg = e.n
		}
	}
	rho := 1.01 * float64(rate)
	K := float64(rate) + float64(extraMsgs)*float64(maxMsg) + 1
	var S float64
	minG := 0.0
	minIdx := -1
	first := true
	for i, e := range evs {
		ts := e.t.Seconds()
		g := S - rho*ts
		if first || g < minG {
			minG, minIdx, first = g, i, false
		}
		S += float64(e.n)
		f := S - rho*ts
		if f-minG > K {
			a := evs[minIdx]
			var bytes int
			for j := minIdx; j <= i; j++ {
				bytes += evs[j].n
			}
			return vk.ViolateSig("rate-exceeded", "%s: %d bytes between t=%v and t=%v (%.3fs) exceed rate %d B/s x interval + one second of burst + %d message(s) of %d bytes: allowed %.0f",
				what, bytes, a.t, e.t, (e.t - a.t).Seconds(), rate, extraMsgs, maxMsg, rho*(e.t-a.t).Seconds()+K)
		}
	}
	return nil
}

func c19Run(t *testing.T) func(sc c19Case) (vk.Result, error) {
	return func(sc c19Case) (vk.Result, error) {
		var res vk.Result
		var verr error
		berr := vk.Bubble(t, func() {
			uid := []byte("c19-limited-user")
			fm := newFakeManager()
			var a [16]byte
			copy(a[:], uid)
			fm.users[a] = &vFakeUser{UpRate: sc.RxRate, DownRate: sc.TxRate, UpCredit: 1 << 50, DownCredit: 1 << 50, Expiry: 1 << 40, Cap: 100}
			panel := vPanel(fm)
			var key [32]byte
			key[3] = 9
			srvSesh := make([]*mux.Session, sc.Sessions)
			mkCfg := func() mux.SessionConfig {
				obfs, _ := mux.MakeObfuscator(mux.EncryptionMethodPlain, key)
				return mux.SessionConfig{Obfuscator: obfs, MsgOnWireSizeLimit: appDataMaxLength, Unordered: sc.Unordered}
			}
			if sc.EarlierRx > 0 && sc.EarlierTx > 0 {
				fm.users[a].UpRate, fm.users[a].DownRate = sc.EarlierRx, sc.EarlierTx
				u, err := panel.GetUser(uid)
				if err != nil {
					verr = fmt.Errorf("harness: GetUser: %v", err)
					return
				}
				if _, _, err = u.GetSession(9999, mkCfg()); err != nil {
					verr = fmt.Errorf("harness: GetSession: %v", err)
					return
				}
				u.CloseSession(9999, "")
				synctest.Wait()
				fm.mu.Lock()
				fm.users[a].UpRate, fm.users[a].DownRate = sc.RxRate, sc.TxRate
				fm.mu.Unlock()
				res.Labels = append(res.Labels, "rates-changed-while-the-user-was-away")
			}
			if sc.ParallelAdmit {
				fm.userYield, fm.authYield = 300, 300
				admitErr := make([]error, sc.Sessions)
				var awg sync.WaitGroup
				for i := range srvSesh {
					awg.Add(1)
					go func(i int) {
						defer awg.Done()
						for {
							u, err := panel.GetUser(uid)
							if err != nil {
								admitErr[i] = err
								return
							}
							s, _, err := u.GetSession(uint32(i+1), mkCfg())
							if err == ErrUserTerminated {
								continue
							}
							srvSesh[i], admitErr[i] = s, err
							return
						}
					}(i)
				}
				awg.Wait()
				for _, e := range admitErr {
					if e != nil {
						verr = fmt.Errorf("harness: admission: %v", e)
						return
					}
				}
			} else {
				user, err := panel.GetUser(uid)
				if err != nil {
					verr = fmt.Errorf("harness: GetUser: %v", err)
					return
				}
				for i := range srvSesh {
					srvSesh[i], _, err = user.GetSession(uint32(i+1), mkCfg())
					if err != nil {
						verr = fmt.Errorf("harness: GetSession: %v", err)
						return
					}
				}
			}
			type pair struct {
				srv, cli *mux.Session
				sst, cst []*mux.Stream
			}
			var pairs []*pair
			var links []*vk.Link
			var wg sync.WaitGroup
			for i := 0; i < sc.Sessions; i++ {
				srv := srvSesh[i]
				cli := mux.MakeSession(uint32(i+1), mkCfg())
				p := &pair{srv: srv, cli: cli}
				for c := 0; c < sc.Conns; c++ {
					l := vk.NewLink(len(links), true)
					l.SetAuto(vk.AtoB, true)
					l.SetAuto(vk.BtoA, true)
					l.SetLimit(vk.AtoB, 40000)
					l.SetLimit(vk.BtoA, 1<<20)
					links = append(links, l)
					srv.AddConnection(common.NewTLSConn(l.B))
					cli.AddConnection(common.NewTLSConn(l.A))
				}
				for k := 0; k < sc.Streams; k++ {
					st, err := cli.OpenStream()
					if err != nil {
						verr = fmt.Errorf("harness: OpenStream: %v", err)
						return
					}
					st.Write([]byte{1})
					p.cst = append(p.cst, st)
					c, err := srv.Accept()
					if err != nil {
						verr = fmt.Errorf("harness: Accept: %v", err)
						return
					}
					p.sst = append(p.sst, c.(*mux.Stream))
				}
				pairs = append(pairs, p)
			}
			t0 := time.Now()
			var mu sync.Mutex
			var rxEvs []c19Ev
			var stop atomic.Bool
			// readers
			for _, p := range pairs {
				for k := range p.sst {
					wg.Add(2)
					go func(st *mux.Stream) {
						defer wg.Done()
						buf := make([]byte, 70000)
						for {
							n, err := st.Read(buf)
							if n > 0 {
								mu.Lock()
								rxEvs = append(rxEvs, c19Ev{time.Since(t0), n})
								mu.Unlock()
							}
							if err != nil {
								return
							}
						}
					}(p.sst[k])
					go func(st *mux.Stream) {
						defer wg.Done()
						buf := make([]byte, 70000)
						for {
							if _, err := st.Read(buf); err != nil {
								return
							}
						}
					}(p.cst[k])
				}
			}
			txWriters, rxWriters := 0, 0
			txBack, rxBack := false, false
			rxBig := true
			used := map[[3]int]bool{}
			for _, w := range sc.Writers {
				if w.Sesh >= len(pairs) || w.Stream >= sc.Streams || len(w.Sizes) == 0 {
					continue
				}
				key := [3]int{w.Sesh, w.Stream, b2i(w.Rx)}
				if used[key] {
					continue // one writer per stream and direction
				}
				used[key] = true
				var st *mux.Stream
				if w.Rx {
					st = pairs[w.Sesh].cst[w.Stream]
					rxWriters++
					if w.PauseEvery == 0 {
						rxBack = true
					}
					for _, s := range w.Sizes {
						if s < 8000 {
							rxBig = false
						}
					}
				} else {
					st = pairs[w.Sesh].sst[w.Stream]
					txWriters++
					if w.PauseEvery == 0 {
						txBack = true
					}
				}
				wg.Add(1)
				go func(w c19Writer, st *mux.Stream) {
					defer wg.Done()
					if w.StartMs > 0 {
						time.Sleep(time.Duration(w.StartMs) * time.Millisecond)
					}
					buf := make([]byte, 16132)
					// runaway guard: without a working limiter a backlogged writer would spin without the
					// virtual clock ever advancing; stop once far more than the allowance has been sent
					rate := sc.TxRate
					if w.Rx {
						rate = sc.RxRate
					}
					budget := 3*rate*int64(sc.Seconds+1) + 1<<20
					var sent int64
					for i := 0; !stop.Load() && sent < budget; i++ {
						n := w.Sizes[i%len(w.Sizes)]
						sent += int64(n)
						if _, err := st.Write(buf[:n]); err != nil {
							if os.Getenv("VERIF_DEBUG") != "" {
								fmt.Println("DEBUG writer", w.Sesh, w.Stream, w.Rx, "stopped at", time.Since(t0), "err", err, "term", pairs[w.Sesh].srv.TerminalMsg(), "/", pairs[w.Sesh].cli.TerminalMsg())
							}
							return
						}
						if w.PauseEvery > 0 && (i+1)%w.PauseEvery == 0 {
							time.Sleep(time.Duration(w.PauseMs) * time.Millisecond)
						}
					}
				}(w, st)
			}
			if sc.DropSession0Ms > 0 {
				go func() {
					time.Sleep(time.Duration(sc.DropSession0Ms) * time.Millisecond)
					for c := 0; c < sc.Conns; c++ {
						links[c].Reset()
					}
				}()
			}
			if sc.CloseStormMs > 0 {
				go func() {
					time.Sleep(time.Duration(sc.CloseStormMs) * time.Millisecond)
					for _, p := range pairs {
						for _, st := range p.sst {
							go st.Close()
						}
					}
				}()
			}
			time.Sleep(time.Duration(sc.Seconds) * time.Second)
			stop.Store(true)
			elapsed := time.Since(t0)
			for _, p := range pairs {
				go p.srv.Close()
				go p.cli.Close()
			}
			for _, l := range links {
				l.A.Close()
				l.B.Close()
			}
			wg.Wait()

			var txEvs []c19Ev
			perSecond := map[int64]map[int]bool{}
			for li, l := range links {
				for _, e := range l.Events(vk.BtoA) {
					d := e.Time.Sub(t0)
					if d < 0 || d > elapsed {
						continue
					}
					txEvs = append(txEvs, c19Ev{d, e.Len - 5}) // the limiter counts the message without the 5-byte record header
					sec := int64(d / time.Second)
					if perSecond[sec] == nil {
						perSecond[sec] = map[int]bool{}
					}
					perSecond[sec][li] = true
				}
			}
			var rx []c19Ev
			for _, e := range rxEvs {
				if e.t <= elapsed {
					rx = append(rx, e)
				}
			}
			if os.Getenv("VERIF_DEBUG") != "" {
				per := map[int64]int{}
				for _, e := range txEvs {
					per[int64(e.t/time.Second)] += e.n
				}
				fmt.Println("DEBUG tx per second:", per, "elapsed", elapsed)
				per = map[int64]int{}
				for _, e := range rx {
					per[int64(e.t/time.Second)] += e.n
				}
				fmt.Println("DEBUG rx per second:", per)
			}
			// bytes the server took off its connections (each connection may have read one record it has not paid for yet)
			var rxConn []c19Ev
			for _, l := range links {
				for _, e := range l.ReadEvents(vk.AtoB) {
					d := e.Time.Sub(t0)
					if d < 0 || d > elapsed || e.Len == 5 {
						continue // 5-byte reads are record headers, which the limiter does not count
					}
					rxConn = append(rxConn, c19Ev{d, e.Len})
				}
			}
			if verr = c19Bound(txEvs, sc.TxRate, "server->client (download rate, bytes written to the connections)", 1); verr != nil {
				return
			}
			if verr = c19Bound(rxConn, sc.RxRate, "client->server (upload rate, bytes read from the connections)", len(links)+1); verr != nil {
				return
			}
			if sc.Unordered {
				if verr = c19Bound(rx, sc.RxRate, "client->server (upload rate, bytes handed to the server-side streams)", 1); verr != nil {
					return
				}
			}
			sum := func(evs []c19Ev) (s int64) {
				for _, e := range evs {
					s += int64(e.n)
				}
				return
			}
			T := elapsed.Seconds()
			if txBack && sc.Seconds >= 5 && sc.CloseStormMs == 0 && sc.DropSession0Ms == 0 {
				got := sum(txEvs)
				min := 0.99*float64(sc.TxRate)*T - float64(sc.TxRate) - 16400*float64(txWriters+1)
				if float64(got) < min {
					verr = vk.ViolateSig("below-rate", "backlogged server->client senders moved %d bytes in %.1fs; the configured rate %d B/s allows at least %.0f", got, T, sc.TxRate, min)
					return
				}
				res.Labels = append(res.Labels, "tx-backlogged")
			}
			if rxBack && rxBig && sc.Seconds >= 5 && sc.CloseStormMs == 0 && sc.DropSession0Ms == 0 { // senders whose streams the peer closed stop early
				got := sum(rx)
				min := 0.985*float64(sc.RxRate)*T - float64(sc.RxRate) - 16400*float64(rxWriters+sc.Conns*sc.Sessions+1)
				if float64(got) < min {
					verr = vk.ViolateSig("below-rate", "backlogged client->server senders delivered %d bytes in %.1fs; the configured rate %d B/s allows at least %.0f", got, T, sc.RxRate, min)
					return
				}
				res.Labels = append(res.Labels, "rx-backlogged")
			}
			for _, m := range perSecond {
				seshSeen := map[int]bool{}
				for li := range m {
					seshSeen[li/sc.Conns] = true
				}
				if len(m) >= 2 && len(seshSeen) >= 2 {
					res.NonTrivial = true
				}
			}
			if res.NonTrivial {
				res.Labels = append(res.Labels, "several-sessions-and-conns-share-the-allowance")
			}
			res.Labels = append(res.Labels, fmt.Sprintf("sessions=%d", sc.Sessions))
			if sc.ParallelAdmit {
				res.Labels = append(res.Labels, "sessions-admitted-simultaneously")
			}
			if sc.CloseStormMs > 0 {
				res.Labels = append(res.Labels, "all-streams-closed-at-once")
			}
			if sc.DropSession0Ms > 0 {
				res.Labels = append(res.Labels, "one-session-dropped-with-senders-queued:sibling-sends-later")
			}
			vk.AddLabel("C19", "Rates", "tx-events", int64(len(txEvs)))
			vk.AddLabel("C19", "Rates", "rx-events", int64(len(rx)))
		})
		if verr == nil && berr != nil {
			verr = fmt.Errorf("harness: bubble: %v", berr)
		}
		return res, verr
	}
}

func b2i(b bool) int {
	if b {
		return 1
	}
	return 0
}

func c19Gen(rt *rapid.T) c19Case {
	rates := []int64{1000, 5000, 20000, 50000, 100000, 333333, 1000000, 3000000, 10000000}
	sc := c19Case{
		RxRate:    rapid.SampledFrom(rates).Draw(rt, "rx"),
		TxRate:    rapid.SampledFrom(rates).Draw(rt, "tx"),
		Sessions:  rapid.IntRange(1, 3).Draw(rt, "sessions"),
		Conns:     rapid.IntRange(1, 4).Draw(rt, "conns"),
		Streams:   rapid.OneOf(rapid.IntRange(1, 4), rapid.IntRange(1, 10)).Draw(rt, "streams"),
		Unordered: rapid.Bool().Draw(rt, "unordered"),
	}
	sc.ParallelAdmit = sc.Sessions >= 2 && rapid.Bool().Draw(rt, "paralleladmit")
	maxRate := sc.RxRate
	if sc.TxRate > maxRate {
		maxRate = sc.TxRate
	}
	maxSec := int(15000000 / maxRate)
	if maxSec < 5 {
		maxSec = 5
	}
	if maxSec > 60 {
		maxSec = 60
	}
	sc.Seconds = rapid.IntRange(5, maxSec).Draw(rt, "seconds")
	deep := rapid.IntRange(0, 9).Draw(rt, "deepbacklog") < 3
	if deep {
		// a deep backlog at a low rate: many senders queue in the limiter at once, the queued debt is worth far more
		// than ten seconds of the allowance
		low := []int64{1000, 5000, 20000}
		sc.RxRate, sc.TxRate = rapid.SampledFrom(low).Draw(rt, "deeprx"), rapid.SampledFrom(low).Draw(rt, "deeptx")
		sc.Streams = rapid.IntRange(6, 10).Draw(rt, "deepstreams")
		sc.Seconds = rapid.IntRange(30, 60).Draw(rt, "deepseconds")
	}
	nw := rapid.OneOf(rapid.IntRange(1, 8), rapid.IntRange(8, 40)).Draw(rt, "nwriters")
	if deep && nw < 16 {
		nw = 16 + nw
	}
	if nw < sc.Sessions {
		nw = sc.Sessions
	}
	for i := 0; i < nw; i++ {
		w := c19Writer{Sesh: rapid.IntRange(0, sc.Sessions-1).Draw(rt, "ws"), Stream: rapid.IntRange(0, sc.Streams-1).Draw(rt, "wst"), Rx: rapid.Bool().Draw(rt, "wrx")}
		if i < sc.Sessions {
			w.Sesh = i // spread the first writers over the user's sessions
		}
		rate := sc.TxRate
		if w.Rx {
			rate = sc.RxRate
		}
		np := rapid.IntRange(1, 4).Draw(rt, "npattern")
		for j := 0; j < np; j++ {
			var sz int
			if rate >= 1000000 {
				sz = rapid.SampledFrom([]int{16132, 16132, 8000, 12000}).Draw(rt, "size")
			} else if rate < 20000 {
				// mostly small frames, sometimes one that alone is worth many seconds of the allowance
				sz = rapid.SampledFrom([]int{1500, 300, 37, 1, 1500, 300, 16132, 8000}).Draw(rt, "size")
			} else {
				sz = rapid.SampledFrom([]int{16132, 8000, 1500, 300, 37}).Draw(rt, "size")
			}
			w.Sizes = append(w.Sizes, sz)
		}
		if !deep && rapid.Bool().Draw(rt, "bursty") {
			w.PauseEvery = rapid.IntRange(1, 50).Draw(rt, "pauseevery")
			w.PauseMs = rapid.SampledFrom([]int{1, 50, 900, 1000, 2500}).Draw(rt, "pausems")
		}
		sc.Writers = append(sc.Writers, w)
	}
	if !deep && rapid.IntRange(0, 9).Draw(rt, "closestorm") < 3 {
		// many streams, (almost) no download data, and the server closes them all at the same moment
		sc.TxRate = rapid.SampledFrom([]int64{1000, 5000, 20000}).Draw(rt, "stormrate")
		sc.Streams = rapid.IntRange(6, 10).Draw(rt, "stormstreams")
		sc.Sessions = rapid.IntRange(2, 3).Draw(rt, "stormsessions")
		if sc.Seconds < 10 {
			sc.Seconds = 10
		}
		for i := range sc.Writers {
			sc.Writers[i].Rx = true
			sc.Writers[i].Sesh %= sc.Sessions
		}
		sc.CloseStormMs = rapid.SampledFrom([]int{1, 500, 2000, 4000}).Draw(rt, "stormat")
	}
	if !deep && sc.CloseStormMs == 0 && rapid.IntRange(0, 5).Draw(rt, "siblingdrop") == 0 {
		// the user's first session has many download senders queued in the limiter when all its connections fail; a
		// sibling session that was silent until then starts a backlog some time later
		sc.Sessions = rapid.IntRange(2, 3).Draw(rt, "dropsessions")
		sc.TxRate = rapid.SampledFrom([]int64{5000, 20000, 100000}).Draw(rt, "droprate")
		sc.Streams = rapid.IntRange(8, 10).Draw(rt, "dropstreams")
		sc.Seconds = rapid.IntRange(40, 60).Draw(rt, "dropseconds")
		sc.ParallelAdmit = false
		sc.DropSession0Ms = rapid.SampledFrom([]int{2000, 5000, 9000}).Draw(rt, "dropat")
		sc.Writers = nil
		for k := 0; k < sc.Streams; k++ {
			sc.Writers = append(sc.Writers, c19Writer{Sesh: 0, Stream: k, Sizes: []int{rapid.SampledFrom([]int{16132, 8000, 12000}).Draw(rt, "dropsize")}})
		}
		late := sc.DropSession0Ms + rapid.SampledFrom([]int{1000, 15000, 25000}).Draw(rt, "latestart")
		for k, n := 0, rapid.IntRange(1, 4).Draw(rt, "latewriters"); k < n; k++ {
			sc.Writers = append(sc.Writers, c19Writer{Sesh: 1, Stream: k, Sizes: []int{rapid.SampledFrom([]int{16132, 1500, 8000}).Draw(rt, "latesize")}, StartMs: late})
		}
	}
	if rapid.IntRange(0, 3).Draw(rt, "earlier") == 0 {
		f := rapid.SampledFrom([]int64{10, 100, 3}).Draw(rt, "earlierfactor")
		sc.EarlierRx, sc.EarlierTx = sc.RxRate*f, sc.TxRate*f
		if rapid.IntRange(0, 3).Draw(rt, "earlierlower") == 0 {
			sc.EarlierRx, sc.EarlierTx = sc.RxRate/f+1, sc.TxRate/f+1
		}
	}
	return sc
}

func TestVerif_C19_Rates(t *testing.T) {
	vk.Run(t, "C19", "Rates", c19Gen, c19Run(t))
}
