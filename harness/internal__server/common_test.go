package server

import (
	"errors"
	"io"
	"reflect"
	"runtime"
	"strings"
	"sync"
	"sync/atomic"
	"time"
	"unsafe"

	"github.com/cbeuw/Cloak/internal/server/usermanager"
	vk "github.com/cbeuw/Cloak/internal/verifkit"
	log "github.com/sirupsen/logrus"
)

func init() {
	log.SetOutput(io.Discard)
	log.SetLevel(log.PanicLevel)
}

// vFakeUser / vFakeManager: in-memory UserManager for bubble tests.
type vFakeUser struct {
	UpRate, DownRate     int64
	UpCredit, DownCredit int64
	Expiry               int64
	Cap                  int
}

type vFakeManager struct {
	mu      sync.Mutex
	users   map[[16]byte]*vFakeUser
	now     func() time.Time
	uploads [][]usermanager.StatusUpdate
	// authYield: the "database query" of AuthoriseNewSession takes a while: the caller yields the processor up to
	// that many times, or until a second caller is inside the query too (no clock involved: callers may hold locks
	// others wait for, which stops a bubble's virtual clock)
	authYield  int
	authInside atomic.Int32
	// the same for AuthenticateUser
	userYield  int
	userInside atomic.Int32
	// onAuthorise, if set, is called once from inside the next AuthoriseNewSession ("while the query runs")
	onAuthorise func()
	// failUploads: that many of the next UploadStatus calls fail (the database is unavailable)
	failUploads int
}

func newFakeManager() *vFakeManager {
	return &vFakeManager{users: map[[16]byte]*vFakeUser{}, now: time.Now}
}

func (m *vFakeManager) get(UID []byte) *vFakeUser {
	var a [16]byte
	copy(a[:], UID)
	return m.users[a]
}

func (m *vFakeManager) AuthenticateUser(UID []byte) (int64, int64, error) {
	if m.userYield > 0 {
		m.userInside.Add(1)
		for i := 0; i < m.userYield && m.userInside.Load() < 2; i++ {
			runtime.Gosched()
		}
		defer m.userInside.Add(-1)
	}
	m.mu.Lock()
	defer m.mu.Unlock()
	u := m.get(UID)
	if u == nil {
		return 0, 0, usermanager.ErrUserNotFound
	}
	if u.UpCredit <= 0 {
		return 0, 0, usermanager.ErrNoUpCredit
	}
	if u.DownCredit <= 0 {
		return 0, 0, usermanager.ErrNoDownCredit
	}
	if u.Expiry < m.now().Unix() {
		return 0, 0, usermanager.ErrUserExpired
	}
	return u.UpRate, u.DownRate, nil
}

func (m *vFakeManager) AuthoriseNewSession(UID []byte, ai usermanager.AuthorisationInfo) error {
	m.mu.Lock()
	cb := m.onAuthorise
	m.onAuthorise = nil
	m.mu.Unlock()
	if cb != nil {
		cb()
	}
	if m.authYield > 0 {
		m.authInside.Add(1)
		for i := 0; i < m.authYield && m.authInside.Load() < 2; i++ {
			runtime.Gosched()
		}
		defer m.authInside.Add(-1)
	}
	m.mu.Lock()
	defer m.mu.Unlock()
	u := m.get(UID)
	if u == nil {
		return usermanager.ErrUserNotFound
	}
	if u.UpCredit <= 0 {
		return usermanager.ErrNoUpCredit
	}
	if u.DownCredit <= 0 {
		return usermanager.ErrNoDownCredit
	}
	if u.Expiry < m.now().Unix() {
		return usermanager.ErrUserExpired
	}
	if ai.NumExistingSessions >= u.Cap {
		return usermanager.ErrSessionsCapReached
	}
	return nil
}

func (m *vFakeManager) UploadStatus(ups []usermanager.StatusUpdate) ([]usermanager.StatusResponse, error) {
	m.mu.Lock()
	defer m.mu.Unlock()
	if m.failUploads > 0 {
		m.failUploads--
		return nil, errors.New("user database unavailable")
	}
	m.uploads = append(m.uploads, ups)
	var resp []usermanager.StatusResponse
	for _, s := range ups {
		u := m.get(s.UID)
		if u == nil {
			resp = append(resp, usermanager.StatusResponse{UID: s.UID, Action: usermanager.TERMINATE, Message: "User no longer exists"})
			continue
		}
		u.UpCredit -= s.UpUsage
		u.DownCredit -= s.DownUsage
		if u.UpCredit <= 0 || u.DownCredit <= 0 || m.now().Unix() > u.Expiry {
			resp = append(resp, usermanager.StatusResponse{UID: s.UID, Action: usermanager.TERMINATE, Message: "terminated"})
		}
	}
	return resp, nil
}

func (m *vFakeManager) ListAllUsers() ([]usermanager.UserInfo, error) { return nil, nil }
func (m *vFakeManager) GetUserInfo(UID []byte) (usermanager.UserInfo, error) {
	return usermanager.UserInfo{}, usermanager.ErrUserNotFound
}
func (m *vFakeManager) WriteUserInfo(usermanager.UserInfo) error { return nil }
func (m *vFakeManager) DeleteUser(UID []byte) error {
	m.mu.Lock()
	defer m.mu.Unlock()
	var a [16]byte
	copy(a[:], UID)
	delete(m.users, a)
	return nil
}

// vPanel builds a userPanel without its background upload goroutine.
func vPanel(m usermanager.UserManager) *userPanel {
	p := &userPanel{
		Manager:        m,
		uploadInterval: defaultUploadInterval,
	}
	vInitMaps(reflect.ValueOf(p).Elem())
	return p
}

func vPRF(tag uint64, off uint64) byte {
	x := tag*0x9E3779B97F4A7C15 + off*0xBF58476D1CE4E5B9 + 0x94D049BB133111EB
	x ^= x >> 31
	x *= 0xD6E8FEB86659FD93
	x ^= x >> 29
	return byte(x)
}

func vFill(b []byte, tag uint64, off uint64) {
	for i := range b {
		b[i] = vPRF(tag, off+uint64(i))
	}
}

// Wedge oracle of the server package's bubbles (see kit/run.go): a bubble that is permanently stuck with the handler
// of a connection - or a direct presentation of a first packet - queued on a lock means that peer is never
// answered: neither relayed to the redirect target nor given a handshake reply nor closed. Not judged while the
// harness itself parks a goroutine at a schedule point (it may be the lock's holder).
func init() {
	vk.DefaultWedgeCheck = func(w vk.Wedge) error {
		if w.AnyHas("server.vArm") {
			return nil
		}
		if where, ok := w.QueuedOnLock("server.dispatchConnection", "server.AuthFirstPacket"); ok {
			return vk.ViolateSig("handler-stuck-on-lock", "a peer is never answered (not relayed to the redirect target, no handshake reply, not closed): its handler is queued for ever on a lock nobody will release (%s)", where)
		}
		if where, ok := w.QueuedOnLock("server.(*userPanel)", "server.(*ActiveUser)"); ok {
			return vk.ViolateSig("bookkeeping-stuck-on-lock", "a bookkeeping operation (admission, session closure, termination or usage upload) blocks for ever on a lock nobody will release (%s)", where)
		}
		// a goroutine (possibly the harness inspecting the books) is queued on a lock, and nobody who could hold one of
		// the bookkeeping locks is anywhere inside the bookkeeping code: the lock was left locked by a call that returned
		queued, holders := "", 0
		for _, g := range w.Goroutines {
			if g.OnLock() {
				if len(g.Frames) > 0 && queued == "" {
					queued = g.State
					for _, f := range g.Frames {
						if !strings.HasPrefix(f, "sync.") && !strings.HasPrefix(f, "internal/sync.") {
							queued += " called from " + f
							break
						}
					}
				}
				continue
			}
			if g.Has("server.(*userPanel)") || g.Has("server.(*ActiveUser)") || g.Has("server.dispatchConnection") || g.Has("server.serveSession") || g.Has("usermanager.") || g.Has("vFakeManager") {
				holders++
			}
		}
		if queued != "" && holders == 0 && strings.Contains(queued, "internal/server.") {
			return vk.ViolateSig("lock-never-released", "a lock of the server's bookkeeping is never released: %s waits for ever while no goroutine is inside the bookkeeping code any more (a call returned with the lock held)", queued)
		}
		return nil
	}
}

// vState completes a State the harness assembled field by field the way InitState would: every map field that is
// still nil gets an empty map (the harness does not go through InitState because that starts the panel's upload
// goroutine and resolves addresses; a State with a nil map is something InitState never produces).
func vState(sta *State) *State {
	vInitMaps(reflect.ValueOf(sta).Elem())
	return sta
}

func vInitMaps(v reflect.Value) {
	for i := 0; i < v.NumField(); i++ {
		f := v.Field(i)
		if f.Kind() == reflect.Map && f.IsNil() {
			reflect.NewAt(f.Type(), unsafe.Pointer(f.UnsafeAddr())).Elem().Set(reflect.MakeMap(f.Type()))
		}
	}
}

// vQueueUsage puts (up, down) into the panel's usage queue for uid, as updateUsageQueue would, whatever the queue's
// element representation is (pointer or value, counters by pointer or by value). The caller holds no lock.
func vQueueUsage(p *userPanel, uid [16]byte, up, down int64) {
	p.usageUpdateQueueM.Lock()
	defer p.usageUpdateQueueM.Unlock()
	f := reflect.ValueOf(p).Elem().FieldByName("usageUpdateQueue")
	mv := reflect.NewAt(f.Type(), unsafe.Pointer(f.UnsafeAddr())).Elem()
	et := mv.Type().Elem()
	st := et
	if et.Kind() == reflect.Ptr {
		st = et.Elem()
	}
	nv := reflect.New(st)
	for name, val := range map[string]int64{"up": up, "down": down} {
		fv := nv.Elem().FieldByName(name)
		fv = reflect.NewAt(fv.Type(), unsafe.Pointer(fv.UnsafeAddr())).Elem()
		if fv.Kind() == reflect.Ptr {
			x := val
			fv.Set(reflect.ValueOf(&x))
		} else {
			fv.SetInt(val)
		}
	}
	if et.Kind() == reflect.Ptr {
		mv.SetMapIndex(reflect.ValueOf(uid), nv)
	} else {
		mv.SetMapIndex(reflect.ValueOf(uid), nv.Elem())
	}
}
