package server

import (
	"encoding/binary"
	"fmt"
	"io"
	"net"
	"os"
	"runtime"
	"sort"
	"strings"
	"sync"
	"testing"
	"time"

	"github.com/cbeuw/Cloak/internal/client"
	mux "github.com/cbeuw/Cloak/internal/multiplex"
	vk "github.com/cbeuw/Cloak/internal/verifkit"
	"pgregory.net/rapid"
)

// Full rig (layer 3): proxy client -> client.RouteTCP/MakeSession -> in-memory network with per-connection
// latency/segmentation -> server.dispatchConnection/serveSession -> proxy server. Free-running on the
// synctest virtual clock. Used by C01 (content), C03 (close) and C10 (wire image).

type frConn struct {
	C2S      []int // chunk sizes written by the proxy client (the first chunk carries a 4-byte connection index)
	S2C      []int // chunk sizes written by the proxy server
	C2SDelay []int // ms before each chunk (cyclic)
	S2CDelay []int
	StartMs  int
	Closer   int // 0: proxy client closes when both directions are complete, 1: proxy server closes
	// Eager: the closing side closes its socket right after its own last write, without waiting for anything (what an
	// application does that has said all it had to say). Everything it wrote must still arrive (C03); what the
	// other side was sending may be cut short.
	Eager bool `json:",omitempty"`
	// SlowReadMs: the receiving proxy application of the closer's data reads slowly (that many ms before each read)
	// from a socket with a 4 KiB buffer, so the tunnel's copy loop is blocked writing an earlier chunk when later
	// data and the closing notice arrive
	SlowReadMs int `json:",omitempty"`
}

type frFault struct {
	Link int // index of the client<->server link in creation order (modulo the number created so far)
	AtMs int // virtual time of the reset
}

type frScenario struct {
	Client  vClientCfg
	Conns   []frConn
	LinkLat [][]int // per client<->server link (cyclic over links): latency pattern in ms
	LinkSeg [][]int // per link: segment sizes (0 = whole record)
	// HsSeg: per link (cyclic), the first bytes of either direction - the handshake and the first records behind it -
	// arrive in exactly these segments, each consumed before the next arrives
	HsSeg   [][]int `json:",omitempty"`
	SidBase uint32
	Faults  []frFault `json:",omitempty"` // connection resets injected at virtual times (C12 at layer 3)
}

type frConnResult struct {
	c2sGot, s2cGot   int64
	c2sErr, s2cErr   error
	srvDone, cliDone bool
	tailErrSrv       error // what the non-closing side read after the other side closed
	tailErrCli       error
	tailBytes        int
	closedSeen       bool
	closedInTime     bool // closedSeen as of the end of the scenario time, before the rig is torn down
	doneInTime       bool
	cliExited        bool // the proxy-client side goroutine returned (completed, or saw an error / EOF)
	srvStarted       bool
	srvExited        bool
	exitedInTime     bool
	contentErr       error // a byte that is not the byte written at that offset (never acceptable)
}

type frResult struct {
	snapshotNote string
	// peerIdleClose: a client session was closed by the server's closing notification. In these rigs (bypass user,
	// proxy target reachable, no terminations) the server only closes a session actively from its inactivity timer:
	// it had no open stream at that instant - allowed (C12) - while a stream the client had just opened was still in
	// flight. That connection is lost by design of the idle timeout, not by a defect: such runs are not judged.
	peerIdleClose bool
	conns         []*frConnResult
	cliLinks      []*vk.Link
	sc            frScenario
	sessions      []*mux.Session
}

func frTag(idx int, s2c bool) uint64 {
	t := uint64(idx)*2 + 0x51000
	if s2c {
		t++
	}
	return t
}

func frTotal(chunks []int) int64 {
	var n int64
	for _, c := range chunks {
		n += int64(c)
	}
	return n
}

// frRunInBubble must be called inside a bubble. It returns after the scenario has had ample virtual time.
func frRunInBubble(sc frScenario) (*frResult, error) {
	raw := sc.Client.raw([32]byte{})
	srv := newVSrv(vSrvOpts{Bypass: [][]byte{raw.UID}, Methods: []string{sc.Client.Method}, AutoNet: true})
	srv.serve()
	res := &frResult{sc: sc}
	var mu sync.Mutex
	stopped := false
	cliNet := &vk.Net{Tap: true}
	cliNet.OnLink = func(l *vk.Link) {
		i := l.ID
		var lat []time.Duration
		var seg []int
		if len(sc.LinkLat) > 0 {
			for _, ms := range sc.LinkLat[i%len(sc.LinkLat)] {
				lat = append(lat, time.Duration(ms)*time.Millisecond)
			}
		}
		if len(sc.LinkSeg) > 0 {
			seg = sc.LinkSeg[i%len(sc.LinkSeg)]
		}
		var pre, preBack []int
		if len(sc.HsSeg) > 0 {
			pre = sc.HsSeg[i%len(sc.HsSeg)]
			preBack = sc.HsSeg[(i+1)%len(sc.HsSeg)]
			if len(sc.HsSeg) == 1 && len(pre) > 1 {
				preBack = append(append([]int(nil), pre[1:]...), pre[0])
			}
		}
		l.StartPumpAfter(vk.AtoB, pre, lat, seg)
		// reverse direction: rotate the patterns so that both directions differ
		if len(lat) > 1 && len(seg) == len(lat) {
			lat = append(append([]time.Duration(nil), lat[1:]...), lat[0])
			seg = append(append([]int(nil), seg[1:]...), seg[0])
		}
		l.StartPumpAfter(vk.BtoA, preBack, lat, seg)
		mu.Lock()
		res.cliLinks = append(res.cliLinks, l)
		mu.Unlock()
	}
	cliDialer := &vk.Dialer{Net: cliNet, Ln: srv.cliLn}
	var cdn *vCDN
	if strings.EqualFold(sc.Client.Transport, "cdn") {
		// client -> (latency/segmentation) -> TLS-terminating CDN shim -> ck-server
		cdn = &vCDN{front: vk.NewListener(), back: srv.dialer(), net: srv.net}
		cdn.serve()
		cliDialer = &vk.Dialer{Net: cliNet, Ln: cdn.front}
	}
	_, remote, auth, err := vMustProcess(sc.Client, srv.pub, time.Now)
	if err != nil {
		return nil, fmt.Errorf("harness: %v", err)
	}
	sid := sc.SidBase
	seshMaker := func() *mux.Session {
		a := auth
		mu.Lock()
		sid++
		a.SessionId = sid
		mu.Unlock()
		s := client.MakeSession(remote, a, cliDialer)
		mu.Lock()
		res.sessions = append(res.sessions, s)
		mu.Unlock()
		return s
	}
	localLn := vk.NewListener()
	localNet := &vk.Net{Auto: true}
	for _, cs := range sc.Conns {
		if cs.SlowReadMs > 0 {
			// small socket buffers towards the proxy applications: a slow reader exerts back pressure on the tunnel's copy loops
			localNet.OnLink = func(l *vk.Link) { l.SetLimit(vk.BtoA, 4096) }
			srv.net.OnLink = func(l *vk.Link) { l.SetLimit(vk.AtoB, 4096) }
		}
	}
	go client.RouteTCP(localLn, 300*time.Second, remote.Singleplex, seshMaker)

	for range sc.Conns {
		res.conns = append(res.conns, &frConnResult{})
	}
	var wg sync.WaitGroup
	// proxy server side
	go func() {
		for {
			c, err := srv.proxyLn.Accept()
			if err != nil {
				return
			}
			wg.Add(1)
			go func(c net.Conn) {
				defer wg.Done()
				defer c.Close()
				hdr := make([]byte, 4)
				if _, err := io.ReadFull(c, hdr); err != nil {
					return
				}
				idx := int(binary.BigEndian.Uint32(hdr))
				if idx < 0 || idx >= len(sc.Conns) {
					mu.Lock()
					if len(res.conns) > 0 {
						res.conns[0].c2sErr = fmt.Errorf("proxy server received an unknown connection header %x", hdr)
					}
					mu.Unlock()
					return
				}
				cs := sc.Conns[idx]
				r := res.conns[idx]
				mu.Lock()
				r.srvStarted = true
				mu.Unlock()
				defer func() {
					mu.Lock()
					r.srvExited = true
					mu.Unlock()
				}()
				r.c2sGot = 4
				if cs.Eager && cs.Closer == 1 {
					// say everything, then hang up at once
					var off uint64
					for k, n := range cs.S2C {
						if len(cs.S2CDelay) > 0 {
							if d := cs.S2CDelay[k%len(cs.S2CDelay)]; d > 0 {
								time.Sleep(time.Duration(d) * time.Millisecond)
							}
						}
						b := make([]byte, n)
						vFill(b, frTag(idx, true), off)
						off += uint64(n)
						if _, err := c.Write(b); err != nil {
							mu.Lock()
							r.s2cErr = fmt.Errorf("proxy server write: %v", err)
							mu.Unlock()
							return
						}
					}
					mu.Lock()
					r.srvDone = true
					mu.Unlock()
					return // deferred Close
				}
				var wwg sync.WaitGroup
				wwg.Add(1)
				go func() {
					defer wwg.Done()
					var off uint64
					for k, n := range cs.S2C {
						if len(cs.S2CDelay) > 0 {
							if d := cs.S2CDelay[k%len(cs.S2CDelay)]; d > 0 {
								time.Sleep(time.Duration(d) * time.Millisecond)
							}
						}
						b := make([]byte, n)
						vFill(b, frTag(idx, true), off)
						off += uint64(n)
						if _, err := c.Write(b); err != nil {
							mu.Lock()
							r.s2cErr = fmt.Errorf("proxy server write: %v", err)
							mu.Unlock()
							return
						}
					}
				}()
				total := frTotal(cs.C2S)
				buf := make([]byte, 32768)
				for r.c2sGot < total {
					if cs.SlowReadMs > 0 && cs.Closer == 0 {
						time.Sleep(time.Duration(cs.SlowReadMs) * time.Millisecond)
					}
					n, err := c.Read(buf)
					for i := 0; i < n; i++ {
						if buf[i] != vPRF(frTag(idx, false), uint64(r.c2sGot)+uint64(i)) {
							mu.Lock()
							r.c2sErr = fmt.Errorf("proxy server: byte at offset %d of connection %d is not what the proxy client wrote there", r.c2sGot+int64(i), idx)
							r.contentErr = r.c2sErr
							mu.Unlock()
							return
						}
					}
					r.c2sGot += int64(n)
					if err != nil {
						mu.Lock()
						r.c2sErr = fmt.Errorf("proxy server read ended with %v after %d of %d bytes", err, r.c2sGot, total)
						mu.Unlock()
						return
					}
				}
				wwg.Wait()
				mu.Lock()
				r.srvDone = true
				mu.Unlock()
				if cs.Closer == 1 {
					// wait until the client has everything (or this socket is closed under us), then close from this side
					n, err, closed := frWaitPeer(c, func() bool {
						mu.Lock()
						defer mu.Unlock()
						return r.cliDone || r.cliExited || stopped
					})
					if closed {
						mu.Lock()
						r.tailBytes += n
						r.tailErrSrv = err
						mu.Unlock()
					}
					return // deferred Close
				}
				// the other side closes: we must see end-of-stream and not a single extra byte
				n, err := c.Read(buf)
				mu.Lock()
				r.tailBytes += n
				r.tailErrSrv = err
				r.closedSeen = true
				mu.Unlock()
			}(c)
		}
	}()
	// proxy client side
	for idx, cs := range sc.Conns {
		wg.Add(1)
		go func(idx int, cs frConn) {
			defer wg.Done()
			time.Sleep(time.Duration(cs.StartMs) * time.Millisecond)
			l := localNet.NewLink()
			localLn.Push(l.B)
			c := l.A
			defer c.Close()
			r := res.conns[idx]
			defer func() {
				mu.Lock()
				r.cliExited = true
				mu.Unlock()
			}()
			if cs.Eager && cs.Closer == 0 {
				var off uint64
				for k, n := range cs.C2S {
					if len(cs.C2SDelay) > 0 {
						if d := cs.C2SDelay[k%len(cs.C2SDelay)]; d > 0 && k > 0 {
							time.Sleep(time.Duration(d) * time.Millisecond)
						}
					}
					b := make([]byte, n)
					vFill(b, frTag(idx, false), off)
					if k == 0 {
						binary.BigEndian.PutUint32(b[:4], uint32(idx))
					}
					off += uint64(n)
					if _, err := c.Write(b); err != nil {
						mu.Lock()
						r.c2sErr = fmt.Errorf("proxy client write: %v", err)
						mu.Unlock()
						return
					}
				}
				mu.Lock()
				r.cliDone = true
				mu.Unlock()
				return // deferred Close: at once
			}
			var wwg sync.WaitGroup
			wwg.Add(1)
			go func() {
				defer wwg.Done()
				var off uint64
				for k, n := range cs.C2S {
					if len(cs.C2SDelay) > 0 {
						if d := cs.C2SDelay[k%len(cs.C2SDelay)]; d > 0 && k > 0 {
							time.Sleep(time.Duration(d) * time.Millisecond)
						}
					}
					b := make([]byte, n)
					vFill(b, frTag(idx, false), off)
					if k == 0 {
						binary.BigEndian.PutUint32(b[:4], uint32(idx))
					}
					off += uint64(n)
					if _, err := c.Write(b); err != nil {
						mu.Lock()
						r.c2sErr = fmt.Errorf("proxy client write: %v", err)
						mu.Unlock()
						return
					}
				}
			}()
			total := frTotal(cs.S2C)
			buf := make([]byte, 32768)
			for r.s2cGot < total {
				if cs.SlowReadMs > 0 && cs.Closer == 1 {
					time.Sleep(time.Duration(cs.SlowReadMs) * time.Millisecond)
				}
				n, err := c.Read(buf)
				for i := 0; i < n; i++ {
					if buf[i] != vPRF(frTag(idx, true), uint64(r.s2cGot)+uint64(i)) {
						mu.Lock()
						r.s2cErr = fmt.Errorf("proxy client: byte at offset %d of connection %d is not what the proxy server wrote there", r.s2cGot+int64(i), idx)
						r.contentErr = r.s2cErr
						mu.Unlock()
						return
					}
				}
				r.s2cGot += int64(n)
				if err != nil {
					mu.Lock()
					r.s2cErr = fmt.Errorf("proxy client read ended with %v after %d of %d bytes", err, r.s2cGot, total)
					mu.Unlock()
					return
				}
			}
			wwg.Wait()
			mu.Lock()
			r.cliDone = true
			mu.Unlock()
			if cs.Closer == 0 {
				n, err, closed := frWaitPeer(c, func() bool {
					mu.Lock()
					defer mu.Unlock()
					return r.srvDone || r.srvExited || stopped
				})
				if closed {
					mu.Lock()
					r.tailBytes += n
					r.tailErrCli = err
					mu.Unlock()
				}
				return
			}
			n, err := c.Read(buf)
			mu.Lock()
			r.tailBytes += n
			r.tailErrCli = err
			r.closedSeen = true
			mu.Unlock()
		}(idx, cs)
	}
	for _, f := range sc.Faults {
		f := f
		go func() {
			time.Sleep(time.Duration(f.AtMs) * time.Millisecond)
			mu.Lock()
			var l *vk.Link
			if n := len(res.cliLinks); n > 0 {
				l = res.cliLinks[f.Link%n]
			}
			mu.Unlock()
			if l != nil {
				l.Reset()
			}
		}()
	}
	// ample virtual time: the slowest script plus transport latencies
	budget := 30 * time.Minute
	for _, cs := range sc.Conns {
		d := time.Duration(cs.StartMs) * time.Millisecond
		for k := range cs.C2S {
			if len(cs.C2SDelay) > 0 {
				d += time.Duration(cs.C2SDelay[k%len(cs.C2SDelay)]) * time.Millisecond
			}
		}
		for k := range cs.S2C {
			if len(cs.S2CDelay) > 0 {
				d += time.Duration(cs.S2CDelay[k%len(cs.S2CDelay)]) * time.Millisecond
			}
		}
		if 2*d+20*time.Minute > budget {
			budget = 2*d + 20*time.Minute
		}
	}
	time.Sleep(budget)
	// snapshot before the rig is torn down
	mu.Lock()
	for si, sh := range res.sessions {
		res.snapshotNote += fmt.Sprintf("[sesh %d closed=%v] ", si, sh.IsClosed())
		if sh.IsClosed() && sh.TerminalMsg() == "Received a closing notification frame" {
			res.peerIdleClose = true
		}
	}
	for _, l := range res.cliLinks {
		res.snapshotNote += fmt.Sprintf("[link %d A=%d B=%d] ", l.ID, l.A.CloseCalls, l.B.CloseCalls)
	}
	if os.Getenv("VERIF_DEBUG") != "" {
		hung := false
		for _, r := range res.conns {
			if !(r.cliExited && (!r.srvStarted || r.srvExited)) {
				hung = true
			}
		}
		if hung {
			buf := make([]byte, 8<<20)
			n := runtime.Stack(buf, true)
			os.WriteFile(os.Getenv("VERIF_OUT")+"/hung-goroutines.txt", buf[:n], 0o644)
		}
	}
	for _, r := range res.conns {
		r.closedInTime = r.closedSeen
		r.doneInTime = r.srvDone && r.cliDone
		r.exitedInTime = r.cliExited && (!r.srvStarted || r.srvExited)
	}
	mu.Unlock()
	// teardown
	if cdn != nil {
		cdn.front.Close()
	}
	localLn.Terminate()
	mu.Lock()
	stopped = true
	ss := append([]*mux.Session(nil), res.sessions...)
	mu.Unlock()
	for _, s := range ss {
		go s.Close()
	}
	srv.stop()
	for _, l := range localNet.All() {
		l.A.Close()
		l.B.Close()
	}
	for _, l := range cliNet.All() {
		l.A.Close()
		l.B.Close()
	}
	wg.Wait()
	return res, nil
}

// frWaitPeer waits until cond() holds or the socket delivers something / is closed under the waiter (which is
// how a proxy application notices that the tunnel behind its socket died).
func frWaitPeer(c net.Conn, cond func() bool) (n int, err error, closed bool) {
	type rr struct {
		n   int
		err error
	}
	ch := make(chan rr, 1)
	go func() {
		b := make([]byte, 64)
		n, err := c.Read(b)
		ch <- rr{n, err}
	}()
	for i := 0; i < 200000; i++ {
		if cond() {
			return 0, nil, false
		}
		select {
		case r := <-ch:
			return r.n, r.err, true
		default:
		}
		time.Sleep(50 * time.Millisecond)
	}
	return 0, nil, false
}

func frGenConn(rt *rapid.T, maxBytes int) frConn {
	var c frConn
	size := rapid.OneOf(rapid.IntRange(1, 100), rapid.IntRange(100, 5000), rapid.SampledFrom([]int{10240, 10241, 16132, 16133, 32768, 50000}))
	nc := rapid.IntRange(1, 6).Draw(rt, "nc2s")
	tot := 0
	for i := 0; i < nc && tot < maxBytes; i++ {
		n := size.Draw(rt, "c2s")
		if i == 0 && n < 4 {
			n = 4
		}
		tot += n
		c.C2S = append(c.C2S, n)
	}
	ns := rapid.IntRange(0, 6).Draw(rt, "ns2c")
	tot = 0
	for i := 0; i < ns && tot < maxBytes; i++ {
		n := size.Draw(rt, "s2c")
		tot += n
		c.S2C = append(c.S2C, n)
	}
	delay := rapid.SampledFrom([]int{0, 0, 0, 1, 7, 120, 2000, 31000, 400000})
	for i := 0; i < 3; i++ {
		c.C2SDelay = append(c.C2SDelay, delay.Draw(rt, "cd"))
		c.S2CDelay = append(c.S2CDelay, delay.Draw(rt, "sd"))
	}
	c.StartMs = rapid.SampledFrom([]int{0, 0, 0, 5, 300, 40000}).Draw(rt, "start")
	c.Closer = rapid.IntRange(0, 1).Draw(rt, "closer")
	// Eager is not generated: when the closer hangs up right after its last write, the server's relay (two copy loops
	// that each close both sockets when they end) may close the proxy socket while the other loop is still delivering
	// the buffered tail. The stream layer delivers everything (C03 holds, checked at layer 1); the loss is in the relay,
	// which no listed property covers. The code path is kept for experiments (replay files may set Eager).
	c.SlowReadMs = rapid.SampledFrom([]int{0, 0, 1, 20}).Draw(rt, "slowread")
	return c
}

// frGenHsSeg: 1-3 patterns of up to 14 exact segments of 1..600 bytes for the start of each direction of a link: the
// cuts fall inside the ClientHello, inside the server's reply (ServerHello, ChangeCipherSpec, certificate: 165-206
// bytes; HTTP upgrade), at the boundary between handshake and first record, and inside the first records.
func frGenHsSeg(rt *rapid.T) [][]int {
	var out [][]int
	n := rapid.IntRange(1, 3).Draw(rt, "nhs")
	for i := 0; i < n; i++ {
		var p []int
		m := rapid.IntRange(1, 14).Draw(rt, "nseg")
		for k := 0; k < m; k++ {
			p = append(p, rapid.SampledFrom([]int{1, 2, 4, 5, 6, 11, 33, 60, 97, 127, 128, 129, 133, 134, 160, 200, 333, 517, 600}).Draw(rt, "hseg"))
		}
		out = append(out, p)
	}
	return out
}

// BrowserSig values: the three documented ones in any letter case, now and then another browser's name or nothing at all.
// Whatever the client makes of a name it does not know (today: chrome's hello), every configuration it accepts must
// work and put a well-formed record stream on the wire.
var frBrowserGen = rapid.SampledFrom([]string{"chrome", "firefox", "safari", "chrome", "firefox", "safari", "chrome", "firefox", "safari",
	"Chrome", "FIREFOX", "Safari", "", "edge", "ios", "qq", "360", "android", "opera", "randomized"})

func frGen(maxConns int, directOnly bool) func(rt *rapid.T) frScenario {
	return func(rt *rapid.T) frScenario {
		var sc frScenario
		sc.Client = vClientCfg{
			UID:        vUIDb64(rapid.SliceOfN(rapid.Byte(), 16, 16).Draw(rt, "uid")),
			Method:     "shadowsocks",
			Enc:        rapid.SampledFrom([]string{"plain", "aes-256-gcm", "aes-128-gcm", "chacha20-poly1305"}).Draw(rt, "enc"),
			NumConn:    rapid.IntRange(0, 8).Draw(rt, "numconn"),
			Browser:    frBrowserGen.Draw(rt, "browser"),
			Transport:  "direct",
			ServerName: rapid.SampledFrom([]string{"www.bing.com", "random", "a.example.org", "RANDOM", "rAnDoM"}).Draw(rt, "sn"),
		}
		if !directOnly && rapid.IntRange(0, 3).Draw(rt, "cdn") == 0 {
			sc.Client.Transport = "cdn"
		}
		sc.SidBase = rapid.Uint32Range(0, 1<<31).Draw(rt, "sid")
		n := rapid.IntRange(1, maxConns).Draw(rt, "nconns")
		for i := 0; i < n; i++ {
			sc.Conns = append(sc.Conns, frGenConn(rt, 120000))
		}
		nl := rapid.IntRange(1, 4).Draw(rt, "nlinkpat")
		// (latency ms, segment bytes; 0 = whole record) pairs: tiny segments only without latency, so that a
		// handshake always fits the server's 15 s first-packet deadline
		pairs := [][2]int{{0, 0}, {0, 0}, {0, 1}, {0, 5}, {0, 100}, {1, 100}, {1, 0}, {3, 0}, {20, 1400}, {20, 9000}, {150, 0}, {900, 0}, {2500, 0}}
		for i := 0; i < nl; i++ {
			var la, se []int
			for k := 0; k < 3; k++ {
				p := rapid.SampledFrom(pairs).Draw(rt, "latseg")
				la = append(la, p[0])
				se = append(se, p[1])
			}
			sc.LinkLat = append(sc.LinkLat, la)
			sc.LinkSeg = append(sc.LinkSeg, se)
		}
		if rapid.IntRange(0, 2).Draw(rt, "hsseg") == 0 {
			sc.HsSeg = frGenHsSeg(rt)
		}
		return sc
	}
}

// frContentOracle is C01/C03 at layer 3.
func frDebugDump(fr *frResult) {
	if os.Getenv("VERIF_DEBUG") == "" {
		return
	}
	for idx, r := range fr.conns {
		fmt.Printf("DEBUG conn %d: %+v s2cErr=%v c2sErr=%v\n", idx, *r, r.s2cErr, r.c2sErr)
	}
	for si, sh := range fr.sessions {
		fmt.Printf("DEBUG   client session %d closed=%v terminal=%q\n", si, sh.IsClosed(), sh.TerminalMsg())
	}
	for _, l := range fr.cliLinks {
		fmt.Printf("DEBUG   link %d c2s wire=%d consumed=%d s2c wire=%d consumed=%d Aclosed=%v Bclosed=%v\n", l.ID, len(l.Wire(vk.AtoB)), l.Consumed(vk.AtoB), len(l.Wire(vk.BtoA)), l.Consumed(vk.BtoA), l.A.CloseCalls, l.B.CloseCalls)
	}
	fmt.Printf("DEBUG   snapshot: %s\n", fr.snapshotNote)
}

func frContentOracle(res *frResult) (labels []string, nontrivial bool, err error) {
	defer func() {
		if err != nil {
			frDebugDump(res)
		}
	}()
	for idx, r := range res.conns {
		cs := res.sc.Conns[idx]
		if r.contentErr != nil {
			return nil, false, vk.ViolateSig("l3-content", "connection %d: %v", idx, r.contentErr)
		}
		if cs.Eager {
			// only the closer's direction is promised in full (C03); the other one may be cut by the close
			if cs.Closer == 0 {
				if r.c2sGot != frTotal(cs.C2S) {
					return nil, false, vk.ViolateSig("l3-eager-close", "connection %d: the proxy client wrote %d bytes and closed at once; the proxy server received %d of them before end-of-stream (%v)", idx, frTotal(cs.C2S), r.c2sGot, r.c2sErr)
				}
			} else if r.srvStarted {
				if r.s2cGot != frTotal(cs.S2C) {
					return nil, false, vk.ViolateSig("l3-eager-close", "connection %d: the proxy server wrote %d bytes and closed at once; the proxy client received %d of them before end-of-stream (%v)", idx, frTotal(cs.S2C), r.s2cGot, r.s2cErr)
				}
			}
			continue
		}
		if r.c2sErr != nil {
			return nil, false, vk.ViolateSig("l3-content", "connection %d, proxy client -> proxy server: %v", idx, r.c2sErr)
		}
		if r.s2cErr != nil {
			return nil, false, vk.ViolateSig("l3-content", "connection %d, proxy server -> proxy client: %v", idx, r.s2cErr)
		}
		if !r.doneInTime && r.srvDone && r.cliDone {
			return nil, false, vk.ViolateSig("l3-stall", "connection %d completed only when the rig was being torn down", idx)
		}
		if !r.srvDone || r.c2sGot != frTotal(cs.C2S) {
			return nil, false, vk.ViolateSig("l3-stall", "connection %d: proxy server received %d of %d bytes within the scenario's time budget", idx, r.c2sGot, frTotal(cs.C2S))
		}
		if !r.cliDone || r.s2cGot != frTotal(cs.S2C) {
			return nil, false, vk.ViolateSig("l3-stall", "connection %d: proxy client received %d of %d bytes within the scenario's time budget", idx, r.s2cGot, frTotal(cs.S2C))
		}
	}
	return nil, true, nil
}

// frCloseOracle is C03 at layer 3: after one proxy side closed its socket, the other side reads end-of-stream
// and not a single byte beyond what was written.
func frCloseOracle(res *frResult) error {
	for idx, r := range res.conns {
		if res.sc.Conns[idx].Eager {
			continue // judged by the content oracle (everything the closer wrote arrived, then end-of-stream)
		}
		if !r.closedInTime {
			return vk.ViolateSig("l3-close", "connection %d: the surviving proxy socket never saw the end of the stream after the other side closed", idx)
		}
		if r.tailBytes != 0 {
			return vk.ViolateSig("l3-close", "connection %d: %d extra byte(s) arrived after everything written had been read", idx, r.tailBytes)
		}
		e := r.tailErrSrv
		if res.sc.Conns[idx].Closer == 1 {
			e = r.tailErrCli
		}
		if e == nil {
			return vk.ViolateSig("l3-close", "connection %d: read after the peer closed returned no error", idx)
		}
	}
	return nil
}

func frRun(t *testing.T, oracle func(*frResult) (vk.Result, error)) func(sc frScenario) (vk.Result, error) {
	return func(sc frScenario) (vk.Result, error) {
		var res vk.Result
		var verr error
		berr := vk.Bubble(t, func() {
			res, verr = vk.Protect(func() (vk.Result, error) {
				fr, err := frRunInBubble(sc)
				if err != nil {
					return vk.Result{}, err
				}
				return oracle(fr)
			})
		})
		if verr == nil && berr != nil {
			verr = vk.Violatef("goroutines left blocked or crashed after the rig was shut down: %v", strings.SplitN(berr.Error(), "\n", 2)[0])
		}
		return res, verr
	}
}

func TestVerif_C01_FullRig(t *testing.T) {
	vk.Run(t, "C01", "FullRig", frGen(12, false), frRun(t, func(fr *frResult) (vk.Result, error) {
		_, _, err := frContentOracle(fr)
		if err != nil && fr.peerIdleClose {
			return vk.Result{Labels: []string{"not-judged:server-idle-timeout-closed-the-session"}}, nil
		}
		res := vk.Result{Labels: []string{fmt.Sprintf("numconn=%d", fr.sc.Client.NumConn), "browser=" + fr.sc.Client.Browser, "transport=" + fr.sc.Client.Transport}}
		res.NonTrivial = len(fr.cliLinks) >= 2 && len(fr.sc.Conns) >= 2
		if res.NonTrivial {
			res.Labels = append(res.Labels, "several-streams-over-several-connections")
		}
		return res, err
	}))
}

// C05 at layer 3: the handshake and the records behind it share one byte stream. Whatever the segmentation of the
// handshake messages, the first record of either side must be taken from where the handshake ended - a handshake
// reader that consumes "what has arrived" instead of its messages shifts every later record of the connection.
func TestVerif_C05_HandshakeThenRecords(t *testing.T) {
	gen := func(rt *rapid.T) frScenario {
		sc := frGen(3, false)(rt)
		if rapid.IntRange(0, 1).Draw(rt, "ws") == 0 {
			sc.Client.Transport = "cdn"
		}
		sc.Client.NumConn = rapid.IntRange(0, 3).Draw(rt, "nc")
		sc.HsSeg = frGenHsSeg(rt)
		for i := range sc.Conns {
			sc.Conns[i].StartMs = 0
		}
		return sc
	}
	vk.Run(t, "C05", "HandshakeThenRecords", gen, frRun(t, func(fr *frResult) (vk.Result, error) {
		_, _, err := frContentOracle(fr)
		if err != nil && fr.peerIdleClose {
			return vk.Result{Labels: []string{"not-judged:server-idle-timeout-closed-the-session"}}, nil
		}
		return vk.Result{NonTrivial: true, Labels: []string{"transport=" + fr.sc.Client.Transport}}, err
	}))
}

func TestVerif_C03_FullRig(t *testing.T) {
	vk.Run(t, "C03", "FullRig", frGen(6, true), frRun(t, func(fr *frResult) (vk.Result, error) {
		res := vk.Result{NonTrivial: true}
		_, _, err := frContentOracle(fr)
		if err == nil {
			err = frCloseOracle(fr)
		}
		if err != nil && fr.peerIdleClose {
			return vk.Result{Labels: []string{"not-judged:server-idle-timeout-closed-the-session"}}, nil
		}
		return res, err
	}))
}

// ---- C12 at layer 3: connection resets under the full rig ----

func TestVerif_C12_FullRigFaults(t *testing.T) {
	gen := func(rt *rapid.T) frScenario {
		sc := frGen(8, true)(rt)
		n := rapid.IntRange(1, 3).Draw(rt, "nfaults")
		for i := 0; i < n; i++ {
			sc.Faults = append(sc.Faults, frFault{Link: rapid.IntRange(0, 9).Draw(rt, "flink"), AtMs: rapid.SampledFrom([]int{0, 1, 3, 50, 400, 3000, 35000, 41000, 70000}).Draw(rt, "fat")})
		}
		return sc
	}
	vk.Run(t, "C12", "FullRigFaults", gen, frRun(t, func(fr *frResult) (vk.Result, error) {
		res := vk.Result{}
		cut := 0
		for idx, r := range fr.conns {
			if r.contentErr != nil {
				return res, vk.ViolateSig("l3-fault-content", "connection %d: %v (under connection resets a reader may get a prefix, never different bytes)", idx, r.contentErr)
			}
			if !r.exitedInTime && os.Getenv("VERIF_DEBUG") != "" {
				fmt.Printf("DEBUG conn %d: %+v s2cErr=%v c2sErr=%v\n", idx, *r, r.s2cErr, r.c2sErr)
				for si, sh := range fr.sessions {
					fmt.Printf("DEBUG   client session %d closed=%v terminal=%q\n", si, sh.IsClosed(), sh.TerminalMsg())
				}
				for _, l := range fr.cliLinks {
					fmt.Printf("DEBUG   link %d c2s wire=%d consumed=%d s2c wire=%d consumed=%d Aclosed=%v Bclosed=%v\n", l.ID, len(l.Wire(vk.AtoB)), l.Consumed(vk.AtoB), len(l.Wire(vk.BtoA)), l.Consumed(vk.BtoA), l.A.CloseCalls, l.B.CloseCalls)
				}
				fmt.Printf("DEBUG   snapshot: %s\n", fr.snapshotNote)
			}
			if !r.exitedInTime {
				return res, vk.ViolateSig("l3-fault-hang", "connection %d: a proxy socket was left without completion, error or end-of-stream after a tunnel connection was reset (client side returned: %v, server side started/returned: %v/%v)", idx, r.cliExited, r.srvStarted, r.srvExited)
			}
			if !(r.srvDone && r.cliDone) {
				cut++
			}
		}
		res.NonTrivial = cut > 0
		if cut > 0 {
			res.Labels = append(res.Labels, "proxy-connection-cut-by-fault")
		} else {
			res.Labels = append(res.Labels, "all-connections-completed-despite-faults")
		}
		return res, nil
	}))
}

// ---- connection attempts failing while a session is being set up (open phase) ----

type c12Connect struct {
	Client vClientCfg
	// Fail[i] says how the i-th dial attempt fails: "" healthy, "reset" (reset before anything is written),
	// "reset-after-hello" (the ClientHello goes out, then the connection is reset), "eof" (server side closes
	// the connection right after accepting it), "reply-fails" (the server cannot write its reply), "reply-fails-late"
	// (the same, but only after the client's parallel connections have got their replies), "slow" (healthy, 10 ms latency), "reply-delayed" (healthy, the reply arrives 100 ms late)
	Fail []string
	// BackLeg (CDN transport only): the faults hit the connections between the CDN and ck-server instead of those
	// between the client and the CDN
	BackLeg bool `json:",omitempty"`
}

func c12ConnectGen(rt *rapid.T) c12Connect {
	sc := c12Connect{Client: vClientCfg{
		UID: vUIDb64(rapid.SliceOfN(rapid.Byte(), 16, 16).Draw(rt, "uid")), Method: "shadowsocks",
		Enc: "plain", NumConn: rapid.IntRange(0, 4).Draw(rt, "numconn"), Browser: rapid.SampledFrom([]string{"chrome", "firefox", "safari"}).Draw(rt, "browser"),
		Transport: rapid.SampledFrom([]string{"direct", "direct", "cdn"}).Draw(rt, "transport"), ServerName: "www.bing.com"}}
	n := rapid.IntRange(1, 6).Draw(rt, "nfail")
	for i := 0; i < n; i++ {
		sc.Fail = append(sc.Fail, rapid.SampledFrom([]string{"", "reset", "reset", "reset-after-hello", "eof", "reply-fails", "reply-fails", "reply-fails-late", "slow", "reply-delayed", "reset-before-reply-read"}).Draw(rt, "fail"))
	}
	if sc.Client.Transport == "cdn" {
		sc.BackLeg = rapid.Bool().Draw(rt, "backleg")
	}
	return sc
}

// c12ConnectRun runs a set-up fault scenario. The C12 sub-check judges the session; the C20 sub-check only whether
// the configured browser signature stayed in effect on every attempt (sigOnly).
func c12ConnectRun(t *testing.T, sigOnly bool) func(sc c12Connect) (vk.Result, error) {
	return func(sc c12Connect) (vk.Result, error) {
		checkSig := sigOnly
		var res vk.Result
		var verr error
		berr := vk.Bubble(t, func() {
			res, verr = vk.Protect(func() (vk.Result, error) {
				res := vk.Result{}
				raw := sc.Client.raw([32]byte{})
				srv := newVSrv(vSrvOpts{Bypass: [][]byte{raw.UID}, Methods: []string{"shadowsocks"}, AutoNet: true})
				defer srv.stop()
				srv.serve()
				go func() {
					for {
						pc, err := srv.proxyLn.Accept()
						if err != nil {
							return
						}
						go io.Copy(pc, pc)
					}
				}()
				go func() {
					for {
						rc, err := srv.redirLn.Accept()
						if err != nil {
							return
						}
						go io.Copy(io.Discard, rc)
					}
				}()
				cnet := &vk.Net{Auto: true}
				attempt := 0
				var amu sync.Mutex
				failed := 0
				cnet.OnLink = func(l *vk.Link) {
					amu.Lock()
					i := attempt
					attempt++
					amu.Unlock()
					if i >= len(sc.Fail) {
						return
					}
					switch sc.Fail[i] {
					case "reset":
						l.Reset()
						failed++
					case "eof":
						l.B.Close()
						failed++
					case "reply-fails":
						l.BreakWrites(vk.BtoA)
						failed++
					case "slow":
						// healthy, but everything the client sends takes 10 ms to arrive: its hello reaches the server
						// after those of the attempts made at the same time
						l.SetAuto(vk.AtoB, false)
						l.StartPump(vk.AtoB, []time.Duration{10 * time.Millisecond}, nil)
					case "reply-delayed":
						// healthy, but its hello takes 10 ms and the server's reply to it is held up for 100 ms (a full send
						// queue): the attempt sits between "session looked up" and "connection added" while others finish
						l.SetAuto(vk.AtoB, false)
						l.StartPump(vk.AtoB, []time.Duration{10 * time.Millisecond}, nil)
						l.SetGrantMode(vk.BtoA, true)
						go func() {
							time.Sleep(100 * time.Millisecond)
							l.SetGrantMode(vk.BtoA, false)
							for _, tk := range l.UnreleasedTickets(vk.BtoA) {
								l.ReleaseTicket(vk.BtoA, tk)
							}
						}()
					case "reset-before-reply-read":
						// the server's reply (and with it the server's view "this connection has joined") is still in flight when
						// the connection is reset 50 ms later: the server tears the session down, the client retries
						failed++
						l.SetAuto(vk.BtoA, false)
						go func() {
							time.Sleep(50 * time.Millisecond)
							l.Reset()
						}()
					case "reply-fails-late":
						// the server's reply is held up (a full send queue) until the client's other, parallel connections
						// have completed their handshakes; then the connection is reset and the reply write fails
						failed++
						l.SetGrantMode(vk.BtoA, true)
						go func() {
							time.Sleep(50 * time.Millisecond)
							l.Reset()
						}()
					case "reset-after-hello":
						failed++
						go func() {
							for k := 0; k < 1000 && len(l.Wire(vk.AtoB)) == 0; k++ {
								time.Sleep(time.Millisecond)
							}
							l.Reset()
						}()
					}
				}
				var dialer interface {
					Dial(network, address string) (net.Conn, error)
				} = &vk.Dialer{Net: cnet, Ln: srv.cliLn}
				if strings.EqualFold(sc.Client.Transport, "cdn") {
					cdn := &vCDN{front: vk.NewListener(), back: srv.dialer(), net: srv.net}
					if sc.BackLeg {
						bnet := &vk.Net{Auto: true}
						bnet.OnLink, cnet.OnLink = cnet.OnLink, nil
						cdn.back = &vk.Dialer{Net: bnet, Ln: srv.cliLn}
					}
					cdn.serve()
					defer cdn.front.Close()
					dialer = &vk.Dialer{Net: cnet, Ln: cdn.front}
				}
				cnet.Tap = true
				_, remote, auth, err := vMustProcess(sc.Client, srv.pub, time.Now)
				if err != nil {
					return res, fmt.Errorf("harness: %v", err)
				}
				auth.SessionId = 31337
				var sesh *mux.Session
				done := make(chan struct{})
				go func() {
					defer close(done)
					sesh = client.MakeSession(remote, auth, dialer)
				}()
				// failed attempts are retried after 3 s each
				time.Sleep(time.Duration(3*len(sc.Fail)+10) * time.Second)
				select {
				case <-done:
				default:
					return res, vk.ViolateSig("connect-fault-stuck", "client.MakeSession did not complete although only the first %d connection attempts failed", len(sc.Fail))
				}
				defer sesh.Close()
				// A failed attempt that had already joined the session on one side (reset after the hello went out), or
				// whose failure made the server discard the session it had just created while parallel attempts of the
				// same session were in flight, legitimately takes the session down (C12). What is never acceptable is a
				// session that looks alive but does not carry data.
				mayDie := false
				for _, f := range sc.Fail {
					if f == "reset-after-hello" || f == "reset-before-reply-read" || ((f == "reply-fails" || f == "reply-fails-late") && remote.NumConn >= 2) {
						mayDie = true
					}
				}
				// BrowserSig in effect on every attempt, failed and retried ones included: the ClientHello of each connection has
				// the shape (cipher suites and extension types, GREASE ignored) of a fresh hello of the configured browser.
				// Documented exception in the client: a failed attempt with the chrome signature is retried as firefox.
				if checkSig && !strings.EqualFold(sc.Client.Transport, "cdn") {
					want, werr := frFingerprintOf(srv.pub, sc.Client.Browser)
					if werr != nil {
						return res, fmt.Errorf("harness: %v", werr)
					}
					alt := want
					if strings.EqualFold(sc.Client.Browser, "chrome") {
						if alt, werr = frFingerprintOf(srv.pub, "firefox"); werr != nil {
							return res, fmt.Errorf("harness: %v", werr)
						}
					}
					for li, l := range cnet.All() {
						wire := l.Wire(vk.AtoB)
						recs, _ := vk.SplitTLSRecords(wire)
						if len(recs) == 0 || len(recs[0].Body) == 0 {
							continue
						}
						ch, perr := vk.ParseClientHelloHandshake(recs[0].Body)
						if perr != nil {
							continue // C10's subject
						}
						if fp := frFingerprint(ch); fp != want && fp != alt {
							return res, vk.ViolateSig("browsersig-lost", "connection attempt #%d (BrowserSig=%s, after %d failed attempts) sent a ClientHello that does not have the shape of that browser's hello: %s, want %s", li, sc.Client.Browser, failed, fp, want)
						}
					}
				}
				// several streams: each picks one of the session's connections at random, and every one must work
				nProbe := 6
				if remote.Singleplex {
					nProbe = 1
				}
				for k := 0; k < nProbe; k++ {
					st, err := sesh.OpenStream()
					if err != nil {
						if mayDie && sesh.IsClosed() {
							res.NonTrivial = true
							res.Labels = append(res.Labels, "session-torn-down-by-setup-fault")
							return res, nil
						}
						return res, vk.Violatef("OpenStream on the established session failed: %v", err)
					}
					msg := []byte(fmt.Sprintf("ping %d through the tunnel", k))
					st.Write(msg)
					buf := make([]byte, 100)
					st.SetReadDeadline(time.Now().Add(5 * time.Second))
					n, err := io.ReadFull(st, buf[:len(msg)])
					if err != nil || string(buf[:n]) != string(msg) {
						if mayDie && sesh.IsClosed() {
							res.NonTrivial = true
							res.Labels = append(res.Labels, "session-torn-down-by-setup-fault")
							return res, nil
						}
						diag := ""
						for _, l := range cnet.All() {
							diag += fmt.Sprintf(" [client link %d: client end closed=%v, far end closed=%v, sent %d, received %d bytes]", l.ID, l.A.IsClosed(), l.B.IsClosed(), len(l.Wire(vk.AtoB)), len(l.Wire(vk.BtoA)))
						}
						srv.sta.Panel.activeUsersM.RLock()
						for _, u := range srv.sta.Panel.activeUsers {
							u.sessionsM.RLock()
							for sid, ss := range u.sessions {
								diag += fmt.Sprintf(" [server session %d closed=%v]", sid, ss.IsClosed())
							}
							u.sessionsM.RUnlock()
						}
						srv.sta.Panel.activeUsersM.RUnlock()
						return res, vk.ViolateSig("connect-fault-broken-session", "the session established after failed connection attempts looks alive (closed=%v) but probe stream %d does not carry data: read %q, %v;%s", sesh.IsClosed(), k, buf[:n], err, diag)
					}
				}
				res.NonTrivial = failed > 0
				if failed > 0 {
					res.Labels = append(res.Labels, "connection-attempts-failed-before-success")
				}
				return res, nil
			})
		})
		if verr == nil && berr != nil {
			verr = vk.Violatef("goroutines left blocked or crashed: %v", strings.SplitN(berr.Error(), "\n", 2)[0])
		}
		return res, verr
	}
}

func TestVerif_C12_ConnectFault(t *testing.T) {
	vk.Run(t, "C12", "ConnectFault", c12ConnectGen, c12ConnectRun(t, false))
}

// C20: BrowserSig takes effect on every connection attempt, also on retries after failed ones.
func TestVerif_C20_SigAfterRetry(t *testing.T) {
	run := c12ConnectRun(t, true)
	vk.Run(t, "C20", "SigAfterRetry", func(rt *rapid.T) c12Connect {
		sc := c12ConnectGen(rt)
		sc.Client.Transport = "direct"
		return sc
	}, func(sc c12Connect) (vk.Result, error) {
		res, err := run(sc)
		if v, ok := err.(*vk.Violation); ok && v.Sig == "browsersig-lost" {
			return res, err
		}
		if err != nil && !isViolation(err) {
			return res, err // harness error
		}
		return res, nil // anything else is C12's subject
	})
}

// C20: ServerName takes effect on the wire: a configured name is the SNI of every connection's ClientHello, and
// "random" (any case) is "randomised for every connection made" (README): never sent literally, and the connections
// of a run do not all carry one and the same generated name.
func TestVerif_C20_ServerNames(t *testing.T) {
	gen := func(rt *rapid.T) frScenario {
		sc := frGen(2, true)(rt)
		sc.Client.NumConn = rapid.IntRange(0, 6).Draw(rt, "nc")
		sc.Client.ServerName = rapid.SampledFrom([]string{"random", "random", "RANDOM", "rAnDoM", "www.bing.com", "a.example.org", "randomised.example"}).Draw(rt, "sn2")
		return sc
	}
	vk.Run(t, "C20", "ServerNames", gen, frRun(t, func(fr *frResult) (vk.Result, error) {
		res := vk.Result{}
		var names []string
		for _, l := range fr.cliLinks {
			recs, _ := vk.SplitTLSRecords(l.Wire(vk.AtoB))
			if len(recs) == 0 {
				continue
			}
			ch, err := vk.ParseClientHelloHandshake(recs[0].Body)
			if err != nil {
				return res, vk.Violatef("connection %d does not start with a ClientHello: %v", l.ID, err)
			}
			if len(ch.SNI) != 1 {
				return res, vk.ViolateSig("servername", "connection %d: the ClientHello carries %d server names (%q), configured ServerName=%q", l.ID, len(ch.SNI), ch.SNI, fr.sc.Client.ServerName)
			}
			names = append(names, ch.SNI[0])
		}
		cfg := fr.sc.Client.ServerName
		if !strings.EqualFold(cfg, "random") {
			for i, n := range names {
				if n != cfg {
					return res, vk.ViolateSig("servername", "connection %d: ClientHello names %q, configured ServerName=%q", i, n, cfg)
				}
			}
			res.Labels = append(res.Labels, "fixed-name")
			return res, nil
		}
		distinct := map[string]bool{}
		for i, n := range names {
			if strings.EqualFold(n, "random") {
				return res, vk.ViolateSig("servername-random", "connection %d: ServerName=%q must be replaced by a generated name, the ClientHello names %q", i, cfg, n)
			}
			distinct[n] = true
		}
		if len(names) >= 3 {
			res.NonTrivial = true
			res.Labels = append(res.Labels, "random-name-over->=3-connections")
			if len(distinct) == 1 {
				return res, vk.ViolateSig("servername-random", "ServerName=%q: all %d connections made carry the same generated name %q; the name is to be randomised for every connection made", cfg, len(names), names[0])
			}
		}
		return res, nil
	}))
}

func isViolation(err error) bool { _, ok := err.(*vk.Violation); return ok }

// frFingerprint summarises the shape of a ClientHello: cipher suites in order and the set of extension types, GREASE
// values ignored.
func frFingerprint(ch *vk.RefClientHello) string {
	grease := func(v uint16) bool { return v&0x0f0f == 0x0a0a && v>>8 == v&0xff }
	var cs []string
	for _, c := range ch.CipherSuites {
		if !grease(c) {
			cs = append(cs, fmt.Sprintf("%04x", c))
		}
	}
	var ex []int
	for _, e := range ch.Extensions {
		if !grease(e.Type) {
			ex = append(ex, int(e.Type))
		}
	}
	sort.Ints(ex)
	return fmt.Sprintf("suites=%s ext=%v", strings.Join(cs, ","), ex)
}

var frFingerprints sync.Map

// frFingerprintOf captures a fresh first-attempt hello of the given signature (inside the current bubble).
func frFingerprintOf(pub [32]byte, browser string) (string, error) {
	k := strings.ToLower(browser)
	if v, ok := frFingerprints.Load(k); ok {
		return v.(string), nil
	}
	pkt, _, err := c08CaptureAt(pub, false, k, time.Now)
	if err != nil {
		return "", err
	}
	recs, _ := vk.SplitTLSRecords(pkt)
	if len(recs) == 0 {
		return "", fmt.Errorf("no record in reference hello")
	}
	ch, err := vk.ParseClientHelloHandshake(recs[0].Body)
	if err != nil {
		return "", err
	}
	fp := frFingerprint(ch)
	frFingerprints.Store(k, fp)
	return fp, nil
}
