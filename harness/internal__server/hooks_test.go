package server

import (
	"sync/atomic"

	"github.com/cbeuw/Cloak/internal/common"
)

// vHold parks the first goroutine that reaches the named common.VerifPoint until Release is called.
type vHold struct {
	name    string
	armed   atomic.Bool
	Reached chan struct{}
	release chan struct{}
}

func vArm(name string) *vHold {
	h := &vHold{name: name, Reached: make(chan struct{}), release: make(chan struct{})}
	h.armed.Store(true)
	common.SetVerifHook(func(n string) {
		if n == h.name && h.armed.CompareAndSwap(true, false) {
			close(h.Reached)
			<-h.release
		}
	})
	return h
}

func (h *vHold) IsReached() bool {
	select {
	case <-h.Reached:
		return true
	default:
		return false
	}
}

func (h *vHold) Release() {
	h.armed.Store(false)
	select {
	case <-h.release:
	default:
		close(h.release)
	}
	common.SetVerifHook(nil)
}
