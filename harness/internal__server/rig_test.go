package server

import (
	"crypto/ecdsa"
	"crypto/elliptic"
	"crypto/rand"
	"crypto/tls"
	"crypto/x509"
	"crypto/x509/pkix"
	"encoding/base64"
	"fmt"
	"io"
	"math/big"
	"net"
	"sync"
	"time"

	"github.com/cbeuw/Cloak/internal/client"
	"github.com/cbeuw/Cloak/internal/common"
	"github.com/cbeuw/Cloak/internal/ecdh"
	mux "github.com/cbeuw/Cloak/internal/multiplex"
	"github.com/cbeuw/Cloak/internal/server/usermanager"
	vk "github.com/cbeuw/Cloak/internal/verifkit"
)

// vSrv: a ck-server State wired to the in-memory network (to be used inside a synctest bubble).
type vSrv struct {
	sta     *State
	mgr     usermanager.UserManager
	net     *vk.Net
	cliLn   *vk.Listener // connections dialled by clients (or by the CDN shim)
	redirLn *vk.Listener // the redirect target ("web server")
	proxyLn *vk.Listener // the proxy server behind ck-server
	pv, pub [32]byte
	admin   []byte
	bypass  [][]byte
	stopped bool
	mu      sync.Mutex
}

var vStaticOnce sync.Once
var vStaticPv, vStaticPub [32]byte

func vStaticKeys() ([32]byte, [32]byte) {
	vStaticOnce.Do(func() {
		pv, pub, _ := ecdh.GenerateKey(rand.Reader)
		vStaticPv = *(pv.(*[32]byte))
		vStaticPub = *(pub.(*[32]byte))
	})
	return vStaticPv, vStaticPub
}

type vSrvOpts struct {
	Manager  usermanager.UserManager
	Admin    []byte
	Bypass   [][]byte
	Methods  []string
	Now      func() time.Time
	Tap      bool
	AutoNet  bool
	NoRedirP bool // leave RedirPort empty (port taken from the listening address)
}

func newVSrv(o vSrvOpts) *vSrv {
	s := &vSrv{net: &vk.Net{Tap: o.Tap, Auto: o.AutoNet}, cliLn: vk.NewListener(), redirLn: vk.NewListener(), proxyLn: vk.NewListener()}
	s.pv, s.pub = vStaticKeys()
	if o.Manager == nil {
		o.Manager = &usermanager.Voidmanager{}
	}
	if o.Now == nil {
		o.Now = time.Now
	}
	s.mgr = o.Manager
	pv := s.pv
	sta := &State{
		ProxyBook:   map[string]net.Addr{},
		ProxyDialer: &vk.Dialer{Net: s.net, Ln: s.proxyLn},
		WorldState:  common.WorldState{Rand: rand.Reader, Now: o.Now},
		AdminUID:    o.Admin,
		BypassUID:   map[[16]byte]struct{}{},
		StaticPv:    &pv,
		RedirHost:   &net.IPAddr{IP: net.IPv4(10, 9, 9, 9)},
		RedirPort:   "443",
		RedirDialer: &vk.Dialer{Net: s.net, Ln: s.redirLn},
		UsedRandom:  map[[32]byte]int64{},
		Panel:       vPanel(o.Manager),
	}
	vState(sta)
	if o.NoRedirP {
		sta.RedirPort = ""
	}
	if len(o.Methods) == 0 {
		o.Methods = []string{"shadowsocks"}
	}
	for _, m := range o.Methods {
		sta.ProxyBook[m] = &net.TCPAddr{IP: net.IPv4(10, 8, 8, 8), Port: 8388}
	}
	var a [16]byte
	for _, u := range o.Bypass {
		copy(a[:], u)
		sta.BypassUID[a] = struct{}{}
	}
	if len(o.Admin) != 0 {
		copy(a[:], o.Admin)
		sta.BypassUID[a] = struct{}{}
	}
	s.sta = sta
	s.admin = o.Admin
	s.bypass = o.Bypass
	return s
}

// serve accepts client connections and dispatches them like server.Serve does.
func (s *vSrv) serve() {
	go func() {
		for {
			c, err := s.cliLn.Accept()
			if err != nil {
				return
			}
			go dispatchConnection(c, s.sta)
		}
	}()
}

func (s *vSrv) dialer() *vk.Dialer { return &vk.Dialer{Net: s.net, Ln: s.cliLn} }

// stop closes every session and every link so that all goroutines of the rig can end.
func (s *vSrv) stop() {
	s.cliLn.Close()
	s.redirLn.Close()
	s.proxyLn.Close()
	s.sta.Panel.activeUsersM.Lock()
	var users []*ActiveUser
	for _, u := range s.sta.Panel.activeUsers {
		users = append(users, u)
	}
	s.sta.Panel.activeUsersM.Unlock()
	for _, u := range users {
		u.sessionsM.Lock()
		var ss []*mux.Session
		for _, sesh := range u.sessions {
			ss = append(ss, sesh)
		}
		u.sessionsM.Unlock()
		for _, sesh := range ss {
			go sesh.Close()
		}
	}
	for _, l := range s.net.All() {
		l.SetAuto(vk.AtoB, true)
		l.SetAuto(vk.BtoA, true)
		l.A.Close()
		l.B.Close()
	}
}

// vClientCfg describes one ck-client configuration.
type vClientCfg struct {
	UID        string // base64
	Method     string
	Enc        string
	NumConn    int
	Browser    string
	Transport  string
	ServerName string
	UDP        bool
	Alt        []string
}

func (c vClientCfg) raw(pub [32]byte) client.RawConfig {
	uid, _ := base64.StdEncoding.DecodeString(c.UID)
	return client.RawConfig{
		ServerName: c.ServerName, ProxyMethod: c.Method, EncryptionMethod: c.Enc, UID: uid, PublicKey: pub[:], NumConn: c.NumConn,
		LocalHost: "127.0.0.1", LocalPort: "1984", RemoteHost: "10.1.0.1", RemotePort: "443", UDP: c.UDP,
		BrowserSig: c.Browser, Transport: c.Transport, AlternativeNames: c.Alt,
	}
}

// ---- CDN shim: terminates the client's TLS and forwards the plaintext (WebSocket upgrade) to ck-server ----

var vCertOnce sync.Once
var vCert tls.Certificate

func vSelfSigned() tls.Certificate {
	vCertOnce.Do(func() {
		key, _ := ecdsa.GenerateKey(elliptic.P256(), rand.Reader)
		tmpl := &x509.Certificate{SerialNumber: big.NewInt(1), Subject: pkix.Name{CommonName: "cdn.example"},
			NotBefore: time.Unix(0, 0), NotAfter: time.Date(2100, 1, 1, 0, 0, 0, 0, time.UTC), KeyUsage: x509.KeyUsageDigitalSignature,
			ExtKeyUsage: []x509.ExtKeyUsage{x509.ExtKeyUsageServerAuth}, DNSNames: []string{"cdn.example"}}
		der, _ := x509.CreateCertificate(rand.Reader, tmpl, tmpl, &key.PublicKey, key)
		vCert = tls.Certificate{Certificate: [][]byte{der}, PrivateKey: key}
	})
	return vCert
}

// vCDN accepts on front and, per connection, performs a TLS server handshake and pipes the plaintext to a new
// connection dialled through back.
type vCDN struct {
	front *vk.Listener
	back  *vk.Dialer
	net   *vk.Net
	mu    sync.Mutex
	// Backs are the shim->server links, in accept order (their AtoB wire holds the plaintext first packet)
	Backs []*vk.Link
}

func (c *vCDN) dialer() *vk.Dialer { return &vk.Dialer{Net: c.net, Ln: c.front} }

func (c *vCDN) serve() {
	go func() {
		for {
			conn, err := c.front.Accept()
			if err != nil {
				return
			}
			go c.handle(conn)
		}
	}()
}

func (c *vCDN) handle(conn net.Conn) {
	cfg := &tls.Config{Certificates: []tls.Certificate{vSelfSigned()}, Time: time.Now}
	tc := tls.Server(conn, cfg)
	if err := tc.Handshake(); err != nil {
		conn.Close()
		return
	}
	bc, err := c.back.Dial("tcp", "origin")
	if err != nil {
		tc.Close()
		return
	}
	c.mu.Lock()
	c.Backs = append(c.Backs, bc.(*vk.End).Link())
	c.mu.Unlock()
	go func() { io.Copy(bc, tc); bc.Close(); tc.Close() }()
	go func() { io.Copy(tc, bc); tc.Close(); bc.Close() }()
}

func vUIDb64(b []byte) string { return base64.StdEncoding.EncodeToString(b) }

func vMustProcess(c vClientCfg, pub [32]byte, now func() time.Time) (client.LocalConnConfig, client.RemoteConnConfig, client.AuthInfo, error) {
	raw := c.raw(pub)
	l, r, a, err := raw.ProcessRawConfig(common.WorldState{Rand: rand.Reader, Now: now})
	if err != nil {
		return l, r, a, fmt.Errorf("ProcessRawConfig: %v", err)
	}
	return l, r, a, nil
}
