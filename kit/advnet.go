package verifkit

import (
	"errors"
	"fmt"
	"io"
	"net"
	"os"
	"runtime"
	"sync"
	"time"
)

// advnet: an in-memory network whose delivery is owned by the test.
//
// A Link is a pair of net.Conn ends (A = the dialing side, B = the accepting side). Every Write becomes one
// "chunk" in the pending queue of its direction; the controller moves bytes from pending to readable
// (DeliverChunk / DeliverBytes / DeliverAll) or the direction runs in auto mode (delivered at once).
// Close is TCP-like: bytes written before Close stay deliverable, then the peer reads EOF. Reset discards
// pending bytes and makes both ends fail after what had been delivered.
//
// All blocking uses sync.Cond so that goroutines parked in Read are "durably blocked" for testing/synctest.

type Dir int

const (
	AtoB Dir = 0
	BtoA Dir = 1
)

var ErrReset = errors.New("advnet: connection reset by peer")

type timeoutError struct{}

func (timeoutError) Error() string   { return "advnet: i/o timeout" }
func (timeoutError) Timeout() bool   { return true }
func (timeoutError) Temporary() bool { return true }
func (timeoutError) Unwrap() error   { return os.ErrDeadlineExceeded }

// WriteEvent is one Write call as seen by the tap.
type WriteEvent struct {
	Off  int64
	Len  int
	Time time.Time
}

type half struct {
	pending    [][]byte
	pendingLen int
	readable   []byte
	wclosed    bool // writer end closed: EOF after everything delivered
	reset      bool
	wfail      bool // writes in this direction fail (the peer's RST reached the writer), reads are unaffected
	auto       bool
	limit      int // >0: Write blocks while pendingLen+len(readable) >= limit (back pressure)
	// partial (with limit > 0): like a TCP socket whose send buffer is full, a Write hands over what fits and waits with
	// the rest; a write deadline that passes meanwhile returns the number of bytes already accepted and a timeout
	partial   bool
	wire      []byte
	events    []WriteEvent
	tap       bool
	readTotal int64
	readTimes []WriteEvent // (offset,len,time) of successful reads
	// datagram mode: message boundaries are kept (one Write = one Read, empty messages included, excess
	// bytes of a message that does not fit the reader's buffer are dropped like UDP does)
	dgram bool
	msgs  [][]byte
}

type Link struct {
	ID   int
	mu   sync.Mutex
	cond *sync.Cond
	h    [2]*half // h[AtoB]: written by A, read by B
	A, B *End
	// ticket mode: every Write call on the direction draws a ticket on entry and waits until the
	// controller releases that ticket (C05 writer scheduling)
	grantMode [2]bool
	tickets   [2]int
	released  [2]map[int]bool
}

type End struct {
	l          *Link
	isA        bool
	closed     bool
	CloseCalls int
	rdeadline  time.Time
	rtimer     *time.Timer
	wdeadline  time.Time
	writing    bool // a partial-mode Write is in progress on this end
	wtimer     *time.Timer
	local      net.Addr
	remote     net.Addr
	// OnClose, if set, is called (outside the lock) the first time the end is closed.
	OnClose func()
}

func NewLink(id int, tap bool) *Link {
	l := &Link{ID: id}
	l.cond = sync.NewCond(&l.mu)
	l.h[0] = &half{tap: tap}
	l.h[1] = &half{tap: tap}
	a := &net.TCPAddr{IP: net.IPv4(10, 0, byte(id>>8), byte(id)), Port: 40000 + id%20000}
	b := &net.TCPAddr{IP: net.IPv4(10, 1, 0, 1), Port: 443}
	l.A = &End{l: l, isA: true, local: a, remote: b}
	l.B = &End{l: l, isA: false, local: b, remote: a}
	return l
}

func (e *End) rd() *half {
	if e.isA {
		return e.l.h[BtoA]
	}
	return e.l.h[AtoB]
}
func (e *End) wr() *half {
	if e.isA {
		return e.l.h[AtoB]
	}
	return e.l.h[BtoA]
}
func (e *End) wdir() Dir {
	if e.isA {
		return AtoB
	}
	return BtoA
}
func (e *End) peer() *End {
	if e.isA {
		return e.l.B
	}
	return e.l.A
}

func (e *End) Read(p []byte) (int, error) {
	l := e.l
	l.mu.Lock()
	defer l.mu.Unlock()
	h := e.rd()
	for {
		if e.closed {
			return 0, net.ErrClosed
		}
		if h.dgram && len(h.msgs) > 0 {
			m := h.msgs[0]
			h.msgs = h.msgs[1:]
			n := copy(p, m)
			h.readTotal += int64(n)
			l.cond.Broadcast()
			return n, nil
		}
		if len(h.readable) > 0 {
			if len(p) == 0 {
				return 0, nil
			}
			n := copy(p, h.readable)
			h.readable = h.readable[n:]
			if h.tap {
				h.readTimes = append(h.readTimes, WriteEvent{Off: h.readTotal, Len: n, Time: time.Now()})
			}
			h.readTotal += int64(n)
			l.cond.Broadcast()
			return n, nil
		}
		if h.reset {
			return 0, ErrReset
		}
		if h.wclosed && h.pendingLen == 0 {
			return 0, io.EOF
		}
		if !e.rdeadline.IsZero() && !time.Now().Before(e.rdeadline) {
			return 0, timeoutError{}
		}
		l.cond.Wait()
	}
}

func (e *End) Write(p []byte) (int, error) {
	l := e.l
	l.mu.Lock()
	defer l.mu.Unlock()
	h := e.wr()
	d := e.wdir()
	if l.grantMode[d] {
		tk := l.tickets[d]
		l.tickets[d]++
		l.cond.Broadcast()
		for !l.released[d][tk] && !e.closed && !h.reset {
			l.cond.Wait()
		}
	}
	if h.partial && h.limit > 0 && !h.dgram {
		// like net.Conn, whose Write holds the descriptor's write lock until everything is written: concurrent Writes
		// on one end never interleave
		for e.writing && !e.closed && !h.reset && !h.wfail {
			l.cond.Wait()
		}
		e.writing = true
		defer func() {
			e.writing = false
			l.cond.Broadcast()
		}()
		written := 0
		for written < len(p) {
			if e.closed {
				return written, net.ErrClosed
			}
			if h.reset || h.wfail {
				return written, ErrReset
			}
			if !e.wdeadline.IsZero() && !time.Now().Before(e.wdeadline) {
				return written, timeoutError{}
			}
			room := h.limit - h.pendingLen - len(h.readable)
			if h.limit <= 0 || e.peer().closed {
				room = len(p) - written
			}
			if room <= 0 {
				l.cond.Wait()
				continue
			}
			k := len(p) - written
			if k > room {
				k = room
			}
			c := append([]byte(nil), p[written:written+k]...)
			if h.tap {
				h.events = append(h.events, WriteEvent{Off: int64(len(h.wire)), Len: len(c), Time: time.Now()})
				h.wire = append(h.wire, c...)
			}
			if !e.peer().closed {
				if h.auto {
					h.readable = append(h.readable, c...)
				} else {
					h.pending = append(h.pending, c)
					h.pendingLen += len(c)
				}
			}
			written += k
			l.cond.Broadcast()
		}
		return written, nil
	}
	for {
		if e.closed {
			return 0, net.ErrClosed
		}
		if h.reset || h.wfail {
			return 0, ErrReset
		}
		if !e.wdeadline.IsZero() && !time.Now().Before(e.wdeadline) {
			return 0, timeoutError{}
		}
		if h.limit > 0 && h.pendingLen+len(h.readable) >= h.limit && !e.peer().closed {
			l.cond.Wait()
			continue
		}
		break
	}
	c := append([]byte(nil), p...)
	if h.tap {
		h.events = append(h.events, WriteEvent{Off: int64(len(h.wire)), Len: len(c), Time: time.Now()})
		h.wire = append(h.wire, c...)
	}
	if e.peer().closed {
		// TCP would accept the bytes and later answer with RST; they are never read
		return len(p), nil
	}
	if h.dgram {
		h.msgs = append(h.msgs, c)
	} else if h.auto {
		h.readable = append(h.readable, c...)
	} else {
		h.pending = append(h.pending, c)
		h.pendingLen += len(c)
	}
	l.cond.Broadcast()
	return len(p), nil
}

func (e *End) Close() error {
	l := e.l
	l.mu.Lock()
	e.CloseCalls++
	if e.closed {
		l.mu.Unlock()
		return net.ErrClosed
	}
	e.closed = true
	e.wr().wclosed = true
	// what the peer sent us and we never read is gone
	r := e.rd()
	r.pending, r.pendingLen = nil, 0
	if e.rtimer != nil {
		e.rtimer.Stop()
	}
	if e.wtimer != nil {
		e.wtimer.Stop()
	}
	cb := e.OnClose
	l.cond.Broadcast()
	l.mu.Unlock()
	if cb != nil {
		cb()
	}
	return nil
}

func (e *End) IsClosed() bool {
	e.l.mu.Lock()
	defer e.l.mu.Unlock()
	return e.closed
}

func (e *End) LocalAddr() net.Addr  { return e.local }
func (e *End) RemoteAddr() net.Addr { return e.remote }

func (e *End) SetDeadline(t time.Time) error {
	e.SetWriteDeadline(t)
	return e.SetReadDeadline(t)
}

// SetWriteDeadline: as with net.Conn, a Write that starts or is still blocked after t fails with a timeout error.
func (e *End) SetWriteDeadline(t time.Time) error {
	l := e.l
	l.mu.Lock()
	defer l.mu.Unlock()
	e.wdeadline = t
	if e.wtimer != nil {
		e.wtimer.Stop()
		e.wtimer = nil
	}
	if !t.IsZero() {
		d := time.Until(t)
		if d < 0 {
			d = 0
		}
		e.wtimer = time.AfterFunc(d, func() {
			l.mu.Lock()
			l.cond.Broadcast()
			l.mu.Unlock()
		})
	}
	l.cond.Broadcast()
	return nil
}
func (e *End) SetReadDeadline(t time.Time) error {
	l := e.l
	l.mu.Lock()
	defer l.mu.Unlock()
	e.rdeadline = t
	if e.rtimer != nil {
		e.rtimer.Stop()
		e.rtimer = nil
	}
	if !t.IsZero() {
		d := time.Until(t)
		if d < 0 {
			d = 0
		}
		e.rtimer = time.AfterFunc(d, func() {
			l.mu.Lock()
			l.cond.Broadcast()
			l.mu.Unlock()
		})
	}
	l.cond.Broadcast()
	return nil
}

// ---- controller side ----

func (l *Link) SetAuto(d Dir, auto bool) {
	l.mu.Lock()
	h := l.h[d]
	h.auto = auto
	if auto {
		for _, c := range h.pending {
			h.readable = append(h.readable, c...)
		}
		h.pending, h.pendingLen = nil, 0
	}
	l.cond.Broadcast()
	l.mu.Unlock()
}

// SetPartialWrites makes direction d behave like a TCP socket with a full send buffer once its limit is reached: a
// Write hands over what fits and blocks with the rest (see half.partial).
func (l *Link) SetPartialWrites(d Dir, on bool) {
	l.mu.Lock()
	l.h[d].partial = on
	l.cond.Broadcast()
	l.mu.Unlock()
}

func (l *Link) SetLimit(d Dir, n int) {
	l.mu.Lock()
	l.h[d].limit = n
	l.cond.Broadcast()
	l.mu.Unlock()
}

func (l *Link) PendingChunks(d Dir) int {
	l.mu.Lock()
	defer l.mu.Unlock()
	return len(l.h[d].pending)
}

func (l *Link) PendingBytes(d Dir) int {
	l.mu.Lock()
	defer l.mu.Unlock()
	return l.h[d].pendingLen
}

// HeadChunk returns a copy of the first pending chunk (nil if none).
func (l *Link) HeadChunk(d Dir) []byte {
	l.mu.Lock()
	defer l.mu.Unlock()
	if len(l.h[d].pending) == 0 {
		return nil
	}
	return append([]byte(nil), l.h[d].pending[0]...)
}

// Unread returns the number of delivered bytes the reader has not consumed yet.
func (l *Link) Unread(d Dir) int {
	l.mu.Lock()
	defer l.mu.Unlock()
	return len(l.h[d].readable)
}

// DeliverChunk makes the first pending chunk of direction d readable. It returns the number of bytes moved.
func (l *Link) DeliverChunk(d Dir) int {
	l.mu.Lock()
	defer l.mu.Unlock()
	h := l.h[d]
	if len(h.pending) == 0 {
		return 0
	}
	c := h.pending[0]
	h.pending = h.pending[1:]
	h.pendingLen -= len(c)
	h.readable = append(h.readable, c...)
	l.cond.Broadcast()
	return len(c)
}

// DeliverBytes moves up to n bytes from the head of the pending queue to the reader.
func (l *Link) DeliverBytes(d Dir, n int) int {
	l.mu.Lock()
	defer l.mu.Unlock()
	h := l.h[d]
	moved := 0
	for n > 0 && len(h.pending) > 0 {
		c := h.pending[0]
		k := len(c)
		if k > n {
			k = n
		}
		h.readable = append(h.readable, c[:k]...)
		if k == len(c) {
			h.pending = h.pending[1:]
		} else {
			h.pending[0] = c[k:]
		}
		h.pendingLen -= k
		n -= k
		moved += k
	}
	if moved > 0 {
		l.cond.Broadcast()
	}
	return moved
}

func (l *Link) DeliverAll(d Dir) int {
	l.mu.Lock()
	defer l.mu.Unlock()
	h := l.h[d]
	moved := 0
	for _, c := range h.pending {
		h.readable = append(h.readable, c...)
		moved += len(c)
	}
	h.pending, h.pendingLen = nil, 0
	if moved > 0 {
		l.cond.Broadcast()
	}
	return moved
}

// Reset breaks the link like a TCP reset: undelivered bytes are lost, both ends fail after reading what
// had already been delivered.
func (l *Link) Reset() {
	l.mu.Lock()
	for _, h := range l.h {
		h.reset = true
		h.pending, h.pendingLen = nil, 0
	}
	l.cond.Broadcast()
	l.mu.Unlock()
}

// InjectReadable appends raw bytes to what end B (d==AtoB) or A (d==BtoA) can read, as if the peer sent them.
func (l *Link) InjectReadable(d Dir, b []byte) {
	l.mu.Lock()
	l.h[d].readable = append(l.h[d].readable, b...)
	l.cond.Broadcast()
	l.mu.Unlock()
}

// Wire returns every byte ever written in direction d (tap must be on).
func (l *Link) Wire(d Dir) []byte {
	l.mu.Lock()
	defer l.mu.Unlock()
	return append([]byte(nil), l.h[d].wire...)
}

// WireLen returns the number of bytes written so far in direction d (tap).
func (l *Link) WireLen(d Dir) int {
	l.mu.Lock()
	defer l.mu.Unlock()
	return len(l.h[d].wire)
}

// WireFrom returns a copy of the tap of direction d from offset off on.
func (l *Link) WireFrom(d Dir, off int) []byte {
	l.mu.Lock()
	defer l.mu.Unlock()
	if off >= len(l.h[d].wire) {
		return nil
	}
	return append([]byte(nil), l.h[d].wire[off:]...)
}

func (l *Link) Events(d Dir) []WriteEvent {
	l.mu.Lock()
	defer l.mu.Unlock()
	return append([]WriteEvent(nil), l.h[d].events...)
}

func (l *Link) ReadEvents(d Dir) []WriteEvent {
	l.mu.Lock()
	defer l.mu.Unlock()
	return append([]WriteEvent(nil), l.h[d].readTimes...)
}

func (l *Link) WriterClosed(d Dir) bool {
	l.mu.Lock()
	defer l.mu.Unlock()
	return l.h[d].wclosed
}

// ticket mode
func (l *Link) SetGrantMode(d Dir, on bool) {
	l.mu.Lock()
	l.grantMode[d] = on
	if l.released[d] == nil {
		l.released[d] = map[int]bool{}
	}
	l.cond.Broadcast()
	l.mu.Unlock()
}

// Tickets returns the number of tickets drawn so far (= Write calls entered) in direction d.
func (l *Link) Tickets(d Dir) int {
	l.mu.Lock()
	defer l.mu.Unlock()
	return l.tickets[d]
}

func (l *Link) UnreleasedTickets(d Dir) []int {
	l.mu.Lock()
	defer l.mu.Unlock()
	var out []int
	for t := 0; t < l.tickets[d]; t++ {
		if !l.released[d][t] {
			out = append(out, t)
		}
	}
	return out
}

func (l *Link) ReleaseTicket(d Dir, t int) {
	l.mu.Lock()
	if l.released[d] == nil {
		l.released[d] = map[int]bool{}
	}
	l.released[d][t] = true
	l.cond.Broadcast()
	l.mu.Unlock()
}

// ---- listener / dialer ----

type Listener struct {
	mu      sync.Mutex
	cond    *sync.Cond
	queue   []*End
	closed  bool
	goexit  bool
	addr    net.Addr
	Accepts int
}

func NewListener() *Listener {
	ln := &Listener{addr: &net.TCPAddr{IP: net.IPv4(10, 1, 0, 1), Port: 443}}
	ln.cond = sync.NewCond(&ln.mu)
	return ln
}

func (ln *Listener) Accept() (net.Conn, error) {
	ln.mu.Lock()
	defer ln.mu.Unlock()
	for {
		if len(ln.queue) > 0 {
			c := ln.queue[0]
			ln.queue = ln.queue[1:]
			ln.Accepts++
			return c, nil
		}
		if ln.closed {
			if ln.goexit {
				runtime.Goexit() // runs the deferred Unlock
			}
			return nil, net.ErrClosed
		}
		ln.cond.Wait()
	}
}

func (ln *Listener) Push(e *End) {
	ln.mu.Lock()
	ln.queue = append(ln.queue, e)
	ln.cond.Broadcast()
	ln.mu.Unlock()
}

func (ln *Listener) Close() error {
	ln.mu.Lock()
	ln.closed = true
	ln.cond.Broadcast()
	ln.mu.Unlock()
	return nil
}

// Terminate closes the listener so that goroutines blocked in (or later calling) Accept end through
// runtime.Goexit - this is how accept loops without an exit path are stopped at bubble teardown.
func (ln *Listener) Terminate() {
	ln.mu.Lock()
	ln.closed = true
	ln.goexit = true
	ln.cond.Broadcast()
	ln.mu.Unlock()
}

func (ln *Listener) Addr() net.Addr { return ln.addr }

// Net creates links and keeps them for inspection.
type Net struct {
	mu    sync.Mutex
	Links []*Link
	Tap   bool
	Auto  bool
	// OnLink is called for each link created by a Dialer (before the B end is queued)
	OnLink func(*Link)
}

func (n *Net) NewLink() *Link {
	n.mu.Lock()
	l := NewLink(len(n.Links), n.Tap)
	if n.Auto {
		l.h[0].auto, l.h[1].auto = true, true
	}
	n.Links = append(n.Links, l)
	cb := n.OnLink
	n.mu.Unlock()
	if cb != nil {
		cb(l)
	}
	return l
}

func (n *Net) All() []*Link {
	n.mu.Lock()
	defer n.mu.Unlock()
	return append([]*Link(nil), n.Links...)
}

// Dialer hands the B end of each new link to a Listener and returns the A end.
type Dialer struct {
	Net *Net
	Ln  *Listener
	// Fail, if set, makes Dial return an error
	Fail  bool
	Dials int
	// ServerPort, if non-zero, is the server-side port of the links this dialer creates (default 443)
	ServerPort int
	// Addrs records the "network address" pairs the dialer was asked for
	Addrs []string
	mu    sync.Mutex
}

// DialCount returns the number of Dial calls so far.
func (d *Dialer) DialCount() int {
	d.mu.Lock()
	defer d.mu.Unlock()
	return d.Dials
}

// SetFail makes subsequent Dial calls fail (true) or succeed again (false).
func (d *Dialer) SetFail(on bool) {
	d.mu.Lock()
	d.Fail = on
	d.mu.Unlock()
}

func (d *Dialer) Dial(network, address string) (net.Conn, error) {
	d.mu.Lock()
	d.Dials++
	d.Addrs = append(d.Addrs, network+" "+address)
	fail := d.Fail
	d.mu.Unlock()
	if fail {
		return nil, fmt.Errorf("advnet: dial %s %s refused", network, address)
	}
	l := d.Net.NewLink()
	if d.ServerPort != 0 {
		l.SetServerPort(d.ServerPort)
	}
	d.Ln.Push(l.B)
	return l.A, nil
}

// SetServerPort changes the port of the B ("server") side address of the link: what the accepting side sees as its
// local address and the dialling side as the remote one (a server listening on several ports).
func (l *Link) SetServerPort(port int) {
	b := &net.TCPAddr{IP: net.IPv4(10, 1, 0, 1), Port: port}
	l.A.remote, l.B.local = b, b
}

// Link returns the link this end belongs to.
func (e *End) Link() *Link { return e.l }

// StartPump turns direction d into a free-running channel with a generated latency/segmentation pattern:
// whenever bytes are pending it sleeps lat[i] (virtual clock inside a bubble) and then delivers seg[i] bytes
// (seg[i] <= 0: one whole chunk). The goroutine ends when the writer end is closed and nothing is pending.
func (l *Link) StartPump(d Dir, lat []time.Duration, seg []int) {
	l.StartPumpAfter(d, nil, lat, seg)
}

// StartPumpAfter is StartPump preceded by a prefix of exact segments: the first bytes of the direction arrive in
// segments of pre[0], pre[1], ... bytes, 1 ms apart - inside a bubble that means the reader has consumed everything
// that was deliverable before the next segment arrives, so the cut positions are exactly the generated ones.
func (l *Link) StartPumpAfter(d Dir, pre []int, lat []time.Duration, seg []int) {
	pre = append([]int(nil), pre...)
	if len(lat) == 0 {
		lat = []time.Duration{0}
	}
	if len(seg) == 0 {
		seg = []int{0}
	}
	go func() {
		for i := 0; ; i++ {
			l.mu.Lock()
			h := l.h[d]
			for h.pendingLen == 0 && !h.wclosed && !h.reset && !h.auto {
				l.cond.Wait()
			}
			done := h.pendingLen == 0
			l.mu.Unlock()
			if done {
				return
			}
			if len(pre) > 0 {
				time.Sleep(time.Millisecond)
				if got := l.DeliverBytes(d, pre[0]); got >= pre[0] {
					pre = pre[1:]
				} else {
					pre[0] -= got
				}
				continue
			}
			if w := lat[i%len(lat)]; w > 0 {
				time.Sleep(w)
			}
			if n := seg[i%len(seg)]; n > 0 {
				l.DeliverBytes(d, n)
			} else {
				l.DeliverChunk(d)
			}
		}
	}()
}

// Consumed returns the number of bytes of direction d that the reading end has actually read so far.
func (l *Link) Consumed(d Dir) int64 {
	l.mu.Lock()
	defer l.mu.Unlock()
	return l.h[d].readTotal
}

// NewDatagramLink returns a link whose both directions keep message boundaries (UDP-like, delivered at once).
func NewDatagramLink(id int) *Link {
	l := NewLink(id, false)
	l.h[0].dgram, l.h[1].dgram = true, true
	return l
}

// DatagramDialer hands out datagram links (the proxy server side of an unordered session).
type DatagramDialer struct {
	Ln *Listener
	mu sync.Mutex
	n  int
}

func (d *DatagramDialer) Dial(network, address string) (net.Conn, error) {
	d.mu.Lock()
	d.n++
	id := d.n
	d.mu.Unlock()
	l := NewDatagramLink(id)
	d.Ln.Push(l.B)
	return l.A, nil
}

// Requested returns a copy of the addresses this dialer was asked to connect to.
func (d *Dialer) Requested() []string {
	d.mu.Lock()
	defer d.mu.Unlock()
	return append([]string(nil), d.Addrs...)
}

// BreakWrites makes every later Write in direction d fail with a reset error while leaving the other
// direction and already delivered bytes alone (the writer learns about the peer's reset when it writes).
func (l *Link) BreakWrites(d Dir) {
	l.mu.Lock()
	l.h[d].wfail = true
	l.cond.Broadcast()
	l.mu.Unlock()
}
