package verifkit

import (
	"crypto/aes"
	"crypto/cipher"
	"encoding/binary"
	"errors"

	"golang.org/x/crypto/chacha20poly1305"
	"golang.org/x/crypto/salsa20"
)

// Reference implementation of the Cloak v2 frame layout, written from the protocol description:
//
//	header (14 bytes, masked):  StreamID u32 BE | Seq u64 BE | Closing u8 | ExtraLen u8
//	body:                       payload | padding (ExtraLen - tagLen bytes) | tag (AEAD tag, or 8 random bytes for plain)
//	AEAD:  Seal(key, nonce = header[0:12] (clear), plaintext = payload|padding, no AAD); aes-128-gcm uses key[:16]
//	mask:  header ^= Salsa20(key = session key, nonce = last 8 bytes of the message)
//
// It shares no code with internal/multiplex.

const (
	RefPlain     = 0
	RefAES256GCM = 1
	RefChaCha    = 2
	RefAES128GCM = 3
)

type RefFrame struct {
	StreamID uint32
	Seq      uint64
	Closing  uint8
	Payload  []byte
	ExtraLen uint8  // as found on the wire
	Padding  []byte // decoded padding bytes (Decode only)
}

type RefCodec struct {
	key    [32]byte
	aead   cipher.AEAD
	method byte
}

func NewRefCodec(method byte, key [32]byte) (*RefCodec, error) {
	c := &RefCodec{key: key, method: method}
	switch method {
	case RefPlain:
	case RefAES256GCM:
		b, err := aes.NewCipher(key[:])
		if err != nil {
			return nil, err
		}
		c.aead, err = cipher.NewGCM(b)
		if err != nil {
			return nil, err
		}
	case RefAES128GCM:
		b, err := aes.NewCipher(key[:16])
		if err != nil {
			return nil, err
		}
		c.aead, err = cipher.NewGCM(b)
		if err != nil {
			return nil, err
		}
	case RefChaCha:
		var err error
		c.aead, err = chacha20poly1305.New(key[:])
		if err != nil {
			return nil, err
		}
	default:
		return nil, errors.New("refcodec: unknown method")
	}
	return c, nil
}

func (c *RefCodec) TagLen() int {
	if c.aead == nil {
		return 8
	}
	return c.aead.Overhead()
}

// Encode builds the wire message. padding and plainTail (8 bytes, only used by the plain method as the
// random tail) are supplied by the caller, so that the encoding is a pure function.
func (c *RefCodec) Encode(f RefFrame, padding []byte, plainTail [8]byte) []byte {
	hdr := make([]byte, 14)
	binary.BigEndian.PutUint32(hdr[0:4], f.StreamID)
	binary.BigEndian.PutUint64(hdr[4:12], f.Seq)
	hdr[12] = f.Closing
	hdr[13] = byte(len(padding) + c.TagLen())
	body := append(append([]byte(nil), f.Payload...), padding...)
	var out []byte
	if c.aead != nil {
		sealed := c.aead.Seal(nil, hdr[:12], body, nil)
		out = append(append([]byte(nil), hdr...), sealed...)
	} else {
		out = append(append([]byte(nil), hdr...), body...)
		out = append(out, plainTail[:]...)
	}
	nonce := out[len(out)-8:]
	salsa20.XORKeyStream(out[:14], out[:14], nonce, &c.key)
	return out
}

// Decode parses a wire message without modifying it.
func (c *RefCodec) Decode(msg []byte) (RefFrame, error) {
	var f RefFrame
	if len(msg) < 14+8 {
		return f, errors.New("refcodec: message too short")
	}
	hdr := make([]byte, 14)
	salsa20.XORKeyStream(hdr, msg[:14], msg[len(msg)-8:], &c.key)
	f.StreamID = binary.BigEndian.Uint32(hdr[0:4])
	f.Seq = binary.BigEndian.Uint64(hdr[4:12])
	f.Closing = hdr[12]
	f.ExtraLen = hdr[13]
	body := msg[14:]
	if int(f.ExtraLen) > len(body) {
		return f, errors.New("refcodec: extra length exceeds body")
	}
	if c.aead != nil {
		if int(f.ExtraLen) < c.aead.Overhead() {
			return f, errors.New("refcodec: extra length smaller than tag")
		}
		pt, err := c.aead.Open(nil, hdr[:12], body, nil)
		if err != nil {
			return f, err
		}
		f.Payload = pt[:len(body)-int(f.ExtraLen)]
		f.Padding = pt[len(body)-int(f.ExtraLen):]
	} else {
		if int(f.ExtraLen) < 8 {
			return f, errors.New("refcodec: extra length smaller than the 8-byte tail")
		}
		f.Payload = append([]byte(nil), body[:len(body)-int(f.ExtraLen)]...)
		f.Padding = append([]byte(nil), body[len(body)-int(f.ExtraLen):len(body)-8]...)
	}
	return f, nil
}

// SplitTLSRecords splits a byte stream into TLS records (type, version, body). rest is a trailing partial record.
type TLSRecord struct {
	Type    byte
	Version uint16
	Body    []byte
	Off     int
}

func SplitTLSRecords(stream []byte) (recs []TLSRecord, rest []byte) {
	off := 0
	for len(stream)-off >= 5 {
		n := int(binary.BigEndian.Uint16(stream[off+3 : off+5]))
		if len(stream)-off-5 < n {
			break
		}
		recs = append(recs, TLSRecord{Type: stream[off], Version: binary.BigEndian.Uint16(stream[off+1 : off+3]), Body: stream[off+5 : off+5+n], Off: off})
		off += 5 + n
	}
	return recs, stream[off:]
}

// PeekHeader unmasks only the 14-byte header of a wire message (no authentication).
func (c *RefCodec) PeekHeader(msg []byte) (sid uint32, seq uint64, closing uint8, extra uint8, ok bool) {
	if len(msg) < 14+8 {
		return 0, 0, 0, 0, false
	}
	hdr := make([]byte, 14)
	salsa20.XORKeyStream(hdr, msg[:14], msg[len(msg)-8:], &c.key)
	return binary.BigEndian.Uint32(hdr[0:4]), binary.BigEndian.Uint64(hdr[4:12]), hdr[12], hdr[13], true
}

// Authentic reports whether msg authenticates under the codec's key: header unmasked with the trailing 8
// bytes, AEAD opened with header[:12] as nonce. Bytes 12 and 13 of the header do not take part (that is the
// Cloak v2 design, see known finding F-C11). Always false for the plain method.
func (c *RefCodec) Authentic(msg []byte) bool {
	if c.aead == nil || len(msg) < 14+c.aead.Overhead() {
		return false
	}
	hdr := make([]byte, 14)
	salsa20.XORKeyStream(hdr, msg[:14], msg[len(msg)-8:], &c.key)
	_, err := c.aead.Open(nil, hdr[:12], msg[14:], nil)
	return err == nil
}
