// Package verifkit is the shared harness library of /verif. It is compiled into /repo's tree through a
// go build overlay (as github.com/cbeuw/Cloak/internal/verifkit) and imports nothing from Cloak, so that
// in-package test harnesses of every Cloak package can use it.
package verifkit

import (
	"encoding/json"
	"fmt"
	"hash/fnv"
	"os"
	"path/filepath"
	"regexp"
	"runtime"
	"runtime/debug"
	"sort"
	"strconv"
	"strings"
	"sync"
	"testing"
	"testing/synctest"
	"time"

	"pgregory.net/rapid"
)

// Violation is an oracle verdict: the property does not hold for the scenario.
type Violation struct {
	Msg string
	// Sig identifies the failing site for the known-findings matcher (may be empty).
	Sig string
}

func (v *Violation) Error() string { return v.Msg }

func Violatef(format string, a ...any) *Violation {
	return &Violation{Msg: fmt.Sprintf(format, a...)}
}

func ViolateSig(sig, format string, a ...any) *Violation {
	return &Violation{Msg: fmt.Sprintf(format, a...), Sig: sig}
}

// Result describes one executed case for the evidence file.
type Result struct {
	NonTrivial bool
	Labels     []string
	// Key, when non-empty, is hashed instead of the scenario to decide distinctness.
	Key string
	// Count is the number of evaluations this case stands for (default 1) - used by enumerating cases.
	Count int64
	// Known lists known-finding keys that reproduced in this case (excluded by construction).
	Known []string
}

type propStats struct {
	Property    string           `json:"property"`
	Sub         string           `json:"sub"`
	Evaluations int64            `json:"evaluations"`
	NonTrivial  int64            `json:"nontrivial"`
	Labels      map[string]int64 `json:"labels"`
	Samples     []any            `json:"samples"`
	Known       map[string]int64 `json:"known"`
	Exhaustive  bool             `json:"exhaustive"`
	Extra       map[string]any   `json:"extra,omitempty"`
	hashes      map[uint64]struct{}
}

var (
	statsMu  sync.Mutex
	statsAll = map[string]*propStats{}
)

func getStats(prop, sub string) *propStats {
	statsMu.Lock()
	defer statsMu.Unlock()
	k := prop + "/" + sub
	s := statsAll[k]
	if s == nil {
		s = &propStats{Property: prop, Sub: sub, Labels: map[string]int64{}, Known: map[string]int64{}, hashes: map[uint64]struct{}{}, Extra: map[string]any{}}
		statsAll[k] = s
	}
	return s
}

func hash64(b []byte) uint64 {
	h := fnv.New64a()
	h.Write(b)
	return h.Sum64()
}

const maxHashes = 4 << 20

func (s *propStats) record(scJSON []byte, sc any, r Result) {
	statsMu.Lock()
	defer statsMu.Unlock()
	n := r.Count
	if n <= 0 {
		n = 1
	}
	s.Evaluations += n
	for _, l := range r.Labels {
		s.Labels[l]++
	}
	for _, k := range r.Known {
		s.Known[k]++
	}
	if r.NonTrivial {
		s.NonTrivial++
		var h uint64
		if r.Key != "" {
			h = hash64([]byte(r.Key))
		} else {
			h = hash64(scJSON)
		}
		if len(s.hashes) < maxHashes {
			s.hashes[h] = struct{}{}
		}
		if len(s.Samples) < 3 && len(scJSON) < 6000 {
			s.Samples = append(s.Samples, json.RawMessage(append([]byte(nil), scJSON...)))
		}
	} else if len(s.Samples) == 0 && len(scJSON) < 6000 {
		// keep at least one sample even if trivial
		s.Samples = append(s.Samples, json.RawMessage(append([]byte(nil), scJSON...)))
	}
}

// AddDistinct lets enumerating checks register distinct non-trivial keys cheaply (no scenario JSON).
func AddDistinct(prop, sub string, key uint64, evals int64, labels ...string) {
	s := getStats(prop, sub)
	statsMu.Lock()
	s.Evaluations += evals
	s.NonTrivial++
	if len(s.hashes) < maxHashes {
		s.hashes[key] = struct{}{}
	}
	for _, l := range labels {
		s.Labels[l]++
	}
	statsMu.Unlock()
}

// AddEvals counts evaluations that are not individually distinct/non-trivial.
func AddEvals(prop, sub string, evals int64, labels ...string) {
	s := getStats(prop, sub)
	statsMu.Lock()
	s.Evaluations += evals
	for _, l := range labels {
		s.Labels[l] += evals
	}
	statsMu.Unlock()
}

func AddLabel(prop, sub, label string, n int64) {
	s := getStats(prop, sub)
	statsMu.Lock()
	s.Labels[label] += n
	statsMu.Unlock()
}

func AddKnown(prop, sub, key string, n int64) {
	s := getStats(prop, sub)
	statsMu.Lock()
	s.Known[key] += n
	statsMu.Unlock()
}

func AddSample(prop, sub string, sample any) {
	s := getStats(prop, sub)
	statsMu.Lock()
	if len(s.Samples) < 4 {
		s.Samples = append(s.Samples, sample)
	}
	statsMu.Unlock()
}

func SetExhaustive(prop, sub string, v bool) {
	s := getStats(prop, sub)
	statsMu.Lock()
	s.Exhaustive = v
	statsMu.Unlock()
}

func SetExtra(prop, sub, key string, v any) {
	s := getStats(prop, sub)
	statsMu.Lock()
	s.Extra[key] = v
	statsMu.Unlock()
}

func outDir() string {
	d := os.Getenv("VERIF_OUT")
	if d == "" {
		d = "verif_out"
	}
	os.MkdirAll(d, 0o755)
	return d
}

// FlushStats writes all collected statistics to $VERIF_OUT/stats-<pid>.json (+ .hashes sidecars).
func FlushStats() {
	statsMu.Lock()
	defer statsMu.Unlock()
	dir := outDir()
	keys := make([]string, 0, len(statsAll))
	for k := range statsAll {
		keys = append(keys, k)
	}
	sort.Strings(keys)
	type fileT struct {
		Stats []*propStats `json:"stats"`
	}
	var f fileT
	for _, k := range keys {
		s := statsAll[k]
		f.Stats = append(f.Stats, s)
		hs := make([]string, 0, len(s.hashes))
		for h := range s.hashes {
			hs = append(hs, fmt.Sprintf("%016x", h))
		}
		sort.Strings(hs)
		name := fmt.Sprintf("hashes-%d-%s-%s.txt", os.Getpid(), s.Property, sanitize(s.Sub))
		os.WriteFile(filepath.Join(dir, name), []byte(strings.Join(hs, "\n")+"\n"), 0o644)
	}
	b, _ := json.Marshal(f)
	os.WriteFile(filepath.Join(dir, fmt.Sprintf("stats-%d.json", os.Getpid())), b, 0o644)
}

func sanitize(s string) string {
	return strings.Map(func(r rune) rune {
		if r >= 'a' && r <= 'z' || r >= 'A' && r <= 'Z' || r >= '0' && r <= '9' || r == '_' || r == '-' {
			return r
		}
		return '_'
	}, s)
}

// replayFile is the on-disk replay format.
type replayFile struct {
	Property string          `json:"property"`
	Sub      string          `json:"sub"`
	Error    string          `json:"error,omitempty"`
	Sig      string          `json:"sig,omitempty"`
	Kind     string          `json:"kind,omitempty"` // "violation" or "harness"
	Scenario json.RawMessage `json:"scenario"`
}

var (
	failMu   sync.Mutex
	bestFail = map[string]int{} // prop/sub -> size of smallest failing scenario written
)

func writeFail(prop, sub string, scJSON []byte, err error) string {
	failMu.Lock()
	defer failMu.Unlock()
	k := prop + "/" + sub
	dir := outDir()
	path := filepath.Join(dir, fmt.Sprintf("fail-%s-%s.json", prop, sanitize(sub)))
	if sz, ok := bestFail[k]; ok && sz <= len(scJSON) {
		return path
	}
	bestFail[k] = len(scJSON)
	rf := replayFile{Property: prop, Sub: sub, Error: err.Error(), Scenario: scJSON, Kind: "harness"}
	if v, ok := err.(*Violation); ok {
		rf.Sig = v.Sig
		rf.Kind = "violation"
	}
	b, _ := json.MarshalIndent(rf, "", " ")
	os.WriteFile(path, b, 0o644)
	return path
}

func journal(prop, sub string, scJSON []byte) {
	if os.Getenv("VERIF_JOURNAL") == "" {
		return
	}
	rf := replayFile{Property: prop, Sub: sub, Error: "process died while executing this case", Scenario: scJSON}
	b, _ := json.Marshal(rf)
	os.WriteFile(filepath.Join(outDir(), fmt.Sprintf("journal-%d.json", os.Getpid())), b, 0o644)
}

// Run is the common entry of every generated check.
//
//   - replay mode (VERIF_REPLAY=<file> whose property/sub match): the scenario is executed once, without rapid;
//   - otherwise the committed regression scenarios in $VERIF_REGRESS/<prop>/<sub>-*.json are executed first,
//     then rapid.Check draws scenarios with gen and executes them with run.
//
// run returns a *Violation (or any error) when the oracle rejects the case.
func Run[S any](t *testing.T, prop, sub string, gen func(*rapid.T) S, run func(S) (Result, error)) {
	t.Helper()
	defer FlushStats()
	st := getStats(prop, sub)

	exec := func(sc S, scJSON []byte) error {
		journal(prop, sub, scJSON)
		setCurrentCase(prop, sub, scJSON)
		res, err := Protect(func() (Result, error) { return run(sc) })
		if err == nil {
			st.record(scJSON, sc, res)
		}
		return err
	}

	if rp := os.Getenv("VERIF_REPLAY"); rp != "" {
		b, err := os.ReadFile(rp)
		if err != nil {
			t.Fatalf("VERIF-HARNESS-ERROR cannot read replay file: %v", err)
		}
		var rf replayFile
		if err := json.Unmarshal(b, &rf); err != nil {
			t.Fatalf("VERIF-HARNESS-ERROR bad replay file: %v", err)
		}
		if rf.Property != prop || rf.Sub != sub {
			t.Skip("replay file is for another check")
		}
		var sc S
		if err := json.Unmarshal(rf.Scenario, &sc); err != nil {
			t.Fatalf("VERIF-HARNESS-ERROR bad scenario in replay file: %v", err)
		}
		if err := exec(sc, rf.Scenario); err != nil {
			p := writeFail(prop, sub, rf.Scenario, err)
			t.Fatalf("VERIF-VIOLATION property=%s sub=%s file=%s sig=%s: %v", prop, sub, p, sigOf(err), err)
		}
		fmt.Printf("VERIF-REPLAY-OK property=%s sub=%s\n", prop, sub)
		return
	}

	// regression tier
	if rg := os.Getenv("VERIF_REGRESS"); rg != "" {
		files, _ := filepath.Glob(filepath.Join(rg, prop, sub+"-*.json"))
		sort.Strings(files)
		for _, f := range files {
			b, err := os.ReadFile(f)
			if err != nil {
				continue
			}
			var rf replayFile
			if json.Unmarshal(b, &rf) != nil {
				t.Fatalf("VERIF-HARNESS-ERROR bad regression file %s", f)
			}
			var sc S
			if err := json.Unmarshal(rf.Scenario, &sc); err != nil {
				t.Fatalf("VERIF-HARNESS-ERROR bad scenario in regression file %s: %v", f, err)
			}
			if err := exec(sc, rf.Scenario); err != nil {
				p := writeFail(prop, sub, rf.Scenario, err)
				t.Fatalf("VERIF-VIOLATION property=%s sub=%s file=%s sig=%s regression=%s: %v", prop, sub, p, sigOf(err), filepath.Base(f), err)
			}
			AddLabel(prop, sub, "regression-scenario", 1)
		}
	}
	if gen == nil {
		return
	}

	rapid.Check(t, func(rt *rapid.T) {
		sc := gen(rt)
		scJSON, jerr := json.Marshal(sc)
		if jerr != nil {
			rt.Fatalf("VERIF-HARNESS-ERROR scenario not serialisable: %v", jerr)
		}
		if err := exec(sc, scJSON); err != nil {
			p := writeFail(prop, sub, scJSON, err)
			if _, ok := err.(*Violation); !ok {
				rt.Fatalf("VERIF-HARNESS-ERROR property=%s sub=%s file=%s: %v", prop, sub, p, err)
			}
			rt.Fatalf("VERIF-VIOLATION property=%s sub=%s file=%s sig=%s: %v", prop, sub, p, sigOf(err), err)
		}
	})
}

// Direct runs a non-rapid (enumerating) check body with the same reporting conventions.
// body reports a failing scenario through fail(); it may keep going or return.
func Direct(t *testing.T, prop, sub string, body func(fail func(sc any, err error))) {
	t.Helper()
	defer FlushStats()
	failed := false
	body(func(sc any, err error) {
		scJSON, _ := json.Marshal(sc)
		p := writeFail(prop, sub, scJSON, err)
		if !failed {
			t.Errorf("VERIF-VIOLATION property=%s sub=%s file=%s sig=%s: %v", prop, sub, p, sigOf(err), err)
		}
		failed = true
	})
}

// ReplayScenario returns the scenario of the replay file when in replay mode for prop/sub (Direct checks).
func ReplayScenario(prop, sub string, into any) bool {
	rp := os.Getenv("VERIF_REPLAY")
	if rp == "" {
		return false
	}
	b, err := os.ReadFile(rp)
	if err != nil {
		return false
	}
	var rf replayFile
	if json.Unmarshal(b, &rf) != nil || rf.Property != prop || rf.Sub != sub {
		return false
	}
	return json.Unmarshal(rf.Scenario, into) == nil
}

// InReplay reports whether the process runs in replay mode.
func InReplay() bool { return os.Getenv("VERIF_REPLAY") != "" }

func sigOf(err error) string {
	if v, ok := err.(*Violation); ok && v.Sig != "" {
		return v.Sig
	}
	return "-"
}

// Tier returns "quick" or "thorough".
func Tier() string {
	if os.Getenv("VERIF_TIER") == "thorough" {
		return "thorough"
	}
	return "quick"
}

// Scale returns q in the quick tier and th in the thorough tier.
func Scale(q, th int) int {
	if Tier() == "thorough" {
		return th
	}
	return q
}

// BubbleLinger is the virtual time the root goroutine lingers after the scenario so that sleeping goroutines can exit.
var BubbleLinger = 10 * time.Minute

// ---- wedged bubbles ----
//
// A goroutine queued on a sync.Mutex / sync.RWMutex is not "durably blocked" for synctest: when every other
// goroutine of the bubble is blocked too, the bubble is never idle, its clock never advances, synctest.Wait never
// returns - the bubble is wedged for good. On a tree where locks are only held briefly this never happens; it
// happens when the code under test queues on a lock whose holder waits for the network (or for the clock). The
// watchdog below (a goroutine outside the bubble, real time) recognises that state from two identical goroutine
// dumps and asks the check's wedge oracle - a function judging only what the property states, evaluated on the
// harness' own bookkeeping - for the verdict. Without an oracle, or when a goroutine of the code under test is
// sleeping on the (stopped) clock, the run is inconclusive. Either way the process ends: the bubble cannot be unwound.

var (
	wedgeMu    sync.Mutex
	wedgeCheck func(Wedge) error
	curProp    string
	curSub     string
	curJSON    []byte
)

// DefaultWedgeCheck, if set (by a package's harness), is the wedge oracle of every bubble that does not register
// its own.
var DefaultWedgeCheck func(Wedge) error

// IdleSleepFrames lists functions of the code under test that are allowed to be asleep in a wedged bubble without
// making the verdict inconclusive: background loops that sleep between rounds and hold no lock meanwhile.
var IdleSleepFrames = []string{"UsedRandomCleaner", "regularQueueUpload"}

// Wedge describes a permanently stuck bubble: its goroutines, all blocked, at least one queued on a lock.
type Wedge struct{ Goroutines []WedgedG }

// WedgedG is one goroutine of a wedged bubble.
type WedgedG struct {
	ID, State string
	Frames    []string // function names, innermost first
	Cloak     string   // innermost frame in the code under test ("" if none)
}

// OnLock reports whether the goroutine is queued on a sync.Mutex / sync.RWMutex.
func (g WedgedG) OnLock() bool {
	return strings.HasPrefix(g.State, "sync.Mutex.") || strings.HasPrefix(g.State, "sync.RWMutex.")
}

// Has reports whether a frame of the goroutine's stack contains s.
func (g WedgedG) Has(s string) bool {
	for _, f := range g.Frames {
		if strings.Contains(f, s) {
			return true
		}
	}
	return false
}

// QueuedOnLock returns a description of the first goroutine that is queued on a lock and has a frame containing one
// of the given substrings.
func (w Wedge) QueuedOnLock(frames ...string) (string, bool) {
	for _, g := range w.Goroutines {
		if !g.OnLock() {
			continue
		}
		for _, f := range frames {
			if g.Has(f) {
				return fmt.Sprintf("%s in %s", g.State, g.Cloak), true
			}
		}
	}
	return "", false
}

// AnyHas reports whether some goroutine of the bubble has a frame containing s.
func (w Wedge) AnyHas(s string) bool {
	for _, g := range w.Goroutines {
		if g.Has(s) {
			return true
		}
	}
	return false
}

// SetWedgeCheck registers the oracle consulted when the current bubble turns out to be wedged. It must only read
// harness bookkeeping that is safe to read while every goroutine of the bubble is blocked. Bubble resets it.
func SetWedgeCheck(f func(Wedge) error) {
	wedgeMu.Lock()
	wedgeCheck = f
	wedgeMu.Unlock()
}

func setCurrentCase(prop, sub string, scJSON []byte) {
	wedgeMu.Lock()
	curProp, curSub, curJSON = prop, sub, scJSON
	wedgeMu.Unlock()
}

var goroutineHeader = regexp.MustCompile(`^goroutine (\d+) \[([^\]]*)\]:`)

type bubbleG struct {
	id, state string
	bubble    bool
	frames    []string // function names, innermost first
	cloak     string   // innermost frame in the code under test ("" if none)
}

func bubbleGoroutines() []bubbleG {
	buf := make([]byte, 16<<20)
	n := runtime.Stack(buf, true)
	return parseGoroutines(string(buf[:n]), func(g bubbleG) bool { return g.bubble })
}

func parseGoroutines(dump string, keep func(bubbleG) bool) []bubbleG {
	var out []bubbleG
	for _, blk := range strings.Split(dump, "\n\n") {
		m := goroutineHeader.FindStringSubmatch(blk)
		if m == nil {
			continue
		}
		g := bubbleG{id: m[1], state: strings.TrimSpace(strings.SplitN(m[2], ",", 2)[0]), bubble: strings.Contains(m[2], "synctest bubble")}
		lines := strings.Split(blk, "\n")
		for i := 1; i+1 < len(lines); i += 2 {
			fn := lines[i]
			if strings.HasPrefix(fn, "created by ") {
				break
			}
			if j := strings.LastIndex(fn, "("); j > 0 {
				fn = fn[:j]
			}
			file := strings.TrimSpace(lines[i+1])
			g.frames = append(g.frames, fn)
			if g.cloak == "" && strings.Contains(fn, "github.com/cbeuw/Cloak/") && !strings.Contains(fn, "/verifkit.") && !strings.Contains(file, "zz_verif_") {
				g.cloak = fn + " (" + filepath.Base(strings.SplitN(file, " ", 2)[0]) + ")"
			}
		}
		if keep(g) {
			out = append(out, g)
		}
	}
	sort.Slice(out, func(i, j int) bool { return out[i].id < out[j].id })
	return out
}

func wedgeKey(gs []bubbleG) string {
	var sb strings.Builder
	for _, g := range gs {
		sb.WriteString(g.id + "|" + g.state + "|" + strings.Join(g.frames, ";") + "\n")
	}
	return sb.String()
}

// wedged reports whether the running bubble is permanently stuck with a goroutine queued on a lock.
func wedged() (bool, []bubbleG) {
	a := bubbleGoroutines()
	time.Sleep(2 * time.Second)
	b := bubbleGoroutines()
	if len(a) == 0 || wedgeKey(a) != wedgeKey(b) {
		return false, nil
	}
	onLock := false
	for _, g := range b {
		if g.state == "running" || g.state == "runnable" || g.state == "syscall" || g.state == "IO wait" {
			return false, nil
		}
		if strings.HasPrefix(g.state, "sync.Mutex.") || strings.HasPrefix(g.state, "sync.RWMutex.") {
			onLock = true
		}
	}
	return onLock, b
}

// StuckForGood takes two goroutine dumps `apart` apart and reports whether every goroutine that is inside the code
// under test is blocked (none running, runnable or in a system call) in exactly the same place in both - with a
// summary of where. It is the evidence real-time checks use, together with a stalled progress counter, before they
// call a deadlock; wall-clock time alone is never a verdict.
func StuckForGood(apart time.Duration) (bool, string) {
	snap := func() (string, []bubbleG) {
		buf := make([]byte, 32<<20)
		n := runtime.Stack(buf, true)
		gs := parseGoroutines(string(buf[:n]), func(g bubbleG) bool { return g.cloak != "" })
		return wedgeKey(gs), gs
	}
	ka, _ := snap()
	time.Sleep(apart)
	kb, gs := snap()
	if ka != kb || len(gs) == 0 {
		return false, ""
	}
	seen := map[string]int{}
	for _, g := range gs {
		if g.state == "running" || g.state == "runnable" || g.state == "syscall" || strings.HasPrefix(g.state, "sleep") || g.state == "IO wait" {
			return false, ""
		}
		seen[g.state+" in "+g.cloak]++
	}
	var parts []string
	for k, n := range seen {
		parts = append(parts, fmt.Sprintf("%dx %s", n, k))
	}
	sort.Strings(parts)
	return true, strings.Join(parts, "; ")
}

func wedgeSeconds() time.Duration {
	if v, err := strconv.Atoi(os.Getenv("VERIF_WEDGE_SECONDS")); err == nil && v > 0 {
		return time.Duration(v) * time.Second
	}
	return 20 * time.Second
}

func handleWedge(gs []bubbleG) {
	var locks, sleepers []string
	for _, g := range gs {
		if strings.HasPrefix(g.state, "sync.Mutex.") || strings.HasPrefix(g.state, "sync.RWMutex.") {
			locks = append(locks, fmt.Sprintf("goroutine %s queued on %s in %s", g.id, g.state, g.cloak))
		}
		if strings.HasPrefix(g.state, "sleep") && g.cloak != "" {
			idle := false
			for _, f := range IdleSleepFrames {
				if strings.Contains(g.cloak, f) {
					idle = true
				}
			}
			if !idle {
				sleepers = append(sleepers, g.cloak)
			}
		}
	}
	wedgeMu.Lock()
	chk, prop, sub, scJSON := wedgeCheck, curProp, curSub, curJSON
	wedgeMu.Unlock()
	summary := strings.Join(locks, "; ")
	var verdict error
	if chk != nil && len(sleepers) == 0 {
		w := Wedge{}
		for _, g := range gs {
			w.Goroutines = append(w.Goroutines, WedgedG{ID: g.id, State: g.state, Frames: g.frames, Cloak: g.cloak})
		}
		verdict = chk(w)
	}
	FlushStats()
	if v, ok := verdict.(*Violation); ok && prop != "" {
		v.Msg += " [the bubble is permanently stuck: " + summary + "]"
		if v.Sig == "" {
			v.Sig = "wedged"
		}
		p := writeFail(prop, sub, scJSON, v)
		fmt.Printf("VERIF-VIOLATION property=%s sub=%s file=%s sig=%s: %v\n", prop, sub, p, sigOf(v), v)
		os.Exit(1)
	}
	fmt.Printf("VERIF-HARNESS-ERROR property=%s sub=%s: bubble wedged (a goroutine queued on a lock stops the virtual clock), no verdict: %s; sleeping in the code under test: %v\n", prop, sub, summary, sleepers)
	os.Exit(2)
}

// Bubble runs f inside a synctest bubble and converts a bubble failure (deadlock: goroutines left
// blocked for ever when the root returns, or a panic in the root goroutine) into an error.
func Bubble(t *testing.T, f func()) (err error) {
	SetWedgeCheck(DefaultWedgeCheck)
	done := make(chan struct{})
	go func() {
		defer close(done)
		defer func() {
			if r := recover(); r != nil {
				err = fmt.Errorf("bubble: %v", r)
				if os.Getenv("VERIF_DEBUG") != "" {
					buf := make([]byte, 1<<20)
					n := runtime.Stack(buf, true)
					fmt.Printf("DEBUG bubble failure: %v\n%s\n", r, buf[:n])
				}
			}
		}()
		synctest.Test(t, func(*testing.T) {
			f()
			// virtual time stops when the root goroutine exits: give sleepers (rate limiter waits,
			// retry back-offs) the time to wake up and finish
			time.Sleep(BubbleLinger)
		})
	}()
	tm := time.NewTimer(wedgeSeconds())
	defer tm.Stop()
	for {
		select {
		case <-done:
			return err
		case <-tm.C:
			if ok, gs := wedged(); ok {
				select {
				case <-done:
					return err
				default:
				}
				handleWedge(gs)
			}
			tm.Reset(5 * time.Second)
		}
	}
}

// ---- known findings ----

type knownFinding struct {
	Property string `json:"property"`
	Key      string `json:"key"`
	Status   string `json:"status"`
	What     string `json:"what"`
}

var (
	knownOnce sync.Once
	knownList []knownFinding
)

// IsKnown reports whether /verif/known_findings.json lists (property,key) with status "known".
// The file is only ever read, never written, at run time.
func IsKnown(prop, key string) bool {
	knownOnce.Do(func() {
		p := os.Getenv("VERIF_KNOWN")
		if p == "" {
			return
		}
		b, err := os.ReadFile(p)
		if err != nil {
			return
		}
		var f struct {
			Findings []knownFinding `json:"findings"`
		}
		if json.Unmarshal(b, &f) == nil {
			knownList = f.Findings
		}
	})
	for _, k := range knownList {
		if k.Property == prop && k.Key == key && k.Status == "known" {
			return true
		}
	}
	return false
}

// Protect runs f and converts a panic into an error: a *Violation when the panicking frame is Cloak's own
// code (the code under test crashed on the generated input), a plain harness error otherwise.
func Protect(f func() (Result, error)) (res Result, err error) {
	defer func() {
		r := recover()
		if r == nil {
			return
		}
		if isRapidControl(r) {
			panic(r)
		}
		stack := string(debug.Stack())
		fn, file := panicSite(stack)
		if fn != "" {
			err = ViolateSig("panic:"+fn, "the code under test panicked: %v in %s (%s)", r, fn, file)
		} else {
			err = fmt.Errorf("harness: panic in harness code: %v\n%s", r, stack)
		}
	}()
	return f()
}

func isRapidControl(r any) bool {
	// rapid uses panics for Fatalf/Skip inside properties; those carry its own unexported types
	t := fmt.Sprintf("%T", r)
	return strings.HasPrefix(t, "rapid.") || strings.HasPrefix(t, "*rapid.")
}

// panicSite returns the innermost non-runtime frame below the panic if it belongs to Cloak's own sources.
func panicSite(stack string) (fn, file string) {
	lines := strings.Split(stack, "\n")
	seenPanic := false
	for i := 0; i+1 < len(lines); i++ {
		l := lines[i]
		if !seenPanic {
			if strings.HasPrefix(l, "panic(") {
				seenPanic = true
				i++
			}
			continue
		}
		if strings.HasPrefix(l, "\t") || l == "" {
			continue
		}
		loc := strings.TrimSpace(lines[i+1])
		if strings.HasPrefix(l, "runtime.") || strings.HasPrefix(l, "runtime/") {
			i++
			continue
		}
		// first real frame
		base := loc
		if j := strings.LastIndex(base, "/"); j >= 0 {
			base = base[j+1:]
		}
		if strings.HasPrefix(l, "github.com/cbeuw/Cloak/") && !strings.HasPrefix(base, "zz_verif_") && !strings.Contains(loc, "/verifkit/") {
			name := l
			if j := strings.LastIndex(name, "("); j > 0 {
				name = name[:j]
			}
			if j := strings.Index(loc, " +0x"); j > 0 {
				loc = loc[:j]
			}
			if j := strings.LastIndex(loc, "/internal/"); j >= 0 {
				loc = loc[j+1:]
			}
			return name, loc
		}
		// panic raised inside a library called from Cloak code (e.g. bytes, ratelimit): walk up to the first Cloak frame,
		// but give up if a harness frame comes first
		if strings.HasPrefix(l, "github.com/cbeuw/Cloak/") {
			return "", ""
		}
		i++
	}
	return "", ""
}
