package verifkit

import (
	"encoding/binary"
	"errors"
	"fmt"
)

// Independent TLS record / ClientHello / ServerHello parser (RFC 8446 wire format), used as the oracle for
// what Cloak puts on the wire. Every length field is checked in both directions (must neither overrun nor
// leave unexplained bytes).

type RefClientHello struct {
	LegacyVersion uint16
	Random        []byte
	SessionID     []byte
	CipherSuites  []uint16
	Compression   []byte
	Extensions    []RefExtension
	SNI           []string
	KeyShares     map[uint16][]byte
	Versions      []uint16
}

type RefExtension struct {
	Type uint16
	Data []byte
}

type rd struct {
	b   []byte
	err error
}

func (r *rd) take(n int, what string) []byte {
	if r.err != nil {
		return nil
	}
	if n < 0 || len(r.b) < n {
		r.err = fmt.Errorf("%s: need %d bytes, %d left", what, n, len(r.b))
		return nil
	}
	out := r.b[:n]
	r.b = r.b[n:]
	return out
}
func (r *rd) u8(what string) int {
	b := r.take(1, what)
	if b == nil {
		return 0
	}
	return int(b[0])
}
func (r *rd) u16(what string) int {
	b := r.take(2, what)
	if b == nil {
		return 0
	}
	return int(binary.BigEndian.Uint16(b))
}
func (r *rd) u24(what string) int {
	b := r.take(3, what)
	if b == nil {
		return 0
	}
	return int(b[0])<<16 | int(b[1])<<8 | int(b[2])
}

func parseExtensions(b []byte) ([]RefExtension, error) {
	r := &rd{b: b}
	var out []RefExtension
	seen := map[uint16]bool{}
	for len(r.b) > 0 && r.err == nil {
		t := uint16(r.u16("extension type"))
		n := r.u16("extension length")
		d := r.take(n, "extension data")
		if r.err != nil {
			break
		}
		if seen[t] {
			return nil, fmt.Errorf("extension %d appears twice", t)
		}
		seen[t] = true
		out = append(out, RefExtension{t, d})
	}
	return out, r.err
}

// ParseClientHelloHandshake parses a handshake message (type|len24|body) that must be exactly one ClientHello.
func ParseClientHelloHandshake(msg []byte) (*RefClientHello, error) {
	r := &rd{b: msg}
	if t := r.u8("handshake type"); r.err == nil && t != 1 {
		return nil, fmt.Errorf("handshake type %d, want 1 (client_hello)", t)
	}
	n := r.u24("handshake length")
	if r.err != nil {
		return nil, r.err
	}
	if n != len(r.b) {
		return nil, fmt.Errorf("handshake length %d but %d bytes follow", n, len(r.b))
	}
	ch := &RefClientHello{KeyShares: map[uint16][]byte{}}
	ch.LegacyVersion = uint16(r.u16("legacy_version"))
	ch.Random = r.take(32, "random")
	ch.SessionID = r.take(r.u8("session id length"), "session id")
	if r.err == nil && len(ch.SessionID) > 32 {
		return nil, errors.New("session id longer than 32 bytes")
	}
	cs := r.take(r.u16("cipher suites length"), "cipher suites")
	if r.err == nil && (len(cs)%2 != 0 || len(cs) == 0) {
		return nil, errors.New("cipher suites length is odd or zero")
	}
	for i := 0; i+1 < len(cs); i += 2 {
		ch.CipherSuites = append(ch.CipherSuites, binary.BigEndian.Uint16(cs[i:]))
	}
	ch.Compression = r.take(r.u8("compression methods length"), "compression methods")
	if r.err == nil && len(ch.Compression) == 0 {
		return nil, errors.New("no compression method")
	}
	extLen := r.u16("extensions length")
	if r.err != nil {
		return nil, r.err
	}
	if extLen != len(r.b) {
		return nil, fmt.Errorf("extensions length %d but %d bytes follow", extLen, len(r.b))
	}
	exts, err := parseExtensions(r.b)
	if err != nil {
		return nil, err
	}
	ch.Extensions = exts
	for _, e := range exts {
		switch e.Type {
		case 0: // server_name
			er := &rd{b: e.Data}
			l := er.u16("server name list length")
			if er.err != nil || l != len(er.b) {
				return nil, errors.New("server_name: list length inconsistent")
			}
			for len(er.b) > 0 && er.err == nil {
				nt := er.u8("name type")
				name := er.take(er.u16("name length"), "name")
				if er.err != nil {
					return nil, er.err
				}
				if nt == 0 {
					ch.SNI = append(ch.SNI, string(name))
				}
			}
		case 51: // key_share
			er := &rd{b: e.Data}
			l := er.u16("client shares length")
			if er.err != nil || l != len(er.b) {
				return nil, errors.New("key_share: shares length inconsistent")
			}
			for len(er.b) > 0 && er.err == nil {
				g := uint16(er.u16("group"))
				k := er.take(er.u16("key exchange length"), "key exchange")
				if er.err != nil {
					return nil, er.err
				}
				if _, dup := ch.KeyShares[g]; dup {
					return nil, fmt.Errorf("key_share: group %d twice", g)
				}
				ch.KeyShares[g] = k
			}
		case 43: // supported_versions
			er := &rd{b: e.Data}
			l := er.u8("versions length")
			if er.err != nil || l != len(er.b) || l%2 != 0 {
				return nil, errors.New("supported_versions: length inconsistent")
			}
			for i := 0; i+1 < len(er.b); i += 2 {
				ch.Versions = append(ch.Versions, binary.BigEndian.Uint16(er.b[i:]))
			}
		}
	}
	return ch, nil
}

type RefServerHello struct {
	LegacyVersion uint16
	Random        []byte
	SessionID     []byte
	CipherSuite   uint16
	Compression   byte
	Extensions    []RefExtension
	KeyShareGroup uint16
	KeyShare      []byte
	Version       uint16
}

func ParseServerHelloHandshake(msg []byte) (*RefServerHello, error) {
	r := &rd{b: msg}
	if t := r.u8("handshake type"); r.err == nil && t != 2 {
		return nil, fmt.Errorf("handshake type %d, want 2 (server_hello)", t)
	}
	n := r.u24("handshake length")
	if r.err != nil {
		return nil, r.err
	}
	if n != len(r.b) {
		return nil, fmt.Errorf("handshake length %d but %d bytes follow", n, len(r.b))
	}
	sh := &RefServerHello{}
	sh.LegacyVersion = uint16(r.u16("legacy_version"))
	sh.Random = r.take(32, "random")
	sh.SessionID = r.take(r.u8("session id length"), "session id echo")
	sh.CipherSuite = uint16(r.u16("cipher suite"))
	sh.Compression = byte(r.u8("compression"))
	extLen := r.u16("extensions length")
	if r.err != nil {
		return nil, r.err
	}
	if extLen != len(r.b) {
		return nil, fmt.Errorf("extensions length %d but %d bytes follow", extLen, len(r.b))
	}
	exts, err := parseExtensions(r.b)
	if err != nil {
		return nil, err
	}
	sh.Extensions = exts
	for _, e := range exts {
		switch e.Type {
		case 51:
			er := &rd{b: e.Data}
			sh.KeyShareGroup = uint16(er.u16("group"))
			sh.KeyShare = er.take(er.u16("key exchange length"), "key exchange")
			if er.err != nil || len(er.b) != 0 {
				return nil, errors.New("key_share (server): length inconsistent")
			}
		case 43:
			if len(e.Data) != 2 {
				return nil, errors.New("supported_versions (server): length must be 2")
			}
			sh.Version = binary.BigEndian.Uint16(e.Data)
		}
	}
	return sh, nil
}

// ValidHostname reports whether s is a syntactically valid DNS host name (LDH labels, at least two labels).
func ValidHostname(s string) bool {
	if len(s) == 0 || len(s) > 253 {
		return false
	}
	labels := 0
	start := 0
	for i := 0; i <= len(s); i++ {
		if i == len(s) || s[i] == '.' {
			l := s[start:i]
			if len(l) == 0 || len(l) > 63 || l[0] == '-' || l[len(l)-1] == '-' {
				return false
			}
			for _, c := range []byte(l) {
				if !(c >= 'a' && c <= 'z' || c >= 'A' && c <= 'Z' || c >= '0' && c <= '9' || c == '-') {
					return false
				}
			}
			labels++
			start = i + 1
		}
	}
	return labels >= 2
}

// FirstPacketEnd is the reference for how much of a peer's byte stream belongs to its "first packet" as far
// as a Cloak server may look before deciding (README/protocol: a TLS record starting with 0x16, or an HTTP
// request head starting with 'G', read into a 3000-byte buffer). It returns the number of bytes consumed and
// whether the stream given so far completes the first packet.
func FirstPacketEnd(stream []byte) (n int, complete bool) {
	const bufSize = 3000
	if len(stream) == 0 {
		return 0, false
	}
	switch stream[0] {
	case 0x16:
		if len(stream) < 5 {
			return len(stream), false
		}
		l := int(binary.BigEndian.Uint16(stream[3:5]))
		if l+5 > bufSize {
			return 5, true
		}
		if len(stream) < 5+l {
			return len(stream), false
		}
		return 5 + l, true
	case 0x47:
		pos := 1
		for {
			if pos >= bufSize {
				return bufSize, true
			}
			// next line: up to '\n' or to the end of the buffer
			end := -1
			for i := pos; i < len(stream) && i < bufSize; i++ {
				if stream[i] == '\n' {
					end = i + 1
					break
				}
			}
			if end < 0 {
				if len(stream) >= bufSize {
					return bufSize, true
				}
				return len(stream), false
			}
			if end-pos == 2 && stream[pos] == '\r' {
				return end, true
			}
			pos = end
		}
	default:
		return 1, true
	}
}
