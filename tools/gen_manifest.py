#!/usr/bin/env python3
"""Regenerates /verif/MANIFEST.json from checks_table.py (keeps not_applicable current)."""
import json, os, sys
V = os.path.dirname(os.path.dirname(os.path.abspath(__file__)))
sys.path.insert(0, V)
from checks_table import CHECKS, HOOK_COMMITS, NOT_APPLICABLE

props = [json.loads(l)["id"] for l in open(os.path.join(V, "properties.jsonl"))]
checks = []
for pid in props:
    if pid not in CHECKS:
        continue
    c = CHECKS[pid]
    checks.append({
        "property_id": pid,
        "quick_cmd": "./check %s quick" % pid,
        "thorough_cmd": "./check %s thorough" % pid,
        "evidence_file": "/verif/evidence/%s.json" % pid,
        "replay_cmd_template": "./check replay %s {path}" % pid,
        "engine": "rapid+harness",
        "level_claimed": {"category": c["level"], "text": c["level_text"], "design_ref": "DESIGN.md section 3, " + pid},
        "level_note": c["level_note"],
        "technique": c["technique"],
    })
na = []
for pid in props:
    if pid not in CHECKS:
        na.append({"property_id": pid, "reason": NOT_APPLICABLE.get(pid, "check not built yet (work in progress in this session); nothing is claimed for it")})
m = {
    "version": 1,
    "setup_cmd": "./check setup",
    "hooks": {
        "guard": "verif",
        "enable": "go1.26.8 test -c -tags verif -overlay <generated> -modfile <generated> (see ./check); hooks are no-ops without the tag",
        "baseline_off_cmd": "cd /repo && go test -json -vet=off -count=1 -timeout 25m ./...",
        "source_commits": HOOK_COMMITS,
        "add_only": True,
    },
    "engines": [{"name": "rapid+harness", "path": "/verif/check", "serves_properties": [c["property_id"] for c in checks],
                 "kind_free_text": "python driver building in-package Go harnesses (pgregory.net/rapid v1.3.0 generators, testing/synctest virtual clock, adversarial in-memory network, native go fuzzing in thorough tiers) into /repo's working tree via -overlay/-modfile"}],
    "checks": checks,
    "not_applicable": na,
    "notes": "All checks rebuild from /repo's working tree (VERIF_REPO overrides the path for scratch-copy mutation testing). Exit 0 held / 1 VIOLATION / 2 inconclusive. Known findings: /verif/known_findings.json.",
}
json.dump(m, open(os.path.join(V, "MANIFEST.json"), "w"), indent=1)
print("MANIFEST.json: %d checks, %d not_applicable" % (len(checks), len(na)))
