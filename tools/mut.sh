#!/bin/bash
# usage: tools/mut.sh <name> <ID[,ID...]> <tier> -- <file> <python-regex-old> <new>   (one or more triples)
#    or: tools/mut.sh <name> <ID[,ID...]> <tier> -p <patch.diff>
# Runs the named checks against a scratch worktree of /repo with the mutation applied; removes the worktree.
set -u
name=$1; ids=$2; tier=$3; shift 3
wt=/tmp/vmut-$name
git -C /repo worktree remove --force $wt >/dev/null 2>&1
git -C /repo worktree add --detach $wt HEAD >/dev/null 2>&1 || { echo "worktree failed"; exit 3; }
if [ "$1" = "-p" ]; then
  git -C $wt apply "$2" || { echo "patch failed"; git -C /repo worktree remove --force $wt; exit 3; }
else
  shift
  while [ $# -ge 3 ]; do
    python3 - "$wt/$1" "$2" "$3" <<'PY' || { git -C /repo worktree remove --force $wt; exit 3; }
import re,sys
p,old,new=sys.argv[1:4]
s=open(p).read()
s2,n=re.subn(old,new.replace('\\n','\n').replace('\\t','\t'),s,count=1,flags=re.S)
if n!=1:
    print("MUTATION DID NOT APPLY:",old); sys.exit(1)
open(p,'w').write(s2)
PY
    shift 3
  done
fi
(cd $wt && GOFLAGS=-mod=mod GOPROXY=off GOSUMDB=off GOTOOLCHAIN=local go1.26.8 build ./... ) || { echo "MUTANT DOES NOT COMPILE"; git -C /repo worktree remove --force $wt; exit 3; }
if [ -n "${MUT_BASELINE:-}" ]; then
  (cd $wt && GOFLAGS=-mod=mod GOPROXY=off GOSUMDB=off GOTOOLCHAIN=local go1.26.8 test -vet=off -count=1 ./... 2>&1 | grep -v "^ok\|no test files" | head -30)
fi
rc=0
for id in ${ids//,/ }; do
  echo "== $name vs $id $tier"
  VERIF_REPO=$wt /verif/check $id $tier | grep -v "^  detail" | cut -c1-400
  r=${PIPESTATUS[0]}; echo "   exit=$r"
done
git -C /repo worktree remove --force $wt
git -C /repo worktree prune
