#!/usr/bin/env python3
"""usage: saveseed.py <seed-name> <src-dir> <property> <demo-pkg> <caught-by or NONE> <needs...>"""
import json, os, shutil, sys, glob
name, src, prop, pkg, caught = sys.argv[1:6]
needs = " ".join(sys.argv[6:])
d = os.path.join("/verif/seeded", name)
os.makedirs(d, exist_ok=True)
for f in glob.glob(os.path.join(src, "*")):
    if os.path.isfile(f):
        shutil.copy(f, d)
# demo files must not be picked up by go tooling inside /verif: rename *_test.go -> *_test.go.txt
for f in glob.glob(os.path.join(d, "*.go")):
    os.rename(f, f + ".txt")
meta = {
    "property": prop,
    "origin": "independent sub-agent given only the property text and a scratch worktree of /repo",
    "breaks": open(os.path.join(src, "NOTES.md")).read().split("\n\n")[0][:600] if os.path.exists(os.path.join(src, "NOTES.md")) else "",
    "needs_to_manifest": needs,
    "demo": {"file": [os.path.basename(f) for f in glob.glob(os.path.join(d, "*.go.txt"))], "package_dir": pkg,
             "how": "copy the file (without the .txt suffix) into the package directory of a worktree with patch.diff applied; go test -run 'Seeded|Demo' fails with the patch and passes without it"},
    "confirmed": "tools/seedcheck.sh: patch applies on /repo HEAD, go build ok, baseline suite unchanged (only TestParseRedirAddr fails), demo FAILS with the patch and PASSES without it",
    "detected_by": caught,
}
if os.environ.get("SEED_BASE"):
    # the patch was written against this commit of /repo and no longer applies to later ones (a later fix: commit
    # rewrote the same lines); seedsweep applies it there
    meta["base"] = os.environ["SEED_BASE"]
json.dump(meta, open(os.path.join(d, "meta.json"), "w"), indent=1)
print("saved", d, os.listdir(d))
