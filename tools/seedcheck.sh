#!/bin/bash
# usage: tools/seedcheck.sh <name> <seed-dir-with-patch.diff-and-demo> <demo-pkg-dir> <check-ids-comma> [tier]
# Confirms a seeded change (compiles, baseline suite unchanged, demo fails with / passes without) and runs /verif checks against it.
name=$1; sd=$2; pkg=$3; ids=$4; tier=${5:-quick}
export GOFLAGS=-mod=mod GOPROXY=off GOSUMDB=off GOTOOLCHAIN=local
wt=/tmp/sv-$name
git -C /repo worktree remove --force $wt >/dev/null 2>&1
git -C /repo worktree add --detach $wt HEAD >/dev/null 2>&1 || exit 3
cd $wt
git apply $sd/patch.diff || { echo "PATCH DOES NOT APPLY"; cd /; git -C /repo worktree remove --force $wt; exit 3; }
go1.26.8 build ./... || { echo "DOES NOT COMPILE"; cd /; git -C /repo worktree remove --force $wt; exit 3; }
echo "--- baseline suite with the patch (expected: only TestParseRedirAddr fails)"
go1.26.8 test -vet=off -count=1 ./cmd/... ./internal/client/ ./internal/common/ ./internal/ecdh/ ./internal/multiplex/ ./internal/server/... 2>&1 | grep -- "^--- FAIL\|^FAIL\|^ok\|^panic" | sort | uniq -c
demo=$(ls $sd/*_test.go 2>/dev/null | head -1)
if [ -n "$demo" ]; then
  cp $demo $wt/$pkg/
  echo "--- demo WITH patch (expected FAIL)"
  timeout 300 go1.26.8 test -vet=off -count=1 -run 'Seeded|seeded|Demo' ./$pkg/ 2>&1 | tail -4 | cut -c1-300
  git apply -R $sd/patch.diff
  echo "--- demo WITHOUT patch (expected ok)"
  timeout 300 go1.26.8 test -vet=off -count=1 -run 'Seeded|seeded|Demo' ./$pkg/ 2>&1 | tail -3 | cut -c1-300
  rm -f $wt/$pkg/$(basename $demo)
  git apply $sd/patch.diff
fi
cd /verif
for id in ${ids//,/ }; do
  echo "--- /verif check $id $tier against the patched tree"
  VERIF_REPO=$wt ./check $id $tier | grep -v "^KNOWN" | cut -c1-500
  echo "    exit=${PIPESTATUS[0]}"
done
git -C /repo worktree remove --force $wt; git -C /repo worktree prune
