#!/bin/bash
# Runs the quick check of each seeded change's property against a worktree with the change applied.
# usage: [SWEEP_SEEDS="0 5 9"] tools/seedsweep.sh [name-glob]
pat=${1:-*}
for d in /verif/seeded/$pat/; do
  name=$(basename $d); prop=$(python3 -c "import json;m=json.load(open('$d/meta.json'));print(m.get('sweep_property',m['property']))")
  wt=/tmp/sweep-$name
  git -C /repo worktree remove --force $wt >/dev/null 2>&1
  base=$(python3 -c "import json;print(json.load(open('$d/meta.json')).get('base','HEAD'))")
  git -C /repo worktree add --detach $wt $base >/dev/null 2>&1 || { echo "$name: worktree failed"; continue; }
  if ! git -C $wt apply $d/patch.diff 2>/dev/null; then echo "$name ($prop): PATCH NO LONGER APPLIES"; git -C /repo worktree remove --force $wt; continue; fi
  for seed in ${SWEEP_SEEDS:-0}; do
    out=$(VERIF_SEED=$seed VERIF_REPO=$wt /verif/check $prop quick 2>&1 | grep -v "^KNOWN"); rc=$?
    if echo "$out" | grep -q "^VIOLATION"; then echo "$name ($prop) seed=$seed: DETECTED  $(echo "$out" | grep -m1 detail | cut -c1-160)"; else echo "$name ($prop) seed=$seed: MISSED  $(echo "$out" | tail -1 | cut -c1-160)"; fi
  done
  git -C /repo worktree remove --force $wt
done
git -C /repo worktree prune
